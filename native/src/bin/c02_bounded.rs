//! C02/C06/C11/C13/C14/C15 bounded companion (never counted as proved).
//!
//! Runs the REAL signing / verification code through the public API on an enumerated finite family and
//! compares with oracles that do not look at the implementation:
//!   canon(text)  : every LF not preceded by CR becomes CR LF
//!   digest(sig, doc) : RFC 9580 5.2.4: H(salt ++ doc ++ version,type,pk,hash,len,hashed area ++ version,0xFF,len32),
//!                  computed with the sha1/sha2 crates from the WIRE bytes of the signature packet
//!   fingerprint(key) : SHA1(0x99 len16 body) / SHA256(0x9B len32 body); key id = low / high 64 bits
//! Families (N scales the text length only):
//!   01 text digests with a digest-recording key (full digest handed to the signer / verifier is compared):
//!      every text over {a,CR,LF,VT} of < N (and <= 7) octets and over {a,CR,LF} of the other lengths <= N x every split into <= 3 chunks x {v4, v6}
//!   02 neighbours: single-octet edits of every text: verify Ok iff canon equal (text sig), iff equal (binary sig)
//!   03 in-memory normaliser (LiteralData::from_str) == canon
//!   04 streaming MessageBuilder sign_text path <-> in-memory path, both directions
//!   05 Utf8 literal acceptance iff text is canonical, for every chunking
//!   06 texts padded with 'a' so that they touch the 512-octet window edges of the normalising reader
//!   6b 1100 / 1600 octet texts with every {a,CR,LF} combination at the octets around TWO window edges (729 texts) and
//!      8 patterns at each of THREE window edges (512 texts), source in pieces of {any, 512, 511, 513, 1} octets
//!   08 every octet value b in the texts b, a b, b LF, CR b, CR b LF, b CR LF b, whole and in every split
//!   07 the same with real Ed25519Legacy (v4) / Ed25519 (v6) keys on the texts of <= 3 octets
//!   10 tamper matrix (single bit flips in type / pk / hash / hashed area / salt), other key, issuer subpackets,
//!      version alignment, critical unknown subpackets, issuer fingerprint version (1..3 issuer fingerprints in every
//!      order, unknown subpacket first / middle / last; sign side and verify side)
//!   20 one-pass header changes, pairing of two signatures
//!   30 certifications (4 version combinations), subkey bindings and back signatures
//!   40 v6 salt sizes per hash with a v6 RSA key
//!   50 v6 primary with v4 subkey is refused on the public and the secret import path
//!   60 fingerprints / key ids / issuer subpackets / PKESK recipient fields
//!   63 hand-built v2/v3 RSA keys with moduli of 5..128 octets: key id = low 64 bits of n (left-padded), fingerprint = MD5(n ++ e)
//!   61 every issuer subpacket of every signature key S makes over key E (16 combinations) names S; 62 the same for
//!      key generation, detached and message builder signatures
//! usage: c02_bounded <N> [replay-case-hex]
use pgp::composed::{
    Deserializable, DetachedSignature, EncryptionCaps, Esk, KeyType, Message, MessageBuilder, SecretKeyParamsBuilder,
    SignedPublicKey, SignedPublicSubKey, SignedSecretKey, SubkeyParamsBuilder, SubpacketConfig,
};
use pgp::crypto::{ecc_curve::ECCCurve, hash::HashAlgorithm, public_key::PublicKeyAlgorithm, sym::SymmetricKeyAlgorithm};
use pgp::packet::{
    DataMode, KeyFlags, LiteralData, OnePassSignature, Packet, PacketParser, PacketTrait, PublicKey, Signature,
    SignatureConfig, SignatureType, SignatureVersionSpecific, Subpacket, SubpacketData, UserId,
};
use pgp::ser::Serialize;
use pgp::types::{
    Fingerprint, KeyDetails, KeyId, KeyVersion, Mpi, PacketHeaderVersion, Password, PublicParams, SignatureBytes, SigningKey,
    Tag, Timestamp, VerifyingKey,
};
use rand::SeedableRng;
use rand_chacha::ChaCha20Rng;
use sha2::Digest;
use std::io::Read;
use std::sync::Mutex;

/// the exhaustive part: all texts over ALPHABET of < N (and <= 7) octets and all texts over its first three letters of the remaining lengths <= N
const ALPHABET: [u8; 4] = [b'a', b'\r', b'\n', 0x0b];
const T0: u32 = 1_700_000_000;

// ---------------------------------------------------------------- oracles
fn canon(t: &[u8]) -> Vec<u8> {
    let mut out = Vec::with_capacity(t.len() + 8);
    let mut prev = 0u8;
    for &b in t {
        if b == b'\n' && prev != b'\r' {
            out.push(b'\r');
        }
        out.push(b);
        prev = b;
    }
    out
}

fn sha(hash_id: u8, input: &[u8]) -> Option<Vec<u8>> {
    Some(match hash_id {
        2 => sha1::Sha1::digest(input).to_vec(),
        8 => sha2::Sha256::digest(input).to_vec(),
        9 => sha2::Sha384::digest(input).to_vec(),
        10 => sha2::Sha512::digest(input).to_vec(),
        11 => sha2::Sha224::digest(input).to_vec(),
        _ => return None,
    })
}

/// The fields of a v4 / v6 signature packet body, cut out of the wire bytes by hand.
#[derive(Debug, Clone)]
struct Wire {
    version: u8,
    typ: u8,
    pk: u8,
    hash: u8,
    hashed: Vec<u8>,
    hashed_off: usize,
    hash16: [u8; 2],
    salt: Vec<u8>,
    salt_off: usize,
}

fn be(b: &[u8]) -> usize {
    b.iter().fold(0usize, |a, &x| a << 8 | x as usize)
}

fn parse_wire(b: &[u8]) -> Option<Wire> {
    let version = *b.first()?;
    let w = match version {
        4 => 2,
        6 => 4,
        _ => return None,
    };
    let hl = be(b.get(4..4 + w)?);
    let hashed_off = 4 + w;
    let hashed = b.get(hashed_off..hashed_off + hl)?.to_vec();
    let mut p = hashed_off + hl;
    let ul = be(b.get(p..p + w)?);
    p += w + ul;
    let hash16 = [*b.get(p)?, *b.get(p + 1)?];
    p += 2;
    let (salt, salt_off) = if version == 6 {
        let sl = *b.get(p)? as usize;
        (b.get(p + 1..p + 1 + sl)?.to_vec(), p + 1)
    } else {
        (vec![], p)
    };
    Some(Wire { version, typ: b[1], pk: b[2], hash: b[3], hashed, hashed_off, hash16, salt, salt_off })
}

/// RFC 9580 5.2.4 digest of a v4/v6 signature whose wire fields are `w` over the document part `doc`
/// (already canonicalised for text signatures; key / user id framing for certifications).
fn indep_digest(w: &Wire, doc: &[u8]) -> Option<Vec<u8>> {
    let mut input = w.salt.clone();
    input.extend_from_slice(doc);
    let mut fields = vec![w.version, w.typ, w.pk, w.hash];
    if w.version == 4 {
        fields.extend((w.hashed.len() as u16).to_be_bytes());
    } else {
        fields.extend((w.hashed.len() as u32).to_be_bytes());
    }
    fields.extend_from_slice(&w.hashed);
    input.extend_from_slice(&fields);
    input.extend_from_slice(&[w.version, 0xff]);
    input.extend((fields.len() as u32).to_be_bytes());
    sha(w.hash, &input)
}

fn sig_wire(sig: &Signature) -> Result<Wire, String> {
    let body = sig.to_bytes().map_err(|e| format!("serialise signature: {e}"))?;
    parse_wire(&body).ok_or_else(|| "own mini parser cannot cut the signature packet".to_string())
}

/// key framing inside certification / binding digests, for a signature of version `sigv`
fn frame_key(sigv: u8, body: &[u8]) -> Vec<u8> {
    let mut v = vec![];
    if sigv == 6 {
        v.push(0x9b);
        v.extend((body.len() as u32).to_be_bytes());
    } else {
        v.push(0x99);
        v.extend((body.len() as u16).to_be_bytes());
    }
    v.extend_from_slice(body);
    v
}

fn frame_uid(uid: &[u8]) -> Vec<u8> {
    let mut v = vec![0xb4];
    v.extend((uid.len() as u32).to_be_bytes());
    v.extend_from_slice(uid);
    v
}

fn hx(b: &[u8]) -> String {
    b.iter().map(|x| format!("{x:02x}")).collect()
}

fn show(t: &[u8]) -> String {
    let mut s = String::new();
    for &b in t {
        match b {
            b'\r' => s.push_str("\\r"),
            b'\n' => s.push_str("\\n"),
            b'"' => s.push('\''),
            32..=126 => s.push(b as char),
            _ => s.push_str(&format!("\\x{b:02x}")),
        }
    }
    s
}

fn short(s: &str) -> String {
    s.chars().take(160).collect::<String>().replace(['\n', '"'], " ")
}

// ---------------------------------------------------------------- a reader that hands out given pieces
#[derive(Debug)]
struct Chunked {
    chunks: Vec<Vec<u8>>,
    next: usize,
}

impl Chunked {
    fn new(data: &[u8], cuts: &[usize]) -> Self {
        let mut chunks = Vec::new();
        let mut start = 0;
        for &cut in cuts {
            chunks.push(data[start..cut].to_vec());
            start = cut;
        }
        chunks.push(data[start..].to_vec());
        chunks.retain(|c| !c.is_empty());
        Self { chunks, next: 0 }
    }
}

impl Read for Chunked {
    fn read(&mut self, buf: &mut [u8]) -> std::io::Result<usize> {
        let Some(chunk) = self.chunks.get_mut(self.next) else { return Ok(0) };
        let n = chunk.len().min(buf.len());
        buf[..n].copy_from_slice(&chunk[..n]);
        if n == chunk.len() {
            self.next += 1;
        } else {
            chunk.drain(..n);
        }
        Ok(n)
    }
}

/// hands out `data` in pieces of `size` octets (0 = everything the caller asks for)
#[derive(Debug)]
struct Pieces<'a> {
    data: &'a [u8],
    pos: usize,
    size: usize,
}

impl Read for Pieces<'_> {
    fn read(&mut self, buf: &mut [u8]) -> std::io::Result<usize> {
        let mut n = (self.data.len() - self.pos).min(buf.len());
        if self.size > 0 {
            n = n.min(self.size);
        }
        buf[..n].copy_from_slice(&self.data[self.pos..self.pos + n]);
        self.pos += n;
        Ok(n)
    }
}

// ---------------------------------------------------------------- a key that records the digest it is handed
/// Has the identity (version, fingerprint, algorithm) of a real key; "signs" by returning the digest itself and
/// verifies by comparing: the library's whole hashing pipeline runs, the digests it produces become visible.
#[derive(Debug)]
struct DigestKey {
    inner: PublicKey,
    seen: Mutex<Vec<Vec<u8>>>,
}

impl DigestKey {
    fn new(inner: PublicKey) -> Self {
        Self { inner, seen: Mutex::new(vec![]) }
    }
    fn take(&self) -> Option<Vec<u8>> {
        let mut g = self.seen.lock().unwrap_or_else(|e| e.into_inner());
        let r = g.last().cloned();
        g.clear();
        r
    }
}

impl KeyDetails for DigestKey {
    fn version(&self) -> KeyVersion {
        self.inner.version()
    }
    fn legacy_key_id(&self) -> KeyId {
        self.inner.legacy_key_id()
    }
    fn fingerprint(&self) -> Fingerprint {
        self.inner.fingerprint()
    }
    fn algorithm(&self) -> PublicKeyAlgorithm {
        self.inner.algorithm()
    }
    fn created_at(&self) -> Timestamp {
        self.inner.created_at()
    }
    fn legacy_v3_expiration_days(&self) -> Option<u16> {
        None
    }
    fn public_params(&self) -> &PublicParams {
        self.inner.public_params()
    }
}

impl DigestKey {
    /// wire-compatible stand-in for a cryptographic signature over `digest` (so that it survives packet parsing)
    fn encode(&self, digest: &[u8]) -> SignatureBytes {
        let mut d32 = digest.to_vec();
        d32.resize(32, 0);
        d32.truncate(32);
        match self.inner.algorithm() {
            PublicKeyAlgorithm::Ed25519 => {
                let mut v = d32.clone();
                v.extend_from_slice(&d32);
                SignatureBytes::Native(v.into())
            }
            _ => {
                let mut r = vec![1u8];
                r.extend_from_slice(&d32);
                SignatureBytes::Mpis(vec![Mpi::from_slice(&r), Mpi::from_slice(&[1u8])])
            }
        }
    }
}

impl SigningKey for DigestKey {
    fn sign(&self, _pw: &Password, _hash: HashAlgorithm, data: &[u8]) -> pgp::errors::Result<SignatureBytes> {
        self.seen.lock().unwrap_or_else(|e| e.into_inner()).push(data.to_vec());
        Ok(self.encode(data))
    }
    fn hash_alg(&self) -> HashAlgorithm {
        HashAlgorithm::Sha256
    }
}

impl VerifyingKey for DigestKey {
    fn verify(&self, _hash: HashAlgorithm, data: &[u8], sig: &SignatureBytes) -> pgp::errors::Result<()> {
        self.seen.lock().unwrap_or_else(|e| e.into_inner()).push(data.to_vec());
        if *sig == self.encode(data) {
            Ok(())
        } else {
            Err(std::io::Error::other("digest differs from the signed digest").into())
        }
    }
}

// ---------------------------------------------------------------- bookkeeping
struct Tally {
    total: u64,
    nontrivial: u64,
    failures: u64,
    samples: u32,
    replay: Option<String>,
}

/// what a case reports: Ok(nontrivial) or Err("(clause) why")
type CaseResult = Result<bool, String>;

impl Tally {
    fn case(&mut self, id: &str, desc: &dyn Fn() -> String, f: impl FnOnce() -> CaseResult) {
        if let Some(r) = &self.replay {
            if r != id {
                return;
            }
        }
        self.total += 1;
        let res = std::panic::catch_unwind(std::panic::AssertUnwindSafe(f));
        let res = match res {
            Ok(r) => r,
            Err(p) => {
                let msg = p.downcast_ref::<String>().cloned().or_else(|| p.downcast_ref::<&str>().map(|s| s.to_string())).unwrap_or_default();
                Err(format!("(panic) {}", short(&msg)))
            }
        };
        match res {
            Ok(nt) => {
                if nt {
                    self.nontrivial += 1;
                    if self.samples < 3 && (self.total % 977 == 1 || self.replay.is_some()) {
                        self.samples += 1;
                        println!("SAMPLE {id} {}", desc());
                    }
                }
            }
            Err(why) => {
                self.nontrivial += 1;
                self.failures += 1;
                if self.failures <= 20 {
                    println!("FAIL hex={id} text=\"{}\" {}", desc().replace('"', "'"), why.replace('\n', " "));
                }
            }
        }
    }
}

macro_rules! ensure {
    ($cond:expr, $($arg:tt)*) => {
        if !($cond) {
            return Err(format!($($arg)*));
        }
    };
}

fn e2s<T, E: std::fmt::Display>(r: Result<T, E>, clause: &str, what: &str) -> Result<T, String> {
    r.map_err(|e| format!("({clause}) {what}: {}", short(&e.to_string())))
}

// ---------------------------------------------------------------- keys
fn gen_key(seed: u64, version: KeyVersion, uid: &str) -> SignedSecretKey {
    let mut rng = ChaCha20Rng::seed_from_u64(seed);
    let (prim, sign, enc) = match version {
        KeyVersion::V6 => (KeyType::Ed25519, KeyType::Ed25519, KeyType::X25519),
        _ => (KeyType::Ed25519Legacy, KeyType::Ed25519Legacy, KeyType::ECDH(ECCCurve::Curve25519Legacy)),
    };
    let created = Timestamp::from_secs(T0 - 1000 + seed as u32);
    let sign_sub = SubkeyParamsBuilder::default().version(version).key_type(sign).can_sign(true).created_at(created).build().expect("subkey params");
    let enc_sub = SubkeyParamsBuilder::default().version(version).key_type(enc).can_encrypt(EncryptionCaps::All).created_at(created).build().expect("subkey params");
    let mut p = SecretKeyParamsBuilder::default();
    p.version(version).key_type(prim).can_certify(true).can_sign(true).created_at(created).primary_user_id(uid.into()).subkeys(vec![sign_sub, enc_sub]);
    if version == KeyVersion::V6 {
        p.feature_seipd_v2(true);
    }
    p.build().expect("key params").generate(&mut rng).expect("generate")
}

fn gen_rsa_v6(seed: u64) -> SignedSecretKey {
    let mut rng = ChaCha20Rng::seed_from_u64(seed);
    let mut p = SecretKeyParamsBuilder::default();
    p.version(KeyVersion::V6).key_type(KeyType::Rsa(2048)).can_certify(true).can_sign(true).created_at(Timestamp::from_secs(T0 - 500)).primary_user_id("rsa <rsa@example.org>".into());
    p.build().expect("key params").generate(&mut rng).expect("generate")
}

fn ctime() -> Subpacket {
    Subpacket::regular(SubpacketData::SignatureCreationTime(Timestamp::from_secs(T0))).expect("subpacket")
}

fn issuer_fp(k: &impl KeyDetails) -> Subpacket {
    Subpacket::regular(SubpacketData::IssuerFingerprint(k.fingerprint())).expect("subpacket")
}

fn issuer_id(k: &impl KeyDetails) -> Subpacket {
    Subpacket::regular(SubpacketData::IssuerKeyId(k.legacy_key_id())).expect("subpacket")
}

fn config_for(k: &impl KeyDetails, typ: SignatureType, hash: HashAlgorithm, salt_seed: u64) -> SignatureConfig {
    match k.version() {
        KeyVersion::V6 => {
            let n = match hash {
                HashAlgorithm::Sha384 => 24,
                HashAlgorithm::Sha512 | HashAlgorithm::Sha3_512 => 32,
                _ => 16,
            };
            let salt: Vec<u8> = (0..n).map(|i| (salt_seed as u8).wrapping_mul(31).wrapping_add(i as u8 * 7 + 1)).collect();
            SignatureConfig::v6_with_salt(typ, k.algorithm(), hash, salt)
        }
        _ => SignatureConfig::v4(typ, k.algorithm(), hash),
    }
}

// ---------------------------------------------------------------- text enumeration
fn texts(n: usize) -> Vec<Vec<u8>> {
    fn layer(alpha: &[u8], len: usize) -> Vec<Vec<u8>> {
        let mut l: Vec<Vec<u8>> = vec![vec![]];
        for _ in 0..len {
            let mut next = Vec::with_capacity(l.len() * alpha.len());
            for t in &l {
                for &c in alpha {
                    let mut u = t.clone();
                    u.push(c);
                    next.push(u);
                }
            }
            l = next;
        }
        l
    }
    let mut out = vec![];
    for len in 0..=n {
        out.extend(layer(if len < n && len <= 7 { &ALPHABET } else { &ALPHABET[..3] }, len));
    }
    out
}

fn edits(t: &[u8]) -> Vec<Vec<u8>> {
    let mut out = vec![];
    for i in 0..t.len() {
        for &c in &ALPHABET {
            if c != t[i] {
                let mut u = t.to_vec();
                u[i] = c;
                out.push(u);
            }
        }
        let mut u = t.to_vec();
        u.remove(i);
        out.push(u);
    }
    for i in 0..=t.len() {
        for &c in &ALPHABET {
            let mut u = t.to_vec();
            u.insert(i, c);
            out.push(u);
        }
    }
    out
}

fn cuts_id(cuts: &[usize]) -> String {
    let mut s = format!("{:02x}", cuts.len());
    for c in cuts {
        s.push_str(&format!("{:04x}", c));
    }
    s
}

// ---------------------------------------------------------------- families 01..07: text canonicalisation and digests

/// sign `text` (delivered in the pieces `cuts`) with the digest-recording key and check digest + verification
fn sign_and_check(dk: &DigestKey, typ: SignatureType, text: &[u8], cuts: &[usize], salt_seed: u64) -> Result<Signature, String> {
    let mut cfg = config_for(dk, typ, HashAlgorithm::Sha256, salt_seed);
    cfg.hashed_subpackets = vec![ctime(), issuer_fp(dk)];
    dk.take();
    let sig = e2s(cfg.sign(dk, &Password::empty(), Chunked::new(text, cuts)), "C06 sign", "signing failed")?;
    let d_sign = dk.take().ok_or("(C06 sign) signer was not called")?;
    let w = sig_wire(&sig)?;
    let doc = if typ == SignatureType::Text { canon(text) } else { text.to_vec() };
    let want = indep_digest(&w, &doc).ok_or("hash not supported by the oracle")?;
    ensure!(d_sign == want, "(C11/C14 sign side) digest handed to the signer {} differs from RFC 9580 5.2.4 digest {} over canon(text)={}", hx(&d_sign[..4]), hx(&want[..4]), show(&doc));
    ensure!(sig.signed_hash_value() == Some([want[0], want[1]]), "(C11 hash16) stored left 16 bits {:?} differ from the digest {}", sig.signed_hash_value(), hx(&want[..2]));
    // verify side (NormalizedReader for text signatures)
    let r = sig.verify(dk, Chunked::new(text, cuts));
    let d_ver = dk.take();
    if let Err(e) = r {
        let msg = e.to_string();
        let msg = if msg.contains("invalid signed hash value") { "signature: invalid signed hash value".to_string() } else { short(&msg) };
        return Err(format!("(C06/C14 verify side) library-made signature does not verify over the very same data: verify side hashed to {}, RFC digest over canon(text) is {}: {}", d_ver.map(|d| hx(&d[..4])).unwrap_or_else(|| "(no digest reached the key)".into()), hx(&want[..4]), msg));
    }
    ensure!(d_ver.as_deref() == Some(&want[..]), "(C11/C14 verify side) digest on the verify side differs from the RFC digest");
    Ok(sig)
}

fn ops_message(sig: &Signature, key: &impl KeyDetails, typ: SignatureType, hash: HashAlgorithm, pk: PublicKeyAlgorithm, salt_flip: bool, payload: &[u8]) -> Result<Vec<u8>, String> {
    let config = sig.config().ok_or("unknown signature")?;
    let ops = match &config.version_specific {
        SignatureVersionSpecific::V6 { salt } => {
            let Fingerprint::V6(fp) = key.fingerprint() else { return Err("v6 signature but no v6 fingerprint".into()) };
            let mut salt = salt.to_vec();
            if salt_flip {
                salt[0] ^= 1;
            }
            OnePassSignature::v6(typ, hash, pk, salt, fp)
        }
        _ => OnePassSignature::v3(typ, hash, pk, key.legacy_key_id()),
    };
    let literal = LiteralData::from_bytes(&b""[..], payload.to_vec().into()).map_err(|e| e.to_string())?;
    let mut out = Vec::new();
    ops.to_writer_with_header(&mut out).map_err(|e| e.to_string())?;
    literal.to_writer_with_header(&mut out).map_err(|e| e.to_string())?;
    sig.to_writer_with_header(&mut out).map_err(|e| e.to_string())?;
    Ok(out)
}

/// read a signed message to the end and verify signature 0; Ok(data) or Err(stage: error)
fn read_and_verify(bytes: &[u8], key: &dyn VerifyingKey) -> Result<(Vec<u8>, Signature), String> {
    let mut m = Message::from_bytes(bytes).map_err(|e| format!("parse: {}", short(&e.to_string())))?;
    let data = m.as_data_vec().map_err(|e| format!("read: {}", short(&e.to_string())))?;
    let sig = m.verify(key).map_err(|e| format!("verify: {}", short(&e.to_string())))?.clone();
    Ok((data, sig))
}

/// streaming signer (MessageBuilder sign_text, binary literal) and streaming message reader against the oracle digest,
/// and crosswise with the one-shot / detached path
fn stream_and_cross(dk: &DigestKey, text: &[u8], cuts: &[usize]) -> Result<(), String> {
    let rng = ChaCha20Rng::seed_from_u64(4);
    let mut b = MessageBuilder::from_reader("", Chunked::new(text, cuts));
    b.sign_text();
    e2s(b.partial_chunk_size(512), "C06 stream", "chunk size")?;
    b.sign(dk as &dyn SigningKey, Password::empty(), HashAlgorithm::Sha256);
    dk.take();
    let bytes = e2s(b.to_vec(rng), "C06 stream", "building the signed message failed")?;
    let d_sign = dk.take().ok_or("(C06 stream) signer not called")?;
    let (data, sig) = read_and_verify(&bytes, dk).map_err(|e| format!("(C06 stream) own signed message: {e}"))?;
    let d_ver = dk.take();
    ensure!(data == text, "(C06 stream data) literal data changed: {}", show(&data));
    let w = sig_wire(&sig)?;
    let want = indep_digest(&w, &canon(text)).ok_or("hash")?;
    ensure!(d_sign == want, "(C11/C14 stream sign) digest of the streaming signer {} differs from the RFC digest {} over canon(text)", hx(&d_sign[..4]), hx(&want[..4]));
    ensure!(d_ver.as_deref() == Some(&want[..]), "(C11/C14 stream verify) digest of the message reader differs from the RFC digest");
    // streaming-made signature verifies on the in-memory path
    e2s(sig.verify(dk, &text[..]), "C14 stream->detached", "signature from the streaming path does not verify as detached signature")?;
    // detached signature verifies inside a one-pass message
    if cuts.is_empty() {
        let det = sign_and_check(dk, SignatureType::Text, text, &[], 9)?;
        let cfg = det.config().ok_or("config")?;
        let m = ops_message(&det, dk, SignatureType::Text, cfg.hash_alg, cfg.pub_alg, false, text)?;
        let (d2, _) = read_and_verify(&m, dk).map_err(|e| format!("(C14 detached->stream) detached text signature inside a one-pass message: {e}"))?;
        ensure!(d2 == text, "(C06 stream data) data changed");
    }
    Ok(())
}

fn all_cuts(len: usize, max_chunks: usize) -> Vec<Vec<usize>> {
    let mut out = vec![vec![]];
    if max_chunks >= 2 {
        for c in 1..len {
            out.push(vec![c]);
        }
    }
    if max_chunks >= 3 {
        for c1 in 1..len {
            for c2 in c1 + 1..len {
                out.push(vec![c1, c2]);
            }
        }
    }
    out
}

fn text_families(t: &mut Tally, n: usize, k4: &SignedSecretKey, k6: &SignedSecretKey) {
    let dk4 = DigestKey::new(k4.primary_key.public_key().clone());
    let dk6 = DigestKey::new(k6.primary_key.public_key().clone());
    let all = texts(n);
    for text in &all {
        let th = hx(text);
        let three = if text.len() <= 7 { 3 } else { 2 };
        // 01: every chunking, v4 and v6, digest-recording key
        for cuts in all_cuts(text.len(), three) {
            for (vi, dk) in [(4u8, &dk4), (6u8, &dk6)] {
                let id = format!("01{vi:02x}{}{}", cuts_id(&cuts), th);
                t.case(&id, &|| format!("v{vi} text signature over {} delivered in pieces cut at {:?}", show(text), cuts), || {
                    sign_and_check(dk, SignatureType::Text, text, &cuts, text.len() as u64)?;
                    Ok(text.iter().any(|&c| c != b'a'))
                });
            }
            // 05: Utf8 literal acceptance is independent of the chunking
            if !text.is_empty() {
                let id = format!("05{}{}", cuts_id(&cuts), th);
                t.case(&id, &|| format!("Utf8 literal from {} delivered in pieces cut at {:?}", show(text), cuts), || {
                    let canonical = canon(text) == *text;
                    let rng = ChaCha20Rng::seed_from_u64(5);
                    let mut b = MessageBuilder::from_reader("", Chunked::new(text, &cuts));
                    e2s(b.data_mode(DataMode::Utf8), "C14 utf8", "data_mode")?;
                    e2s(b.partial_chunk_size(512), "C14 utf8", "chunk size")?;
                    match b.to_vec(rng) {
                        Ok(bytes) => {
                            ensure!(canonical, "(C14 utf8 accept) text with a bare LF accepted as Utf8 literal for this chunking (canonical form is {})", show(&canon(text)));
                            let mut m = e2s(Message::from_bytes(&bytes[..]), "C14 utf8", "parse")?;
                            let d = e2s(m.as_data_vec(), "C14 utf8", "read")?;
                            ensure!(d == *text, "(C14 utf8 data) literal data changed: {}", show(&d));
                        }
                        Err(e) => {
                            ensure!(!canonical, "(C14 utf8 reject) canonical text refused as Utf8 literal: {}", short(&e.to_string()));
                        }
                    }
                    Ok(text.contains(&b'\n'))
                });
            }
        }
        // 02: neighbours (single-octet edits)
        for (vi, dk) in [(4u8, &dk4), (6u8, &dk6)] {
            let id = format!("02{vi:02x}{th}");
            t.case(&id, &|| format!("v{vi} text and binary signatures over {} against all single-octet edits", show(text)), || {
                let ts = sign_and_check(dk, SignatureType::Text, text, &[], 2)?;
                let bs = sign_and_check(dk, SignatureType::Binary, text, &[], 3)?;
                for u in edits(text) {
                    let same = canon(&u) == canon(text);
                    let r = ts.verify(dk, &u[..]);
                    ensure!(r.is_ok() == same, "(C02/C06 text) text signature over {} verified={} over {} (canon equal: {same})", show(text), r.is_ok(), show(&u));
                    let r = bs.verify(dk, &u[..]);
                    ensure!(r.is_err(), "(C02 binary) binary signature over {} verified over the different data {}", show(text), show(&u));
                }
                dk.take();
                Ok(true)
            });
        }
        // 03: in-memory normaliser
        let id = format!("03{th}");
        t.case(&id, &|| format!("LiteralData::from_str({})", show(text)), || {
            let s = std::str::from_utf8(text).map_err(|e| e.to_string())?;
            let l = e2s(LiteralData::from_str("", s), "C14 mem", "from_str")?;
            ensure!(l.data() == &canon(text)[..], "(C14 in-memory) normalize_lines gives {}, canon is {}", show(l.data()), show(&canon(text)));
            Ok(text.contains(&b'\n'))
        });
        // 04: streaming path <-> in-memory path
        for cuts in all_cuts(text.len(), 2) {
            for (vi, dk) in [(4u8, &dk4), (6u8, &dk6)] {
                let id = format!("04{vi:02x}{}{}", cuts_id(&cuts), th);
                t.case(&id, &|| format!("v{vi} MessageBuilder sign_text over {} cut at {:?} <-> detached", show(text), cuts), || {
                    stream_and_cross(dk, text, &cuts)?;
                    dk.take();
                    Ok(true)
                });
            }
        }
        // 06: padded so that the text touches the window edges of the normalising reader
        if !text.is_empty() && text.iter().any(|&c| c != b'a') {
            let mut pads: Vec<usize> = (0..=text.len()).map(|i| 512 - i).collect();
            pads.push(1024 - text.len());
            pads.push(1024);
            for pad in pads {
                let mut long = vec![b'a'; pad];
                long.extend_from_slice(text);
                for cuts in [vec![], vec![pad]] {
                    let id = format!("06{:04x}{}{}", pad, cuts_id(&cuts), th);
                    t.case(&id, &|| format!("v4 text signature over 'a' x {pad} ++ {} cut at {:?}", show(text), cuts), || {
                        sign_and_check(&dk4, SignatureType::Text, &long, &cuts, 6)?;
                        Ok(true)
                    });
                }
            }
        }
    }
    // 6b: lone CRs / line endings at TWO and THREE consecutive 512-octet window edges of the normalising reader
    {
        let letters = [b'a', b'\r', b'\n'];
        let mut family: Vec<(u8, u32, Vec<u8>)> = vec![];
        // 1100 octets: the six positions 510,511,512,1022,1023,1024 take every combination of {a,CR,LF}
        for code in 0..729u32 {
            let mut text = vec![b'a'; 1100];
            let mut c = code;
            for p in [510usize, 511, 512, 1022, 1023, 1024] {
                text[p] = letters[(c % 3) as usize];
                c /= 3;
            }
            family.push((0, code, text));
        }
        // 1600 octets: each of the triples at 510.., 1022.., 1534.. from 8 patterns (8^3 = 512 texts)
        let triples: [&[u8; 3]; 8] = [b"aaa", b"a\ra", b"a\r\n", b"\r\ra", b"\n\ra", b"a\na", b"aa\r", b"\r\na"];
        for code in 0..512u32 {
            let mut text = vec![b'a'; 1600];
            for (i, base) in [510usize, 1022, 1534].into_iter().enumerate() {
                text[base..base + 3].copy_from_slice(triples[((code >> (3 * i)) & 7) as usize]);
            }
            family.push((1, code, text));
        }
        for (shape, code, text) in &family {
            for size in [0usize, 512, 511, 513, 1] {
                for (vi, dk) in [(4u8, &dk4), (6u8, &dk6)] {
                    let id = format!("6b{vi:02x}{shape:02x}{code:04x}{size:04x}");
                    t.case(&id, &|| format!("v{vi} text signature over {} octets of 'a' with {} / {} / {} at offsets 510.., 1022.., 1534.., source delivered in pieces of {} octets", text.len(), show(&text[510..513]), show(&text[1022..1025]), if text.len() > 1537 { show(&text[1534..1537]) } else { "-".into() }, if size == 0 { "any number of".to_string() } else { size.to_string() }), || {
                        dk.take();
                        let ds = e2s(DetachedSignature::sign_text_data(ChaCha20Rng::seed_from_u64(11), dk, &Password::empty(), HashAlgorithm::Sha256, Pieces { data: text, pos: 0, size }), "C06 sign_text_data", "sign")?;
                        let d_sign = dk.take().ok_or("(C06) signer not called")?;
                        let w = sig_wire(&ds.signature)?;
                        let want = indep_digest(&w, &canon(text)).ok_or("hash")?;
                        ensure!(d_sign == want, "(C11/C14 sign side) digest handed to the signer {} differs from the RFC digest {} over canon(text)", hx(&d_sign[..4]), hx(&want[..4]));
                        // one-shot verification over the slice and over the same piece schedule
                        let r = ds.verify(dk, text);
                        let d_ver = dk.take();
                        ensure!(r.is_ok() && d_ver.as_deref() == Some(&want[..]), "(C06/C14 verify side) DetachedSignature::verify over the very same text: ok = {}, verify side hashed to {}, RFC digest over canon(text) is {}", r.is_ok(), d_ver.map(|d| hx(&d[..4])).unwrap_or_else(|| "(nothing)".into()), hx(&want[..4]));
                        let r = ds.signature.verify(dk, Pieces { data: text, pos: 0, size });
                        let d_ver = dk.take();
                        ensure!(r.is_ok() && d_ver.as_deref() == Some(&want[..]), "(C06/C14 verify side) Signature::verify over the same text in the same pieces: ok = {}, verify side hashed to {}, RFC digest over canon(text) is {}", r.is_ok(), d_ver.map(|d| hx(&d[..4])).unwrap_or_else(|| "(nothing)".into()), hx(&want[..4]));
                        Ok(true)
                    });
                }
            }
        }
    }
    // 08: every octet value next to line endings, one piece and every split (binary-safe APIs)
    for b in 0..=255u8 {
        let shapes: [Vec<u8>; 6] = [vec![b], vec![b'a', b], vec![b, b'\n'], vec![b'\r', b], vec![b'\r', b, b'\n'], vec![b, b'\r', b'\n', b]];
        for (si, text) in shapes.iter().enumerate() {
            for mask in 0u32..1 << (text.len() - 1) {
                let cuts: Vec<usize> = (1..text.len()).filter(|i| mask & (1 << (i - 1)) != 0).collect();
                for (vi, dk) in [(4u8, &dk4), (6u8, &dk6)] {
                    let id = format!("08{vi:02x}{b:02x}{si:02x}{}", cuts_id(&cuts));
                    t.case(&id, &|| format!("v{vi} text signatures over the octets {} delivered in pieces cut at {:?} (into_hasher, sign_text_data, MessageBuilder sign_text, Signature::verify, message reader)", show(text), cuts), || {
                        let det = sign_and_check(dk, SignatureType::Text, text, &cuts, 8)?;
                        dk.take();
                        let rng = ChaCha20Rng::seed_from_u64(8);
                        let ds = e2s(DetachedSignature::sign_text_data(rng, dk, &Password::empty(), HashAlgorithm::Sha256, Chunked::new(text, &cuts)), "C06 sign_text_data", "sign")?;
                        let d = dk.take().ok_or("(C06) signer not called")?;
                        let w = sig_wire(&ds.signature)?;
                        let want = indep_digest(&w, &canon(text)).ok_or("hash")?;
                        ensure!(d == want, "(C11/C14 sign_text_data) digest handed to the signer {} differs from the RFC digest {} over canon(text)={}", hx(&d[..4]), hx(&want[..4]), show(&canon(text)));
                        e2s(ds.verify(dk, text), "C06/C14 sign_text_data", "does not verify on the one-shot path")?;
                        stream_and_cross(dk, text, &cuts)?;
                        // the one-shot signature inside a one-pass message (streaming verifier)
                        let cfg = det.config().ok_or("config")?;
                        let m = ops_message(&det, dk, SignatureType::Text, cfg.hash_alg, cfg.pub_alg, false, text)?;
                        read_and_verify(&m, dk).map_err(|e| format!("(C14 detached->stream) text signature inside a one-pass message: {e}"))?;
                        dk.take();
                        Ok(true)
                    });
                }
            }
        }
    }
    // 07: real keys
    for text in texts(n.min(3)) {
        for (vi, k) in [(4u8, k4), (6u8, k6)] {
            let id = format!("07{vi:02x}{}", hx(&text));
            t.case(&id, &|| format!("real v{vi} key: sign_text_data / MessageBuilder sign_text over {}", show(&text)), || {
                let pk = k.primary_key.public_key();
                let hash = if vi == 4 { HashAlgorithm::Sha256 } else { HashAlgorithm::Sha512 };
                let rng = ChaCha20Rng::seed_from_u64(7);
                let sig = e2s(DetachedSignature::sign_text_data(rng, &k.primary_key, &Password::empty(), hash, &text[..]), "C06 real", "sign_text_data")?;
                e2s(sig.verify(pk, &text), "C06 real", "own text signature does not verify")?;
                let w = sig_wire(&sig.signature)?;
                let want = indep_digest(&w, &canon(&text)).ok_or("hash")?;
                ensure!(w.hash16 == [want[0], want[1]], "(C11 hash16) left 16 bits {} differ from the RFC digest {}", hx(&w.hash16), hx(&want[..2]));
                e2s(sig.verify(pk, &canon(&text)), "C06 real", "text signature does not verify over the CRLF form")?;
                let mut other = text.clone();
                other.push(b'a');
                ensure!(sig.verify(pk, &other).is_err(), "(C02 real) text signature verified over different text");
                let rng = ChaCha20Rng::seed_from_u64(8);
                let mut b = MessageBuilder::from_bytes("", text.clone());
                b.sign_text();
                b.sign(&k.primary_key, Password::empty(), hash);
                let bytes = e2s(b.to_vec(rng), "C06 real", "message")?;
                let (data, msig) = read_and_verify(&bytes, pk).map_err(|e| format!("(C06 real stream) {e}"))?;
                ensure!(data == text, "(C06 real) data changed");
                e2s(msig.verify(pk, &text[..]), "C14 real", "message signature does not verify detached")?;
                let cfg = sig.signature.config().ok_or("config")?;
                let m = ops_message(&sig.signature, pk, SignatureType::Text, cfg.hash_alg, cfg.pub_alg, false, &text)?;
                read_and_verify(&m, pk).map_err(|e| format!("(C14 real detached->stream) {e}"))?;
                Ok(true)
            });
        }
    }
}
// ---------------------------------------------------------------- families 10..60: real keys

const DOC: &[u8] = b"pay 100 to alice\r\nand nothing else\r\n";
const DOC_LF: &[u8] = b"pay 100 to alice\nand nothing else\n";
const DOC_OTHER: &[u8] = b"pay 900 to alice\r\nand nothing else\r\n";

fn packet_bytes(tag: u8, body: &[u8]) -> Vec<u8> {
    let mut v = vec![0xc0 | tag];
    if body.len() < 192 {
        v.push(body.len() as u8);
    } else {
        v.push(0xff);
        v.extend((body.len() as u32).to_be_bytes());
    }
    v.extend_from_slice(body);
    v
}

fn parse_sig(body: &[u8]) -> Option<Signature> {
    let bytes = packet_bytes(2, body);
    match PacketParser::new(&bytes[..]).next() {
        Some(Ok(Packet::Signature(s))) => Some(s),
        _ => None,
    }
}

/// the same key material with one bit of the creation time flipped: other fingerprint / key id
fn other_identity(key: &PublicKey) -> Result<PublicKey, String> {
    let mut body = key.to_bytes().map_err(|e| e.to_string())?;
    body[4] ^= 0x01;
    let bytes = packet_bytes(6, &body);
    match PacketParser::new(&bytes[..]).next() {
        Some(Ok(Packet::PublicKey(k))) => Ok(k),
        _ => Err("modified key does not parse".into()),
    }
}

fn hash_of(k: &impl KeyDetails) -> HashAlgorithm {
    if k.version() == KeyVersion::V6 {
        HashAlgorithm::Sha512
    } else {
        HashAlgorithm::Sha256
    }
}

/// A signature made WITHOUT the library's hashing: the digest is the oracle's, only the raw public-key operation
/// (`SigningKey::sign` on the digest) and the packet assembly are the library's.
fn craft(signer: &impl SigningKey, cfg: SignatureConfig, hashed_area_wire: Option<Vec<u8>>, doc: &[u8]) -> Result<Signature, String> {
    let hashed = match hashed_area_wire {
        Some(h) => h,
        None => {
            let mut h = vec![];
            for sp in &cfg.hashed_subpackets {
                sp.to_writer(&mut h).map_err(|e| e.to_string())?;
            }
            h
        }
    };
    let (version, salt) = match &cfg.version_specific {
        SignatureVersionSpecific::V4 => (4u8, vec![]),
        SignatureVersionSpecific::V6 { salt } => (6u8, salt.to_vec()),
        _ => return Err("craft: version".into()),
    };
    let w = Wire { version, typ: cfg.typ.into(), pk: cfg.pub_alg.into(), hash: cfg.hash_alg.into(), hashed, hashed_off: 0, hash16: [0, 0], salt, salt_off: 0 };
    let digest = indep_digest(&w, doc).ok_or("craft: hash")?;
    let raw = signer.sign(&Password::empty(), cfg.hash_alg, &digest).map_err(|e| format!("raw sign: {e}"))?;
    Signature::from_config(cfg, [digest[0], digest[1]], raw).map_err(|e| e.to_string())
}

fn sig_families(t: &mut Tally, k4: &SignedSecretKey, k4b: &SignedSecretKey, k6: &SignedSecretKey, k6b: &SignedSecretKey) {
    let keys: [(u8, &SignedSecretKey, &SignedSecretKey); 2] = [(4, k4, k4b), (6, k6, k6b)];

    // ------------------------------------------------------------ 10: tamper matrix
    for (vi, k, kb) in keys {
        let pk = k.primary_key.public_key();
        for (ti, typ) in [(0u8, SignatureType::Binary), (1u8, SignatureType::Text)] {
            let rng = ChaCha20Rng::seed_from_u64(10 + ti as u64);
            let subp = SubpacketConfig::UserDefined { hashed: vec![ctime(), issuer_fp(pk)], unhashed: if vi == 4 { vec![issuer_id(pk)] } else { vec![] } };
            let base = std::panic::catch_unwind(std::panic::AssertUnwindSafe(|| match typ {
                SignatureType::Binary => DetachedSignature::sign_binary_data_with_subpackets(rng, &k.primary_key, &Password::empty(), hash_of(pk), DOC, subp),
                _ => DetachedSignature::sign_text_data_with_subpackets(rng, &k.primary_key, &Password::empty(), hash_of(pk), DOC, subp),
            }));
            let base = match base {
                Ok(Ok(b)) => b.signature,
                _ => {
                    t.case(&format!("10{vi:02x}{ti:02x}"), &|| "base signature".to_string(), || Err("(C06 base) the library cannot make the base signature".into()));
                    continue;
                }
            };
            let body = base.to_bytes().unwrap_or_default();
            // 1000: the untouched signature verifies, its digest is the RFC one, and it does not verify other data
            t.case(&format!("1000{vi:02x}{ti:02x}"), &|| format!("v{vi} {typ:?} signature by a real key over DOC"), || {
                e2s(base.verify(pk, DOC), "C06 base", "own signature does not verify")?;
                let w = sig_wire(&base)?;
                let doc = if ti == 1 { canon(DOC) } else { DOC.to_vec() };
                let want = indep_digest(&w, &doc).ok_or("hash")?;
                ensure!(w.hash16 == [want[0], want[1]], "(C11 hash16) left 16 bits {} differ from the RFC digest {}", hx(&w.hash16), hx(&want[..2]));
                ensure!(base.verify(pk, DOC_OTHER).is_err(), "(C02 data) signature verified over other data");
                ensure!(base.verify(pk, DOC_LF).is_ok() == (ti == 1), "(C02/C06 line endings) {typ:?} signature over CRLF text verified over the LF form: {}", base.verify(pk, DOC_LF).is_ok());
                let reparsed = parse_sig(&body).ok_or("(C06 reparse) own signature does not parse")?;
                e2s(reparsed.verify(pk, DOC), "C06 reparse", "re-parsed own signature does not verify")?;
                // a second, unrelated key and the same key material under another identity
                ensure!(base.verify(kb.primary_key.public_key(), DOC).is_err(), "(C02 key) verified under an unrelated key");
                let other = other_identity(pk)?;
                ensure!(other.fingerprint() != pk.fingerprint(), "other identity has the same fingerprint");
                ensure!(base.verify(&other, DOC).is_err(), "(C02 issuer) verified under a key with another fingerprint (creation time differs)");
                Ok(true)
            });
            // 1001: single bit flips
            if let Some(w) = parse_wire(&body) {
                let mut positions: Vec<usize> = vec![1, 2, 3];
                positions.extend(4..w.hashed_off); // hashed area length
                positions.extend(w.hashed_off..w.hashed_off + w.hashed.len());
                positions.extend(w.salt_off..w.salt_off + w.salt.len());
                for p in positions {
                    for bit in 0..8u8 {
                        let id = format!("1001{vi:02x}{ti:02x}{p:04x}{bit:02x}");
                        t.case(&id, &|| format!("v{vi} {typ:?} signature, bit {bit} of body octet {p} flipped (octet was {:02x})", body[p]), || {
                            let mut m = body.clone();
                            m[p] ^= 1 << bit;
                            let Some(s) = parse_sig(&m) else { return Ok(false) };
                            let r = s.verify(pk, DOC);
                            ensure!(r.is_err(), "(C02 tamper) signature still verifies after the change");
                            Ok(true)
                        });
                    }
                }
            }
            // 1002: issuer subpacket variants; (hashed?, kind 0 = key id / 1 = fingerprint, names own key?)
            for hashed in [false, true] {
                for kind in 0..2u8 {
                    for own in [false, true] {
                        let id = format!("1002{vi:02x}{ti:02x}{:02x}{kind:02x}{:02x}", hashed as u8, own as u8);
                        t.case(&id, &|| format!("v{vi} {typ:?} signature whose only issuer subpacket is a {} ({}) naming {}", if kind == 0 { "key id" } else { "fingerprint" }, if hashed { "hashed" } else { "unhashed" }, if own { "the signer" } else { "the same key material under another creation time" }), || {
                            let other = other_identity(pk)?;
                            let named: &PublicKey = if own { pk } else { &other };
                            let sp = if kind == 0 { issuer_id(named) } else { issuer_fp(named) };
                            let mut cfg = config_for(pk, typ, hash_of(pk), 12);
                            cfg.hashed_subpackets = vec![ctime()];
                            if hashed {
                                cfg.hashed_subpackets.push(sp);
                            } else {
                                cfg.unhashed_subpackets.push(sp);
                            }
                            let sig = e2s(cfg.sign(&k.primary_key, &Password::empty(), DOC), "C06 issuer", "sign")?;
                            let sig = parse_sig(&sig.to_bytes().map_err(|e| e.to_string())?).ok_or("(C06 issuer) own signature does not parse")?;
                            let r_own = sig.verify(pk, DOC);
                            let r_other = sig.verify(&other, DOC);
                            if own {
                                ensure!(r_own.is_ok(), "(C13 issuer) signature naming the signer's own {} is not matched to the signer: {}", if kind == 0 { format!("key id {:?}", pk.legacy_key_id()) } else { "fingerprint".into() }, short(&r_own.err().map(|e| e.to_string()).unwrap_or_default()));
                                ensure!(r_other.is_err(), "(C02 issuer) signature naming the signer verified under a key with another fingerprint");
                            } else {
                                ensure!(r_own.is_err(), "(C02 issuer) signature naming another key verified under the signer's key");
                            }
                            Ok(true)
                        });
                    }
                }
            }
        }
        // 1003: version alignment with hand-made signatures (oracle digest + raw signing operation)
        for sv in [4u8, 6u8] {
            let id = format!("1003{vi:02x}{sv:02x}");
            t.case(&id, &|| format!("hand-made v{sv} binary signature attributed to the v{vi} key"), || {
                let mut cfg = if sv == 6 {
                    SignatureConfig::v6_with_salt(SignatureType::Binary, pk.algorithm(), hash_of(pk), vec![0x5a; if hash_of(pk) == HashAlgorithm::Sha512 { 32 } else { 16 }])
                } else {
                    SignatureConfig::v4(SignatureType::Binary, pk.algorithm(), hash_of(pk))
                };
                cfg.hashed_subpackets = vec![ctime()];
                let sig = craft(&k.primary_key, cfg, None, DOC)?;
                let r = sig.verify(pk, DOC);
                if sv == vi {
                    e2s(r, "C11 hand-made", "a signature over the RFC 9580 5.2.4 digest computed by the oracle is not accepted")?;
                } else {
                    ensure!(r.is_err(), "(C15 alignment) v{sv} signature accepted for a v{vi} key");
                }
                Ok(true)
            });
        }
        // 1004: critical unknown subpackets in the hashed area; 1005: issuer fingerprint version
        for styp in (100u8..=110).chain([60u8]) {
            for critical in [false, true] {
                let id = format!("1004{vi:02x}{styp:02x}{:02x}", critical as u8);
                t.case(&id, &|| format!("hand-made v{vi} signature with a hashed {} subpacket of type {styp}", if critical { "critical" } else { "non-critical" }), || {
                    let mut cfg = config_for(pk, SignatureType::Binary, hash_of(pk), 14);
                    cfg.hashed_subpackets = vec![ctime(), issuer_fp(pk)];
                    let mut area = vec![];
                    for sp in &cfg.hashed_subpackets {
                        sp.to_writer(&mut area).map_err(|e| e.to_string())?;
                    }
                    area.extend_from_slice(&[3, styp | if critical { 0x80 } else { 0 }, 0xab, 0xcd]);
                    // put the same subpacket into the config through the parser: parse a template signature
                    let tmpl = craft(&k.primary_key, cfg, Some(area.clone()), DOC)?;
                    let mut body = tmpl.to_bytes().map_err(|e| e.to_string())?;
                    // splice the hashed area into the wire form
                    let w = parse_wire(&body).ok_or("wire")?;
                    let lw = if vi == 6 { 4 } else { 2 };
                    let mut nb = body[..4].to_vec();
                    if vi == 6 {
                        nb.extend((area.len() as u32).to_be_bytes());
                    } else {
                        nb.extend((area.len() as u16).to_be_bytes());
                    }
                    nb.extend_from_slice(&area);
                    nb.extend_from_slice(&body[4 + lw + w.hashed.len()..]);
                    body = nb;
                    let Some(sig) = parse_sig(&body) else {
                        ensure!(critical, "(C06 unknown subpacket) signature with a non-critical unknown subpacket does not parse");
                        return Ok(true);
                    };
                    let r = sig.verify(pk, DOC);
                    if critical {
                        ensure!(r.is_err(), "(C15 critical) signature with an unknown critical hashed subpacket (type {styp}) accepted");
                    } else {
                        e2s(r, "C06 unknown subpacket", "valid signature with a non-critical unknown subpacket rejected")?;
                    }
                    Ok(true)
                });
            }
        }
        let id = format!("1005{vi:02x}");
        t.case(&id, &|| format!("hand-made v{vi} signature whose hashed issuer fingerprint is of the other key version"), || {
            let foreign = if vi == 4 { k6.primary_key.public_key() } else { k4.primary_key.public_key() };
            let mut cfg = config_for(pk, SignatureType::Binary, hash_of(pk), 15);
            cfg.hashed_subpackets = vec![ctime(), issuer_fp(foreign), issuer_fp(pk)];
            let sig = craft(&k.primary_key, cfg, None, DOC)?;
            ensure!(sig.verify(pk, DOC).is_err(), "(C15 issuer fingerprint version) accepted a hashed issuer fingerprint of another version");
            Ok(true)
        });
    }

    // 1006: two and three hashed Issuer Fingerprint subpackets in every order of {own version, other version};
    // 1007: an unknown (critical / non-critical) subpacket first / in the middle / last among known ones
    for (vi, k, _kb) in keys {
        let pk = k.primary_key.public_key();
        let foreign = if vi == 4 { k6.primary_key.public_key() } else { k4.primary_key.public_key() };
        for len in [2usize, 3] {
            for mask in 0u32..1 << len {
                let id = format!("1006{vi:02x}{len:02x}{mask:02x}");
                let seq: Vec<bool> = (0..len).map(|i| mask & (1 << i) != 0).collect(); // true = other version
                t.case(&id, &|| format!("v{vi} signature whose hashed area holds the issuer fingerprints {:?} (own = v{vi} signer, other = fingerprint of the other key version)", seq.iter().map(|o| if *o { "other" } else { "own" }).collect::<Vec<_>>()), || {
                    let any_other = seq.iter().any(|o| *o);
                    let mut hashed = vec![ctime()];
                    hashed.extend(seq.iter().map(|o| if *o { issuer_fp(foreign) } else { issuer_fp(pk) }));
                    // sign side: SignatureConfig::sign and the detached API
                    let mut cfg = config_for(pk, SignatureType::Binary, hash_of(pk), 16);
                    cfg.hashed_subpackets = hashed.clone();
                    let r = cfg.sign(&k.primary_key, &Password::empty(), DOC);
                    ensure!(r.is_err() == any_other, "(C15 issuer fingerprint version, sign) SignatureConfig::sign {} a v{vi} signature whose hashed issuer fingerprints are {:?}", if r.is_ok() { "made" } else { "refused" }, seq);
                    if let Ok(sig) = r {
                        e2s(sig.verify(pk, DOC), "C06", "signature with several own issuer fingerprints")?;
                    }
                    let r = DetachedSignature::sign_binary_data_with_subpackets(ChaCha20Rng::seed_from_u64(16), &k.primary_key, &Password::empty(), hash_of(pk), DOC, SubpacketConfig::UserDefined { hashed: hashed.clone(), unhashed: vec![] });
                    ensure!(r.is_err() == any_other, "(C15 issuer fingerprint version, sign) sign_binary_data_with_subpackets {} a v{vi} signature whose hashed issuer fingerprints are {:?}", if r.is_ok() { "made" } else { "refused" }, seq);
                    // verify side: hand-made from the oracle digest, as parsed from the wire
                    let mut cfg = config_for(pk, SignatureType::Binary, hash_of(pk), 17);
                    cfg.hashed_subpackets = hashed;
                    let sig = craft(&k.primary_key, cfg, None, DOC)?;
                    let sig = parse_sig(&sig.to_bytes().map_err(|e| e.to_string())?).ok_or("hand-made signature does not parse")?;
                    let r = sig.verify(pk, DOC);
                    if any_other {
                        ensure!(r.is_err(), "(C15 issuer fingerprint version, verify) accepted a v{vi} signature whose hashed issuer fingerprints are {:?} (true = other key version)", seq);
                    } else {
                        e2s(r, "C11 hand-made", "signature with several own issuer fingerprints rejected")?;
                    }
                    Ok(true)
                });
            }
        }
        for styp in [101u8, 60u8] {
            for pos in 0..3usize {
                for critical in [false, true] {
                    let id = format!("1007{vi:02x}{styp:02x}{pos:02x}{:02x}", critical as u8);
                    t.case(&id, &|| format!("v{vi} signature with a {} subpacket of unknown type {styp} at position {pos} among [creation time, issuer fingerprint]", if critical { "critical" } else { "non-critical" }), || {
                        let data = if styp == 60 { SubpacketData::Other(styp, vec![0xab, 0xcd].into()) } else { SubpacketData::Experimental(styp, vec![0xab, 0xcd].into()) };
                        let unknown = e2s(if critical { Subpacket::critical(data) } else { Subpacket::regular(data) }, "C06", "subpacket")?;
                        let mut hashed = vec![ctime(), issuer_fp(pk)];
                        hashed.insert(pos, unknown);
                        let mut cfg = config_for(pk, SignatureType::Binary, hash_of(pk), 18);
                        cfg.hashed_subpackets = hashed.clone();
                        let r = cfg.sign(&k.primary_key, &Password::empty(), DOC);
                        ensure!(r.is_err() == critical, "(C15 critical, sign) SignatureConfig::sign {} a signature with this hashed area", if r.is_ok() { "made" } else { "refused" });
                        if let Ok(sig) = r {
                            e2s(sig.verify(pk, DOC), "C06 unknown subpacket", "own signature with a non-critical unknown subpacket")?;
                        }
                        let mut cfg = config_for(pk, SignatureType::Binary, hash_of(pk), 19);
                        cfg.hashed_subpackets = hashed;
                        let sig = craft(&k.primary_key, cfg, None, DOC)?;
                        let sig = parse_sig(&sig.to_bytes().map_err(|e| e.to_string())?).ok_or("hand-made signature does not parse")?;
                        let r = sig.verify(pk, DOC);
                        if critical {
                            ensure!(r.is_err(), "(C15 critical, verify) accepted a signature with an unknown critical subpacket (type {styp}) at position {pos} of the hashed area");
                        } else {
                            e2s(r, "C06 unknown subpacket", "valid signature with a non-critical unknown subpacket rejected")?;
                        }
                        Ok(true)
                    });
                }
            }
        }
    }

    // ------------------------------------------------------------ 20: one-pass header, pairing
    for (vi, k, kb) in keys {
        let pk = k.primary_key.public_key();
        for (ti, typ) in [(0u8, SignatureType::Binary), (1u8, SignatureType::Text)] {
            let rng = ChaCha20Rng::seed_from_u64(20);
            let sig = std::panic::catch_unwind(std::panic::AssertUnwindSafe(|| match typ {
                SignatureType::Binary => DetachedSignature::sign_binary_data(rng, &k.primary_key, &Password::empty(), hash_of(pk), DOC),
                _ => DetachedSignature::sign_text_data(rng, &k.primary_key, &Password::empty(), hash_of(pk), DOC),
            }));
            let Ok(Ok(sig)) = sig else {
                t.case(&format!("20{vi:02x}{ti:02x}"), &|| "base signature".to_string(), || Err("(C06 base) the library cannot make the base signature".into()));
                continue;
            };
            let sig = sig.signature;
            let other_hash = if hash_of(pk) == HashAlgorithm::Sha512 { HashAlgorithm::Sha3_512 } else { HashAlgorithm::Sha3_256 };
            for otyp in [SignatureType::Binary, SignatureType::Text] {
                for ohash in [hash_of(pk), other_hash] {
                    for opk in [pk.algorithm(), PublicKeyAlgorithm::RSA] {
                        for salt_flip in [false, true] {
                            if salt_flip && vi == 4 {
                                continue;
                            }
                            for (pi, payload) in [(0u8, DOC), (1u8, DOC_LF), (2u8, DOC_OTHER)] {
                                let id = format!("2000{vi:02x}{ti:02x}{:02x}{:02x}{:02x}{:02x}{pi:02x}", u8::from(otyp), u8::from(ohash), u8::from(opk), salt_flip as u8);
                                t.case(&id, &|| format!("v{vi} {typ:?} signature over DOC in a one-pass message whose header says type {otyp:?} hash {ohash:?} pk {opk:?} salt changed {salt_flip}, payload {}", ["DOC", "DOC with LF line endings", "other text"][pi as usize]), || {
                                    let header_same = otyp == typ && ohash == hash_of(pk) && opk == pk.algorithm() && !salt_flip;
                                    let payload_ok = pi == 0 || (pi == 1 && ti == 1);
                                    let m = ops_message(&sig, pk, otyp, ohash, opk, salt_flip, payload)?;
                                    let r = read_and_verify(&m, pk);
                                    if header_same && payload_ok {
                                        let (d, _) = r.map_err(|e| format!("(C06 one-pass) honest one-pass message: {e}"))?;
                                        ensure!(d == payload, "(C06 one-pass) data changed");
                                    } else {
                                        ensure!(r.is_err(), "(C02 one-pass) message verified although {}", if header_same { "the payload differs from the signed data" } else { "the One-Pass header disagrees with the signature packet" });
                                    }
                                    Ok(true)
                                });
                            }
                        }
                    }
                }
            }
        }
        // 2001: two signers (different hash algorithms); signatures in the right and in the swapped order
        let id = format!("2001{vi:02x}");
        t.case(&id, &|| format!("v{vi} message with two one-pass signatures (two signers, two hash algorithms), trailing signatures in the right / swapped order"), || {
            let pkb = kb.primary_key.public_key();
            let rng = ChaCha20Rng::seed_from_u64(21);
            let (h1, h2) = if vi == 4 { (HashAlgorithm::Sha256, HashAlgorithm::Sha512) } else { (HashAlgorithm::Sha512, HashAlgorithm::Sha3_512) };
            let mut b = MessageBuilder::from_bytes("", DOC.to_vec());
            b.sign(&k.primary_key, Password::empty(), h1);
            b.sign(&kb.primary_key, Password::empty(), h2);
            let bytes = e2s(b.to_vec(rng), "C06 pairing", "build")?;
            let mut m = e2s(Message::from_bytes(&bytes[..]), "C06 pairing", "parse")?;
            e2s(m.as_data_vec(), "C06 pairing", "read")?;
            let mut hits = [0u8; 2];
            for i in 0..2 {
                for (j, key) in [pk, pkb].into_iter().enumerate() {
                    if m.verify_nested_explicit(i, key).is_ok() {
                        hits[j] += 1;
                    }
                }
            }
            ensure!(hits == [1, 1], "(C06 pairing) each signer's key must verify exactly one of the two signatures, got {hits:?}");
            let mut packets = vec![];
            for p in PacketParser::new(&bytes[..]) {
                packets.push(e2s(p, "C06 pairing", "packet")?);
            }
            ensure!(packets.len() == 5, "expected 5 packets, got {}", packets.len());
            packets.swap(3, 4);
            let mut swapped = vec![];
            for p in &packets {
                p.to_writer(&mut swapped).map_err(|e| e.to_string())?;
            }
            let accepted = (|| {
                let Ok(mut m) = Message::from_bytes(&swapped[..]) else { return false };
                if m.as_data_vec().is_err() {
                    return false;
                }
                (0..2).any(|i| [pk, pkb].into_iter().any(|key| m.verify_nested_explicit(i, key).is_ok()))
            })();
            ensure!(!accepted, "(C02 pairing) a signature verified although the trailing signatures were swapped (One-Pass / Signature pairing ignored)");
            Ok(true)
        });
    }
    sig_families2(t, k4, k4b, k6, k6b);
}

fn key_body(k: &(impl Serialize + ?Sized)) -> Result<Vec<u8>, String> {
    k.to_bytes().map_err(|e| e.to_string())
}

fn indep_fingerprint(version: u8, body: &[u8]) -> Vec<u8> {
    if version == 6 {
        let mut v = vec![0x9b];
        v.extend((body.len() as u32).to_be_bytes());
        v.extend_from_slice(body);
        sha2::Sha256::digest(&v).to_vec()
    } else {
        let mut v = vec![0x99];
        v.extend((body.len() as u16).to_be_bytes());
        v.extend_from_slice(body);
        sha1::Sha1::digest(&v).to_vec()
    }
}

fn sig_families2(t: &mut Tally, k4: &SignedSecretKey, k4b: &SignedSecretKey, k6: &SignedSecretKey, k6b: &SignedSecretKey) {
    let all: [(u8, &SignedSecretKey); 4] = [(0x4a, k4), (0x4b, k4b), (0x6a, k6), (0x6b, k6b)];

    // ------------------------------------------------------------ 30: certifications
    for (si, signer) in all {
        for (ei, signee) in all {
            let id = format!("3000{si:02x}{ei:02x}");
            t.case(&id, &|| format!("user id certification by key {si:02x} over key {ei:02x} (first digit: key version)"), || {
                let spk = signer.primary_key.public_key();
                let epk = signee.primary_key.public_key();
                let uid = e2s(UserId::from_str(PacketHeaderVersion::New, "carol <carol@example.org>"), "C06 cert", "uid")?;
                let rng = ChaCha20Rng::seed_from_u64(30);
                let signed = if si == ei {
                    e2s(uid.sign(rng, &signer.primary_key, spk, &Password::empty()), "C06 cert", "UserId::sign")?
                } else {
                    e2s(uid.sign_third_party(rng, &signer.primary_key, &Password::empty(), epk, SignatureType::CertGeneric), "C06 cert", "sign_third_party")?
                };
                let sig = signed.signatures.first().ok_or("(C06 cert) no signature")?.clone();
                if si == ei {
                    e2s(signed.verify_bindings(spk), "C06 cert", "self-certification does not verify")?;
                    e2s(sig.verify_certification(spk, Tag::UserId, &uid), "C06 cert", "verify_certification")?;
                } else {
                    e2s(signed.verify_third_party(epk, spk), "C06/C15 cert", "third-party certification does not verify")?;
                }
                e2s(sig.verify_third_party_certification(epk, spk, Tag::UserId, &uid), "C06/C15 cert", "verify_third_party_certification")?;
                // soundness: other user id, other signee, other signer
                let uid2 = e2s(UserId::from_str(PacketHeaderVersion::New, "carol <carol@example.com>"), "C06 cert", "uid")?;
                ensure!(sig.verify_third_party_certification(epk, spk, Tag::UserId, &uid2).is_err(), "(C02 cert) certification verified for another user id");
                for (oi, o) in all {
                    let opk = o.primary_key.public_key();
                    if oi != ei {
                        ensure!(sig.verify_third_party_certification(opk, spk, Tag::UserId, &uid).is_err(), "(C02 cert) certification verified for another certified key ({oi:02x})");
                    }
                    if oi != si {
                        ensure!(sig.verify_third_party_certification(epk, opk, Tag::UserId, &uid).is_err(), "(C02 cert) certification verified under another signer key ({oi:02x})");
                    }
                }
                // version alignment of the library-made certification and RFC digest (same-version pairs only:
                // cross-version framing is a recorded deviation)
                let w = sig_wire(&sig)?;
                ensure!(w.version == si >> 4, "(C15 cert) v{} key made a v{} certification", si >> 4, w.version);
                if si >> 4 == ei >> 4 {
                    let mut doc = frame_key(w.version, &key_body(epk)?);
                    doc.extend(frame_uid(uid.id()));
                    let want = indep_digest(&w, &doc).ok_or("hash")?;
                    ensure!(w.hash16 == [want[0], want[1]], "(C11 cert framing) left 16 bits {} differ from the RFC digest {}", hx(&w.hash16), hx(&want[..2]));
                }
                Ok(true)
            });
            // 3001: hand-made certification of each signature version by each signer over each signee
            for sv in [4u8, 6u8] {
                if si == ei || sv != ei >> 4 {
                    continue; // the framing of hand-made signatures is only unambiguous when signature and signee versions agree
                }
                let id = format!("3001{si:02x}{ei:02x}{sv:02x}");
                t.case(&id, &|| format!("hand-made v{sv} certification (oracle digest) issued by key {si:02x} over key {ei:02x}"), || {
                    let spk = signer.primary_key.public_key();
                    let epk = signee.primary_key.public_key();
                    let uid = e2s(UserId::from_str(PacketHeaderVersion::New, "carol <carol@example.org>"), "C06 cert", "uid")?;
                    let h = hash_of(spk);
                    let mut cfg = if sv == 6 {
                        SignatureConfig::v6_with_salt(SignatureType::CertGeneric, spk.algorithm(), h, vec![0x33; if h == HashAlgorithm::Sha512 { 32 } else { 16 }])
                    } else {
                        SignatureConfig::v4(SignatureType::CertGeneric, spk.algorithm(), h)
                    };
                    cfg.hashed_subpackets = vec![ctime()];
                    let mut doc = frame_key(sv, &key_body(epk)?);
                    doc.extend(frame_uid(uid.id()));
                    let sig = craft(&signer.primary_key, cfg, None, &doc)?;
                    let r = sig.verify_third_party_certification(epk, spk, Tag::UserId, &uid);
                    if sv == si >> 4 {
                        e2s(r, "C11 cert framing", "certification over the RFC 9580 digest (0x99/0x9B key framing, 0xB4 user id framing) computed by the oracle is not accepted")?;
                    } else {
                        ensure!(r.is_err(), "(C15 cert alignment) a v{sv} certification issued by a v{} key was accepted", si >> 4);
                    }
                    Ok(true)
                });
            }
        }
    }
    // 3002: subkey bindings and back signatures
    for (ki, k) in all {
        let id = format!("3002{ki:02x}");
        t.case(&id, &|| format!("key {ki:02x}: bindings of the generated key (signing subkey with back signature, encryption subkey)"), || {
            let pk = k.primary_key.public_key();
            e2s(k.verify_bindings(), "C06 bindings", "SignedSecretKey::verify_bindings")?;
            let public: SignedPublicKey = k.to_public_key();
            e2s(public.verify_bindings(), "C06 bindings", "SignedPublicKey::verify_bindings")?;
            let bytes = e2s(public.to_bytes(), "C06 bindings", "serialise")?;
            let back = e2s(SignedPublicKey::from_bytes(&bytes[..]), "C06 bindings", "parse own certificate")?;
            e2s(back.verify_bindings(), "C06 bindings", "re-parsed certificate")?;
            // RFC digest of the binding and of the embedded primary key binding
            let sub = &k.secret_subkeys[0];
            let bsig = sub.signatures.first().ok_or("no binding")?;
            let w = sig_wire(bsig)?;
            let mut doc = frame_key(w.version, &key_body(pk)?);
            doc.extend(frame_key(w.version, &key_body(sub.key.public_key())?));
            let want = indep_digest(&w, &doc).ok_or("hash")?;
            ensure!(w.hash16 == [want[0], want[1]], "(C11 binding framing) subkey binding: left 16 bits {} differ from the RFC digest {}", hx(&w.hash16), hx(&want[..2]));
            let emb = bsig.embedded_signature().ok_or("(C06 bindings) signing subkey without embedded back signature")?;
            let we = sig_wire(emb)?;
            let want = indep_digest(&we, &doc).ok_or("hash")?;
            ensure!(we.hash16 == [want[0], want[1]], "(C11 binding framing) primary key binding: left 16 bits {} differ from the RFC digest {}", hx(&we.hash16), hx(&want[..2]));
            // a binding for the signing subkey WITHOUT back signature / with the back signature of another subkey
            let mut flags = KeyFlags::default();
            flags.set_sign(true);
            let spub = sub.key.public_key();
            let rng = ChaCha20Rng::seed_from_u64(32);
            let with = e2s(spub.sign(rng, &k.primary_key, pk, &Password::empty(), flags.clone(), Some(emb.clone())), "C06 bindings", "PublicSubkey::sign")?;
            e2s(SignedPublicSubKey::new(spub.clone(), vec![with]).verify_bindings(pk), "C06 bindings", "fresh binding with back signature")?;
            let rng = ChaCha20Rng::seed_from_u64(33);
            let without = e2s(spub.sign(rng, &k.primary_key, pk, &Password::empty(), flags.clone(), None), "C06 bindings", "PublicSubkey::sign")?;
            ensure!(SignedPublicSubKey::new(spub.clone(), vec![without]).verify_bindings(pk).is_err(), "(C02 back signature) signing subkey binding without embedded back signature accepted");
            // the other key of the same version
            let other = all.iter().find(|(oi, _)| oi >> 4 == ki >> 4 && *oi != ki).map(|(_, o)| *o).ok_or("no other key")?;
            let foreign_emb = other.secret_subkeys[0].signatures[0].embedded_signature().ok_or("no embedded")?.clone();
            let rng = ChaCha20Rng::seed_from_u64(34);
            let wrong = e2s(spub.sign(rng, &k.primary_key, pk, &Password::empty(), flags, Some(foreign_emb)), "C06 bindings", "PublicSubkey::sign")?;
            ensure!(SignedPublicSubKey::new(spub.clone(), vec![wrong]).verify_bindings(pk).is_err(), "(C02 back signature) back signature of another subkey accepted");
            // binding of this subkey does not verify under another primary
            ensure!(sub.verify_bindings(other.primary_key.public_key()).is_err(), "(C02 binding) subkey binding verified under another primary key");
            Ok(true)
        });
    }

    // ------------------------------------------------------------ 50: key versions inside one certificate
    for (pi, prim) in all {
        for (si, subk) in all {
            if pi & 0x0f != 0x0a || si & 0x0f != 0x0b {
                continue;
            }
            for secret in [false, true] {
                let id = format!("50{pi:02x}{si:02x}{:02x}", secret as u8);
                t.case(&id, &|| format!("certificate of v{} primary key followed by the encryption subkey (and binding) of a v{} key, {} import path", pi >> 4, si >> 4, if secret { "secret" } else { "public" }), || {
                    let s = &subk.secret_subkeys[1];
                    let mut bytes = if secret { key_body_full(prim)? } else { key_body_full(&prim.to_public_key())? };
                    if secret {
                        s.key.to_writer_with_header(&mut bytes).map_err(|e| e.to_string())?;
                    } else {
                        s.key.public_key().to_writer_with_header(&mut bytes).map_err(|e| e.to_string())?;
                    }
                    s.signatures[0].to_writer_with_header(&mut bytes).map_err(|e| e.to_string())?;
                    let accepted = if secret { SignedSecretKey::from_bytes(&bytes[..]).is_ok() } else { SignedPublicKey::from_bytes(&bytes[..]).is_ok() };
                    if pi >> 4 == 6 && si >> 4 != 6 {
                        ensure!(!accepted, "(C15 subkey version) a v4 subkey under a v6 primary key was accepted on the {} import path", if secret { "secret" } else { "public" });
                    } else if pi >> 4 == si >> 4 {
                        ensure!(accepted, "(C06 import) same-version certificate refused");
                    } else {
                        return Ok(false);
                    }
                    Ok(true)
                });
            }
        }
    }

    // ------------------------------------------------------------ 60: fingerprints, key ids, issuer / recipient fields
    for (ki, k) in all {
        let id = format!("60{ki:02x}");
        t.case(&id, &|| format!("key {ki:02x}: fingerprints, key ids, issuer subpackets of library signatures, PKESK recipient"), || {
            let v = ki >> 4;
            let pk = k.primary_key.public_key();
            let mut bodies: Vec<(Vec<u8>, Fingerprint, KeyId)> = vec![(key_body(pk)?, pk.fingerprint(), pk.legacy_key_id())];
            bodies.push((key_body(pk)?, k.primary_key.fingerprint(), k.primary_key.legacy_key_id()));
            for s in &k.secret_subkeys {
                bodies.push((key_body(s.key.public_key())?, s.key.fingerprint(), s.key.legacy_key_id()));
                bodies.push((key_body(s.key.public_key())?, s.key.public_key().fingerprint(), s.key.public_key().legacy_key_id()));
            }
            for (body, fp, kid) in &bodies {
                let want = indep_fingerprint(v, body);
                ensure!(fp.as_bytes() == &want[..], "(C13 fingerprint) {} differs from the RFC fingerprint {}", hx(fp.as_bytes()), hx(&want));
                let want_id = if v == 6 { &want[..8] } else { &want[want.len() - 8..] };
                ensure!(kid.as_ref() == want_id, "(C13 key id) {:?} differs from the RFC key id {}", kid, hx(want_id));
            }
            // issuer subpackets of default signatures
            let rng = ChaCha20Rng::seed_from_u64(60);
            let sig = e2s(DetachedSignature::sign_binary_data(rng, &k.primary_key, &Password::empty(), hash_of(pk), DOC), "C06", "sign")?.signature;
            ensure!(sig.issuer_fingerprint() == vec![&pk.fingerprint()], "(C13 issuer fingerprint) default signature carries {:?}", sig.issuer_fingerprint());
            if v == 6 {
                ensure!(sig.issuer_key_id().is_empty(), "(C13 issuer key id) v6 signature carries an issuer key id");
            } else {
                ensure!(sig.issuer_key_id() == vec![&pk.legacy_key_id()], "(C13 issuer key id) default signature carries {:?}", sig.issuer_key_id());
            }
            let sub_sig = {
                let rng = ChaCha20Rng::seed_from_u64(61);
                let sk = &k.secret_subkeys[0].key;
                e2s(DetachedSignature::sign_binary_data(rng, sk, &Password::empty(), hash_of(pk), DOC), "C06", "sign with subkey")?.signature
            };
            let spub = k.secret_subkeys[0].key.public_key();
            ensure!(sub_sig.issuer_fingerprint() == vec![&spub.fingerprint()], "(C13 issuer fingerprint) signature by the signing subkey carries {:?}", sub_sig.issuer_fingerprint());
            e2s(sub_sig.verify(spub, DOC), "C06", "signature by the signing subkey")?;
            ensure!(sub_sig.verify(pk, DOC).is_err(), "(C02 issuer) signature by the subkey verified under the primary key");
            // PKESK recipient
            let epub = k.secret_subkeys[1].key.public_key();
            for anon in [false, true] {
                let mut rng = ChaCha20Rng::seed_from_u64(62);
                let bytes = if v == 6 {
                    let mut b = MessageBuilder::from_bytes("", DOC.to_vec()).seipd_v2(&mut rng, SymmetricKeyAlgorithm::AES128, pgp::crypto::aead::AeadAlgorithm::Ocb, pgp::crypto::aead::ChunkSize::default());
                    if anon {
                        e2s(b.encrypt_to_key_anonymous(&mut rng, epub), "C13 pkesk", "encrypt")?;
                    } else {
                        e2s(b.encrypt_to_key(&mut rng, epub), "C13 pkesk", "encrypt")?;
                    }
                    e2s(b.to_vec(&mut rng), "C13 pkesk", "build")?
                } else {
                    let mut b = MessageBuilder::from_bytes("", DOC.to_vec()).seipd_v1(&mut rng, SymmetricKeyAlgorithm::AES128);
                    if anon {
                        e2s(b.encrypt_to_key_anonymous(&mut rng, epub), "C13 pkesk", "encrypt")?;
                    } else {
                        e2s(b.encrypt_to_key(&mut rng, epub), "C13 pkesk", "encrypt")?;
                    }
                    e2s(b.to_vec(&mut rng), "C13 pkesk", "build")?
                };
                let m = e2s(Message::from_bytes(&bytes[..]), "C13 pkesk", "parse")?;
                let Message::Encrypted { esk, .. } = &m else { return Err("(C13 pkesk) not encrypted".into()) };
                let Some(Esk::PublicKeyEncryptedSessionKey(p)) = esk.first() else { return Err("(C13 pkesk) no PKESK".into()) };
                if v == 6 {
                    let fp = e2s(p.fingerprint(), "C13 pkesk", "fingerprint")?;
                    if anon {
                        ensure!(fp.is_none(), "(C13 pkesk) anonymous v6 PKESK names {:?}", fp);
                    } else {
                        ensure!(fp == Some(&epub.fingerprint()), "(C13 pkesk) v6 PKESK names {:?}, recipient subkey is {:?}", fp, epub.fingerprint());
                    }
                } else {
                    let kid = e2s(p.id(), "C13 pkesk", "id")?;
                    if anon {
                        ensure!(kid.as_ref() == [0u8; 8], "(C13 pkesk) anonymous v3 PKESK names {:?}", kid);
                    } else {
                        ensure!(kid == &epub.legacy_key_id(), "(C13 pkesk) v3 PKESK names {:?}, recipient subkey is {:?}", kid, epub.legacy_key_id());
                    }
                }
            }
            Ok(true)
        });
    }
    issuer_families(t, &all);
    old_rsa_family(t);
    salt_family(t);
}

// ------------------------------------------------------------ 61/62: issuer subpackets of every library-made signature
/// identity of a key computed by the oracle from the key packet body: (version, fingerprint, key id)
type Ident = (u8, Vec<u8>, Vec<u8>);

fn ident(version: u8, k: &(impl Serialize + ?Sized)) -> Result<Ident, String> {
    let fp = indep_fingerprint(version, &key_body(k)?);
    let id = if version == 6 { fp[..8].to_vec() } else { fp[fp.len() - 8..].to_vec() };
    Ok((version, fp, id))
}

/// EVERY issuer subpacket (hashed or unhashed) of `sig` names `signer`; v6 signatures carry no issuer key id;
/// at least one issuer fingerprint is present; nothing names `signee` when it is another key.
fn check_issuers(what: &str, sig: &Signature, signer: &Ident, signee: Option<&Ident>) -> Result<(), String> {
    let cfg = sig.config().ok_or("unknown signature")?;
    let sv: u8 = cfg.version().into();
    ensure!(sv == signer.0, "(C15 issuer) {what}: v{} key made a v{sv} signature", signer.0);
    let mut fps = 0;
    for (area, sp) in cfg.hashed_subpackets().map(|s| ("hashed", s)).chain(cfg.unhashed_subpackets().map(|s| ("unhashed", s))) {
        match &sp.data {
            SubpacketData::IssuerKeyId(id) => {
                ensure!(sv != 6, "(C13 issuer key id) {what}: v6 signature carries an {area} Issuer Key ID subpacket {}", hx(id.as_ref()));
                let names_signee = signee.map(|e| e.2 == id.as_ref() && e.2 != signer.2).unwrap_or(false);
                ensure!(id.as_ref() == &signer.2[..], "(C13 issuer key id) {what}: {area} Issuer Key ID {} is not the RFC key id {} of the key that made the signature{}", hx(id.as_ref()), hx(&signer.2), if names_signee { " (it is the key id of the SIGNEE)" } else { "" });
            }
            SubpacketData::IssuerFingerprint(fp) => {
                fps += 1;
                let v = match fp.version() {
                    Some(KeyVersion::V4) => 4,
                    Some(KeyVersion::V6) => 6,
                    _ => 0,
                };
                let names_signee = signee.map(|e| e.1 == fp.as_bytes() && e.1 != signer.1).unwrap_or(false);
                ensure!(fp.as_bytes() == &signer.1[..] && v == signer.0, "(C13 issuer fingerprint) {what}: {area} Issuer Fingerprint v{v} {} is not the RFC fingerprint v{} {} of the key that made the signature{}", hx(fp.as_bytes()), signer.0, hx(&signer.1), if names_signee { " (it is the fingerprint of the SIGNEE)" } else { "" });
            }
            _ => {}
        }
    }
    ensure!(fps >= 1, "(C13 issuer fingerprint) {what}: library-made signature carries no Issuer Fingerprint subpacket");
    Ok(())
}

fn issuer_families(t: &mut Tally, all: &[(u8, &SignedSecretKey); 4]) {
    // 61: signer x signee
    for &(si, signer) in all {
        for &(ei, signee) in all {
            let id = format!("61{si:02x}{ei:02x}");
            t.case(&id, &|| format!("issuer subpackets of every signature key {si:02x} makes over key {ei:02x} / its components (user id, user attribute, subkey binding, back signature)"), || {
                let same_version = si >> 4 == ei >> 4;
                let spk = signer.primary_key.public_key();
                let epk = signee.primary_key.public_key();
                let s_id = ident(si >> 4, spk)?;
                let e_id = ident(ei >> 4, epk)?;
                let ssub = &signer.secret_subkeys[0].key;
                let ssub_id = ident(si >> 4, ssub.public_key())?;
                let esub = signee.secret_subkeys[0].key.public_key();
                let esub_id = ident(ei >> 4, esub)?;
                let pw = Password::empty();
                let mut sigs: Vec<(String, Signature, &Ident, &Ident)> = vec![];
                let uid = e2s(UserId::from_str(PacketHeaderVersion::New, "dave <dave@example.org>"), "C06", "uid")?;
                let ua = e2s(pgp::packet::UserAttribute::new_image(vec![0xffu8, 0xd8, 0xff, 0xe0, 1, 2, 3].into()), "C06", "user attribute")?;
                if si == ei {
                    let s = e2s(uid.sign(ChaCha20Rng::seed_from_u64(61), &signer.primary_key, spk, &pw), "C06 issuer", "UserId::sign")?;
                    sigs.extend(s.signatures.into_iter().map(|x| ("UserId::sign".to_string(), x, &s_id, &e_id)));
                    let s = e2s(ua.sign(ChaCha20Rng::seed_from_u64(62), &signer.primary_key, spk, &pw), "C06 issuer", "UserAttribute::sign")?;
                    sigs.extend(s.signatures.into_iter().map(|x| ("UserAttribute::sign".to_string(), x, &s_id, &e_id)));
                }
                for typ in [SignatureType::CertGeneric, SignatureType::CertPositive] {
                    let s = e2s(uid.sign_third_party(ChaCha20Rng::seed_from_u64(63), &signer.primary_key, &pw, epk, typ), "C06 issuer", "UserId::sign_third_party")?;
                    sigs.extend(s.signatures.into_iter().map(|x| (format!("UserId::sign_third_party {typ:?}"), x, &s_id, &e_id)));
                    let s = e2s(ua.sign_third_party(ChaCha20Rng::seed_from_u64(64), &signer.primary_key, &pw, epk, typ), "C06 issuer", "UserAttribute::sign_third_party")?;
                    sigs.extend(s.signatures.into_iter().map(|x| (format!("UserAttribute::sign_third_party {typ:?}"), x, &s_id, &e_id)));
                }
                // subkey bindings: the signer's primary binds the signee's subkey (public and secret form of `sign`)
                let mut flags = KeyFlags::default();
                flags.set_sign(true);
                for secret in [false, true] {
                    let r = if secret {
                        signee.secret_subkeys[0].key.sign(ChaCha20Rng::seed_from_u64(65), &signer.primary_key, spk, &pw, flags.clone(), None)
                    } else {
                        esub.sign(ChaCha20Rng::seed_from_u64(65), &signer.primary_key, spk, &pw, flags.clone(), None)
                    };
                    match r {
                        Ok(x) => sigs.push((format!("{}::sign (subkey binding)", if secret { "SecretSubkey" } else { "PublicSubkey" }), x, &s_id, &esub_id)),
                        Err(e) if same_version => return Err(format!("(C06 issuer) subkey binding: {}", short(&e.to_string()))),
                        Err(_) => {}
                    }
                }
                // back signature: the signer's signing SUBKEY signs over the signee's primary key
                match ssub.sign_primary_key_binding(ChaCha20Rng::seed_from_u64(66), epk, &pw) {
                    Ok(x) => sigs.push(("SecretSubkey::sign_primary_key_binding".into(), x, &ssub_id, &e_id)),
                    Err(e) if same_version => return Err(format!("(C06 issuer) primary key binding: {}", short(&e.to_string()))),
                    Err(_) => {}
                }
                ensure!(sigs.len() >= 4, "too few signatures produced");
                for (what, sig, who, over) in &sigs {
                    check_issuers(what, sig, who, Some(over))?;
                }
                Ok(true)
            });
        }
    }
    // 62: per key: everything key generation made, detached and message signatures by primary and signing subkey
    for &(ki, k) in all {
        let id = format!("62{ki:02x}");
        t.case(&id, &|| format!("issuer subpackets of the signatures made by key generation, DetachedSignature::sign_* and the message builder for key {ki:02x}"), || {
            let v = ki >> 4;
            let pk = k.primary_key.public_key();
            let p_id = ident(v, pk)?;
            let pw = Password::empty();
            let mut n = 0;
            for sig in k.details.direct_signatures.iter().chain(k.details.revocation_signatures.iter()) {
                check_issuers("direct key signature of the generated key", sig, &p_id, None)?;
                n += 1;
            }
            for u in &k.details.users {
                for sig in &u.signatures {
                    check_issuers("user id self-certification of the generated key", sig, &p_id, None)?;
                    n += 1;
                }
            }
            for u in &k.details.user_attributes {
                for sig in &u.signatures {
                    check_issuers("user attribute self-certification of the generated key", sig, &p_id, None)?;
                    n += 1;
                }
            }
            for sub in &k.secret_subkeys {
                let sub_id = ident(v, sub.key.public_key())?;
                for sig in &sub.signatures {
                    check_issuers("subkey binding of the generated key", sig, &p_id, Some(&sub_id))?;
                    n += 1;
                    if let Some(emb) = sig.embedded_signature() {
                        check_issuers("embedded back signature of the generated key", emb, &sub_id, Some(&p_id))?;
                        n += 1;
                    }
                }
            }
            ensure!(n >= 4, "(C06 issuer) generated key carries only {n} signatures");
            let ssub = &k.secret_subkeys[0].key;
            let sub_id = ident(v, ssub.public_key())?;
            let h = hash_of(pk);
            let d = e2s(DetachedSignature::sign_binary_data(ChaCha20Rng::seed_from_u64(67), &k.primary_key, &pw, h, DOC), "C06", "sign")?;
            check_issuers("DetachedSignature::sign_binary_data (primary)", &d.signature, &p_id, None)?;
            let d = e2s(DetachedSignature::sign_text_data(ChaCha20Rng::seed_from_u64(67), &k.primary_key, &pw, h, DOC), "C06", "sign")?;
            check_issuers("DetachedSignature::sign_text_data (primary)", &d.signature, &p_id, None)?;
            let d = e2s(DetachedSignature::sign_binary_data(ChaCha20Rng::seed_from_u64(67), ssub, &pw, h, DOC), "C06", "sign")?;
            check_issuers("DetachedSignature::sign_binary_data (signing subkey)", &d.signature, &sub_id, Some(&p_id))?;
            let d = e2s(DetachedSignature::sign_text_data(ChaCha20Rng::seed_from_u64(67), ssub, &pw, h, DOC), "C06", "sign")?;
            check_issuers("DetachedSignature::sign_text_data (signing subkey)", &d.signature, &sub_id, Some(&p_id))?;
            // message builder: primary and subkey sign the same message
            let mut b = MessageBuilder::from_bytes("", DOC.to_vec());
            b.sign(&k.primary_key, Password::empty(), h);
            b.sign(ssub, Password::empty(), h);
            let bytes = e2s(b.to_vec(ChaCha20Rng::seed_from_u64(68)), "C06", "message")?;
            let mut found = 0;
            for p in PacketParser::new(&bytes[..]) {
                if let Packet::Signature(s) = e2s(p, "C06", "packet")? {
                    // the trailing signatures come in reverse order of signing
                    let who = if found == 0 { &sub_id } else { &p_id };
                    check_issuers("message builder signature", &s, who, None)?;
                    found += 1;
                }
            }
            ensure!(found == 2, "(C06 issuer) message carries {found} signatures instead of 2");
            Ok(true)
        });
    }
}

// ------------------------------------------------------------ 63: v2 / v3 RSA keys built by hand
fn md5(input: &[u8]) -> [u8; 16] {
    const S: [u32; 64] = [7, 12, 17, 22, 7, 12, 17, 22, 7, 12, 17, 22, 7, 12, 17, 22, 5, 9, 14, 20, 5, 9, 14, 20, 5, 9, 14, 20, 5, 9, 14, 20, 4, 11, 16, 23, 4, 11, 16, 23, 4, 11, 16, 23, 4, 11, 16, 23, 6, 10, 15, 21, 6, 10, 15, 21, 6, 10, 15, 21, 6, 10, 15, 21];
    let k: Vec<u32> = (0..64).map(|i| ((i as f64 + 1.0).sin().abs() * 4294967296.0) as u32).collect();
    let mut msg = input.to_vec();
    msg.push(0x80);
    while msg.len() % 64 != 56 {
        msg.push(0);
    }
    msg.extend(((input.len() as u64) * 8).to_le_bytes());
    let (mut a0, mut b0, mut c0, mut d0) = (0x67452301u32, 0xefcdab89u32, 0x98badcfeu32, 0x10325476u32);
    for chunk in msg.chunks(64) {
        let m: Vec<u32> = chunk.chunks(4).map(|w| u32::from_le_bytes([w[0], w[1], w[2], w[3]])).collect();
        let (mut a, mut b, mut c, mut d) = (a0, b0, c0, d0);
        for i in 0..64 {
            let (f, g) = match i / 16 {
                0 => ((b & c) | (!b & d), i),
                1 => ((d & b) | (!d & c), (5 * i + 1) % 16),
                2 => (b ^ c ^ d, (3 * i + 5) % 16),
                _ => (c ^ (b | !d), (7 * i) % 16),
            };
            let f2 = f.wrapping_add(a).wrapping_add(k[i]).wrapping_add(m[g]);
            a = d;
            d = c;
            c = b;
            b = b.wrapping_add(f2.rotate_left(S[i]));
        }
        a0 = a0.wrapping_add(a);
        b0 = b0.wrapping_add(b);
        c0 = c0.wrapping_add(c);
        d0 = d0.wrapping_add(d);
    }
    let mut out = [0u8; 16];
    for (i, w) in [a0, b0, c0, d0].iter().enumerate() {
        out[4 * i..4 * i + 4].copy_from_slice(&w.to_le_bytes());
    }
    out
}

fn old_rsa_family(t: &mut Tally) {
    fn mpi(out: &mut Vec<u8>, v: &[u8]) {
        let bits = v.len() * 8 - v[0].leading_zeros() as usize;
        out.extend((bits as u16).to_be_bytes());
        out.extend_from_slice(v);
    }
    fn parse_key(bytes: &[u8]) -> Option<PublicKey> {
        match PacketParser::new(bytes).next() {
            Some(Ok(Packet::PublicKey(k))) => Some(k),
            _ => None,
        }
    }
    let e = [0x01u8, 0x00, 0x01];
    for version in [3u8, 2u8] {
        for len in [5usize, 6, 7, 8, 9, 16, 128] {
            let id = format!("63{version:02x}{len:02x}");
            let n: Vec<u8> = (0..len).map(|i| if i == 0 { 0xc1 } else if i == len - 1 { 0x57 } else { (i as u8).wrapping_mul(0x3b).wrapping_add(0x23) }).collect();
            t.case(&id, &|| format!("hand-built v{version} RSA public key with a {len} octet modulus {}.. (e = 65537)", hx(&n[..5])), || {
                let mut body = vec![version];
                body.extend(0x3b9a_ca00u32.to_be_bytes());
                body.extend(0u16.to_be_bytes());
                body.push(1);
                mpi(&mut body, &n);
                mpi(&mut body, &e);
                let mut packet = vec![0x99];
                packet.extend((body.len() as u16).to_be_bytes());
                packet.extend_from_slice(&body);
                let Some(key) = parse_key(&packet) else {
                    ensure!(version == 2, "(C06 import) a v3 RSA public key with a {len} octet modulus does not parse");
                    return Ok(false);
                };
                let mut wide = vec![0u8; 8];
                wide.extend_from_slice(&n);
                let want_id = wide[wide.len() - 8..].to_vec();
                let kid = key.legacy_key_id();
                ensure!(kid.as_ref() == &want_id[..], "(C13 v3 key id) legacy_key_id() {} is not the low 64 bits of the modulus, left-padded with zeros: {}", hx(kid.as_ref()), hx(&want_id));
                let mut ne = n.clone();
                ne.extend_from_slice(&e);
                let want_fp = md5(&ne);
                let fp = key.fingerprint();
                ensure!(fp.as_bytes() == &want_fp[..], "(C13 v3 fingerprint) fingerprint {} is not MD5(modulus ++ exponent) = {}", hx(fp.as_bytes()), hx(&want_fp));
                // stable across write + read
                let mut again = vec![];
                key.to_writer_with_header(&mut again).map_err(|e| e.to_string())?;
                let back = parse_key(&again).ok_or("(C06 import) own v3 key does not re-parse")?;
                ensure!(back.legacy_key_id() == kid && back.fingerprint() == fp, "(C13 v3 key id) identity changes across write + read");
                // a v3 PKESK addressed to the RFC key id is for this key, one addressed to another id is not
                for (own, idb) in [(true, want_id.clone()), (false, { let mut o = want_id.clone(); o[0] ^= 0x80; o })] {
                    let mut pb = vec![3u8];
                    pb.extend_from_slice(&idb);
                    pb.push(1);
                    pb.extend_from_slice(&[0x00, 0x08, 0xab]);
                    let pkt = packet_bytes(1, &pb);
                    let Some(Ok(Packet::PublicKeyEncryptedSessionKey(p))) = PacketParser::new(&pkt[..]).next() else { return Err("(C06) hand-built v3 PKESK does not parse".into()) };
                    ensure!(p.match_identity(&key) == own, "(C13 pkesk) v3 PKESK addressed to key id {} : match_identity = {} (the key's RFC key id is {})", hx(&idb), p.match_identity(&key), hx(&want_id));
                }
                Ok(true)
            });
        }
    }
}

fn key_body_full(k: &impl Serialize) -> Result<Vec<u8>, String> {
    k.to_bytes().map_err(|e| e.to_string())
}

// ------------------------------------------------------------ 40: salt sizes
fn salt_family(t: &mut Tally) {
    let table: [(HashAlgorithm, usize); 6] = [
        (HashAlgorithm::Sha224, 16),
        (HashAlgorithm::Sha256, 16),
        (HashAlgorithm::Sha384, 24),
        (HashAlgorithm::Sha512, 32),
        (HashAlgorithm::Sha3_256, 16),
        (HashAlgorithm::Sha3_512, 32),
    ];
    if let Some(r) = &t.replay {
        if !r.starts_with("40") {
            return;
        }
    }
    let rsa = std::panic::catch_unwind(|| gen_rsa_v6(40));
    for (hash, want_len) in table {
        let id = format!("40{:02x}", u8::from(hash));
        t.case(&id, &|| format!("v6 RSA key, signatures with {hash:?}: salt size must be {want_len}"), || {
            let Ok(rsa) = &rsa else { return Err("(panic) RSA key generation panicked".into()) };
            let pk = rsa.primary_key.public_key();
            let rng = ChaCha20Rng::seed_from_u64(41);
            let cfg = e2s(SignatureConfig::v6(rng, SignatureType::Binary, PublicKeyAlgorithm::RSA, hash), "C11 salt", "SignatureConfig::v6")?;
            let SignatureVersionSpecific::V6 { salt } = &cfg.version_specific else { return Err("(C15) not a v6 config".into()) };
            ensure!(salt.len() == want_len, "(C11 salt size) SignatureConfig::v6 makes a {} octet salt for {hash:?}, RFC 9580 table 23 says {want_len}", salt.len());
            let rng = ChaCha20Rng::seed_from_u64(42);
            let sig = e2s(DetachedSignature::sign_binary_data(rng, &rsa.primary_key, &Password::empty(), hash, DOC), "C06 salt", "sign")?.signature;
            let w = sig_wire(&sig)?;
            ensure!(w.version == 6, "(C15) v6 key made a v{} signature", w.version);
            ensure!(w.salt.len() == want_len, "(C11 salt size) signature carries a {} octet salt for {hash:?}, RFC 9580 table 23 says {want_len}", w.salt.len());
            e2s(sig.verify(pk, DOC), "C06 salt", "own signature does not verify")?;
            if let Some(want) = indep_digest(&w, DOC) {
                ensure!(w.hash16 == [want[0], want[1]], "(C11 hash16) left 16 bits differ from the RFC digest");
            }
            let back = parse_sig(&sig.to_bytes().map_err(|e| e.to_string())?).ok_or("(C06 salt) own signature does not parse")?;
            e2s(back.verify(pk, DOC), "C06 salt", "re-parsed signature")?;
            // a conforming hand-made signature with an RFC-size salt is accepted, other sizes are not
            for len in [want_len, want_len - 2, want_len + 8] {
                let mut cfg = SignatureConfig::v6_with_salt(SignatureType::Binary, PublicKeyAlgorithm::RSA, hash, vec![0x5a; len]);
                cfg.hashed_subpackets = vec![ctime(), issuer_fp(pk)];
                let s = match sha(hash.into(), b"") {
                    Some(_) => craft(&rsa.primary_key, cfg, None, DOC)?,
                    None => match cfg.sign(&rsa.primary_key, &Password::empty(), DOC) {
                        Ok(s) => s,
                        Err(_) if len != want_len => continue,
                        Err(e) => return Err(format!("(C06 salt) sign with RFC-size salt: {e}")),
                    },
                };
                let ok = parse_sig(&s.to_bytes().map_err(|e| e.to_string())?).map(|p| p.verify(pk, DOC).is_ok()).unwrap_or(false);
                ensure!(ok == (len == want_len), "(C11 salt size) {hash:?} signature with a {len} octet salt: accepted = {ok} (RFC size is {want_len})");
            }
            Ok(true)
        });
    }
}

fn main() {
    let args: Vec<String> = std::env::args().collect();
    let n: usize = args.get(1).and_then(|s| s.parse().ok()).unwrap_or(4);
    let replay = args.get(2).cloned();
    std::panic::set_hook(Box::new(|_| {}));
    let mut t = Tally { total: 0, nontrivial: 0, failures: 0, samples: 0, replay };
    let setup = std::panic::catch_unwind(std::panic::AssertUnwindSafe(|| {
        let k4 = gen_key(1, KeyVersion::V4, "a4 <a4@example.org>");
        let k4b = gen_key(2, KeyVersion::V4, "b4 <b4@example.org>");
        let k6 = gen_key(3, KeyVersion::V6, "a6 <a6@example.org>");
        let k6b = gen_key(4, KeyVersion::V6, "b6 <b6@example.org>");
        (k4, k4b, k6, k6b)
    }));
    match setup {
        Err(_) => {
            println!("FAIL hex=00 text=\"key generation\" (panic) key generation panicked");
            t.total += 1;
            t.failures += 1;
        }
        Ok((k4, k4b, k6, k6b)) => {
            text_families(&mut t, n, &k4, &k6);
            sig_families(&mut t, &k4, &k4b, &k6, &k6b);
        }
    }
    println!("RESULT total={} nontrivial={} failures={}", t.total, t.nontrivial, t.failures);
}
