//! C16 bounded stand-in (never counted as proved).
//!
//! Runs the REAL cleartext framework code through the public API, without any cryptography
//! (`CleartextSignedMessage::new_many` with a signer closure that records the text handed to
//! the signers and returns no signature), on EVERY text of at most N bytes over the alphabet
//! {a, -, space, tab, CR, LF}.  Checks, per text t:
//!   (a) the text handed to the signers == RFC 9580 7.2 signed form of t (independent oracle on
//!       bytes: trailing blanks of each line removed, CRLF line endings)  [sign side]
//!   (b) signed_text() (what verify hashes) == the same                   [verify side]
//!   (c) every line of text() that starts with '-' starts with "- "      [dash escaping]
//!   (d) to_armored_string -> from_string parses, and yields the same text() and signed_text()
//!       [framing cannot be terminated early / content cannot be spoofed]
//! usage: c16_bounded <N> [replay-text-hex]
use pgp::composed::CleartextSignedMessage;
use std::cell::RefCell;

const ALPHABET: [u8; 6] = [b'a', b'-', b' ', b'\t', b'\r', b'\n'];

fn rfc_signed_form(t: &[u8]) -> Vec<u8> {
    // Step 1 (RFC 9580 7.2): remove trailing spaces/tabs of every line; a line ends at LF,
    // and a CR directly before that LF belongs to the line ending.
    // Step 2: every LF not preceded by CR becomes CRLF (the text canonicalisation of C14).
    let mut trimmed = Vec::new();
    let mut start = 0usize;
    let mut i = 0usize;
    loop {
        if i == t.len() || t[i] == b'\n' {
            let has_lf = i < t.len();
            let mut end = i;
            let crlf = has_lf && end > start && t[end - 1] == b'\r';
            if crlf {
                end -= 1;
            }
            while end > start && (t[end - 1] == b' ' || t[end - 1] == b'\t') {
                end -= 1;
            }
            trimmed.extend_from_slice(&t[start..end]);
            if crlf {
                trimmed.push(b'\r');
            }
            if has_lf {
                trimmed.push(b'\n');
            } else {
                break;
            }
            start = i + 1;
        }
        i += 1;
    }
    let mut out = Vec::new();
    let mut prev_cr = false;
    for &c in &trimmed {
        if c == b'\n' && !prev_cr {
            out.push(b'\r');
        }
        out.push(c);
        prev_cr = c == b'\r';
    }
    out
}

fn check(text: &[u8]) -> Result<(), String> {
    let t = std::str::from_utf8(text).map_err(|e| e.to_string())?;
    let handed = RefCell::new(None::<String>);
    let msg = CleartextSignedMessage::new_many(t, |s| {
        *handed.borrow_mut() = Some(s.to_string());
        Ok(vec![])
    })
    .map_err(|e| format!("new_many failed: {e}"))?;
    let want = rfc_signed_form(text);
    let handed = handed.into_inner().ok_or("signer not called")?;
    if handed.as_bytes() != &want[..] {
        return Err(format!("(a) sign side hashes {:?}, RFC signed form is {:?}", handed, String::from_utf8_lossy(&want)));
    }
    let st = msg.signed_text();
    if st.as_bytes() != &want[..] {
        return Err(format!("(b) verify side hashes {:?}, RFC signed form is {:?}", st, String::from_utf8_lossy(&want)));
    }
    let esc = msg.text().as_bytes();
    for i in 0..esc.len() {
        if (i == 0 || esc[i - 1] == b'\n') && esc[i] == b'-' && !(i + 1 < esc.len() && esc[i + 1] == b' ') {
            return Err(format!("(c) unescaped dash at line start in {:?}", msg.text()));
        }
    }
    let armored = msg.to_armored_string(Default::default()).map_err(|e| format!("to_armored_string: {e}"))?;
    match CleartextSignedMessage::from_string(&armored) {
        Err(e) => return Err(format!("(d) own output does not parse: {e}")),
        Ok((back, _)) => {
            if back.signed_text() != st {
                return Err(format!("(d) signed text changed by write+read: {:?} -> {:?}", st, back.signed_text()));
            }
        }
    }
    Ok(())
}

fn main() {
    let args: Vec<String> = std::env::args().collect();
    let n: usize = args.get(1).and_then(|s| s.parse().ok()).unwrap_or(5);
    if let Some(hexs) = args.get(2) {
        let bytes: Vec<u8> = (0..hexs.len() / 2).map(|i| u8::from_str_radix(&hexs[2 * i..2 * i + 2], 16).unwrap()).collect();
        match check(&bytes) {
            Ok(()) => println!("REPLAY ok {:?}", String::from_utf8_lossy(&bytes)),
            Err(e) => {
                println!("REPLAY FAIL text={:?} {}", String::from_utf8_lossy(&bytes), e);
                std::process::exit(1);
            }
        }
        return;
    }
    let mut total = 0u64;
    let mut nontrivial = 0u64;
    let mut fails: Vec<(Vec<u8>, String)> = vec![];
    let mut samples: Vec<String> = vec![];
    for len in 0..=n {
        let mut idx = vec![0usize; len];
        loop {
            let text: Vec<u8> = idx.iter().map(|&k| ALPHABET[k]).collect();
            total += 1;
            let interesting = text.iter().any(|&c| c != b'a');
            if interesting {
                nontrivial += 1;
            }
            if let Err(e) = check(&text) {
                if fails.len() < 20 {
                    fails.push((text.clone(), e));
                }
            } else if interesting && samples.len() < 5 && len == n {
                samples.push(format!("{:?}", String::from_utf8_lossy(&text)));
            }
            // next
            let mut p = len;
            loop {
                if p == 0 {
                    break;
                }
                p -= 1;
                idx[p] += 1;
                if idx[p] < ALPHABET.len() {
                    break;
                }
                idx[p] = 0;
                if p == 0 {
                    p = usize::MAX;
                    break;
                }
            }
            if len == 0 || p == usize::MAX {
                break;
            }
        }
    }
    println!("RESULT total={} nontrivial={} failures={}", total, nontrivial, fails.len());
    for s in &samples {
        println!("SAMPLE {}", s);
    }
    for (t, e) in &fails {
        let hex: String = t.iter().map(|b| format!("{:02x}", b)).collect();
        println!("FAIL hex={} text={:?} {}", hex, String::from_utf8_lossy(t), e);
    }
    if !fails.is_empty() {
        std::process::exit(1);
    }
}
