//! C09 / C10 / C01 / C03 bounded stand-in (never counted as proved).
//!
//! Runs the REAL armor writer / dearmorer, message builder and message reader through the public API on a finite,
//! exhaustively enumerated family and checks what the properties state with oracles that do not look at the
//! implementation (the payload that went in, byte equality of outputs, "the injected fault was hit => Err").
//!
//! Harness devices: `ChunkedReader` (Read + BufRead; hands the data out following a schedule of piece sizes, can
//! return ONE io::Error of a chosen kind at a chosen call), `FaultySink` (Write; one fault at a chosen write/flush
//! call, optional short writes, optional "refuse once with WouldBlock").
//!
//! Families (N scales payload lengths / positions):
//!  F1 armor (C10, C09): payload lengths 0..=16N and 47,48,49,95,96,97,191,192,193 x checksum {no,yes} x header set
//!     {none, Comment x2 + Version} x line ending {LF as written, CRLF converted} x source schedule
//!     {1,2,3,5,63,64,65, cut between every CR and LF, whole} x consumer {read_to_end, read 1, read 3, read 4096}:
//!       (a1) dearmor output == payload, block type, headers, checksum presence as written
//!       (a2) every single sink fault (write call k / flush call k, ErrorKind::Other) of armor::write => Err
//!       (a3) short-writing sinks (1 / 7 octets per write) => byte-identical armor
//!       (a4) every single source fault (ErrorKind::Other at fill_buf call k) of Dearmor => Err; a later read does not panic
//!       (a5) missing / mismatching / cut footer => Err
//!       (a6) a Serialize source writing in pieces that retries a write refused ONCE with WouldBlock: if armor::write
//!            returns Ok, the armor de-armors to exactly the content
//!       (a7) the public base64 layer used directly (Base64Decoder over a raw short-reading Read; Base64Decoder over
//!            Base64Reader over a chunked BufRead; no / LF / CRLF line breaks; independent encoder): decoded == payload
//!       (a2b)/(a3b) MessageBuilder::to_armored_writer (payloads 1,40,48,100,1000; checksum yes/no; from_bytes and from_reader):
//!            reads back through Message::from_armor; every single sink fault (write call k / flush call k, once) => Err;
//!            short-writing sinks => byte-identical armor
//!       (a8) reader tolerance does not depend on the payload length: lengths 0,1,47..49,95..97,191..193,760..=770,1528..=1536,
//!            armor with checksum, as written / 1 or 2 blank lines (LF, CRLF) between checksum line and END line / extra
//!            newline after the END line; source whole and pieces 1, 64, 1024: Dearmor returns the payload at EVERY length
//!  F2 message builder / reader (C01, C09): payload lengths x shapes {binary, utf8 text with CRLF content, zlib, SEIPDv1,
//!     SEIPDv2 chunk 64 and 4096 (AES128/OCB), signed (v4 / v6 / v4+v6+v6 seeded Ed25519 keys) and combinations}
//!     x source {from_bytes, from_reader over ChunkedReader 1 / 7 / 512 / whole, partial chunk size 512 and default}:
//!       (b1) build -> Message::from_bytes -> decrypt -> decompress -> read == payload; literal header == the header of
//!            the requested mode; every signature verifies with its key and not with another key; identical for message
//!            source schedules {slice, 1, 7, 512} and consumer patterns {read 1, read 3, read 4096, read_to_end, fill_buf/consume}
//!       (b2) builder output bytes for the same rng seed are identical for every read schedule of the source
//!       (b3) a single source fault (ErrorKind::Other at call k in 1..=8 and at the end-of-data call) => builder Err
//!       (b4) a single ErrorKind::Interrupted at the source => Err or byte-identical output
//!       (b5) a single sink fault => builder Err; short-writing sink => identical bytes
//!       (b6) a single fault of the source under the message READER => Err at some stage, never a clean result
//!  F3 ciphertext integrity (C03): the from_bytes encrypted messages of F2 with payload <= 600 octets: one bit flipped at up
//!     to 40 evenly spread positions of the SEIPD packet, truncation by one octet (raw, and with the length fixed up),
//!     SEIPDv2: 1/7/16 octets or a copy of the final tag spliced in front of the final tag; consumer patterns
//!     {read 1, read 97, read_to_end, fill_buf/consume}.  Oracle (c1): the pipeline never ends cleanly. (c2) SEIPDv1 in
//!     check-first mode (default limit, the exact smallest admitted limit found by bisection, and limit+1): 0 plaintext
//!     octets released before the error.  (c3) SEIPDv2: what was released is a prefix of the true payload and no longer
//!     than chunk_size * (number of chunks that lie completely in front of the modified octet), i.e. only whole
//!     authenticated chunks are released.  SEIPDv1 in Streaming mode: only (c1).
//!     (c4) prefix {none, Marker, Padding(4), Marker+Padding} (packets the message parser skips) x appended behind the
//!     container {00, 00 00 00 00, 16 x 7F, a complete second literal packet} x consumer {read_to_end, read 7,
//!     fill_buf/consume}: never a clean end; control: the prefix with nothing appended decrypts to the payload.
//!     (c5) SEIPDv2 messages of EVERY chunk size 64 B .. 4 MiB (payloads 0, 1, 100): every value 0..=255 of the version,
//!     cipher, AEAD and chunk size octet of the SEIPDv2 header other than the original => never a clean end, 0 octets released.
//!  Consumer kind `Blocks(n)` (n = 16, 64, 4096; in every consumer sweep): fills fixed blocks with read(&mut block[pos..]) and
//!     issues read(&mut []) at the very start and whenever a block is full: the result must be the read_to_end result.
//!     Used for Dearmor (a1), Base64Decoder (a7) and the stream decryptors (F6); NOT for `Message` (Message::read(&mut [])
//!     fails on the reference tree: suspected defect, reported separately).
//!  F6 stream decryptors used directly (d1): SymmetricKeyAlgorithm::stream_decryptor_protected (check-first / streaming) over
//!     encrypt_protected output and aead::StreamDecryptor::new_rfc9580 (chunk 64 / 4096) over the data of a built message,
//!     source whole / pieces 7, consumers {read_to_end, read 1, read 97, fill_buf/consume, Blocks 16/64/4096}: same result.
//!  F4 SEIPDv1 length sweep (C01): from_bytes payload lengths around the 8 KiB / 16 KiB decryptor refill boundaries, both
//!     read modes; F5 SEIPDv2 with every chunk size 64 B .. 4 MiB.
//! usage: c09_bounded <N> [replay-case-hex]
use pgp::armor::{self, BlockType, Dearmor, Headers};
use pgp::composed::{
    ArmorOptions, DecryptionOptions, KeyType, Message, MessageBuilder, SecretKeyParamsBuilder, SignedSecretKey, SubpacketConfig, TheRing,
};
use pgp::crypto::aead::{AeadAlgorithm, ChunkSize};
use pgp::crypto::hash::HashAlgorithm;
use pgp::crypto::sym::SymmetricKeyAlgorithm;
use pgp::packet::{DataMode, LiteralDataHeader, Subpacket, SubpacketData};
use pgp::ser::Serialize;
use pgp::types::{CompressionAlgorithm, KeyDetails, KeyVersion, Password, Seipdv1ReadMode, StringToKey, Timestamp};
use rand::SeedableRng;
use rand_chacha::ChaCha20Rng;
use std::io::{self, BufRead, Read, Write};
use std::panic::{catch_unwind, AssertUnwindSafe};

// ------------------------------------------------------------------------------------------------------------
// harness devices
// ------------------------------------------------------------------------------------------------------------

#[derive(Clone, Debug)]
enum Sched {
    Fixed(usize),
    /// explicit piece sizes, then everything that is left
    List(Vec<usize>),
    Whole,
}

impl Sched {
    fn name(&self) -> String {
        match self {
            Sched::Fixed(n) => format!("{n}"),
            Sched::List(l) => format!("list[{} pieces, first {}, then {}]", l.len(), l.first().copied().unwrap_or(0), l.get(1).copied().unwrap_or(0)),
            Sched::Whole => "whole".into(),
        }
    }
    /// first piece: the armor header block up to and including the blank line, then pieces of `c` octets.
    /// (Used when the armor carries header lines: a piece boundary INSIDE the key-value header lines makes the
    /// library's header parser fail - reported separately as a suspected defect, kept out of this enumeration.)
    fn header_then(data: &[u8], c: usize) -> Sched {
        let hdr = data.windows(2).position(|w| w == b"\n\n").map(|p| p + 2).or_else(|| data.windows(4).position(|w| w == b"\r\n\r\n").map(|p| p + 4)).unwrap_or(0);
        let mut l = vec![];
        if hdr > 0 {
            l.push(hdr);
        }
        let mut left = data.len() - hdr;
        while left > 0 {
            l.push(c.min(left));
            left -= c.min(left);
        }
        Sched::List(l)
    }
    /// pieces end exactly behind every CR that is followed by LF
    fn cut_cr_lf(data: &[u8]) -> Sched {
        let mut l = vec![];
        let mut last = 0usize;
        for i in 0..data.len().saturating_sub(1) {
            if data[i] == b'\r' && data[i + 1] == b'\n' {
                l.push(i + 1 - last);
                last = i + 1;
            }
        }
        Sched::List(l)
    }
}

#[derive(Debug)]
struct ChunkedReader {
    data: Vec<u8>,
    pos: usize,
    end: usize,
    sched: Sched,
    piece_no: usize,
    /// number of times the "device" was asked for a new piece (including the end-of-data answer)
    calls: usize,
    fail_at: usize,
    fail_kind: io::ErrorKind,
    fired: bool,
}

impl ChunkedReader {
    fn new(data: &[u8], sched: Sched) -> Self {
        ChunkedReader { data: data.to_vec(), pos: 0, end: 0, sched, piece_no: 0, calls: 0, fail_at: 0, fail_kind: io::ErrorKind::Other, fired: false }
    }
    fn failing(data: &[u8], sched: Sched, fail_at: usize, kind: io::ErrorKind) -> Self {
        let mut r = Self::new(data, sched);
        r.fail_at = fail_at;
        r.fail_kind = kind;
        r
    }
    fn next_piece(&mut self) -> io::Result<()> {
        self.calls += 1;
        if self.calls == self.fail_at && !self.fired {
            self.fired = true;
            return Err(io::Error::new(self.fail_kind, "injected source fault"));
        }
        let left = self.data.len() - self.pos;
        let want = match &self.sched {
            Sched::Fixed(n) => *n,
            Sched::List(l) => l.get(self.piece_no).copied().unwrap_or(usize::MAX),
            Sched::Whole => usize::MAX,
        };
        self.piece_no += 1;
        self.end = self.pos + left.min(want.max(1));
        Ok(())
    }
}

impl Read for ChunkedReader {
    fn read(&mut self, buf: &mut [u8]) -> io::Result<usize> {
        if buf.is_empty() {
            return Ok(0);
        }
        if self.pos == self.end {
            self.next_piece()?;
        }
        let n = (self.end - self.pos).min(buf.len());
        buf[..n].copy_from_slice(&self.data[self.pos..self.pos + n]);
        self.pos += n;
        Ok(n)
    }
}

impl BufRead for ChunkedReader {
    fn fill_buf(&mut self) -> io::Result<&[u8]> {
        if self.pos == self.end {
            self.next_piece()?;
        }
        Ok(&self.data[self.pos..self.end])
    }
    fn consume(&mut self, amt: usize) {
        self.pos = (self.pos + amt).min(self.end);
    }
}

/// A `Read` that borrows a ChunkedReader, so that the counters can be inspected after the builder consumed the source
struct ByRef<'a>(&'a mut ChunkedReader);
impl Read for ByRef<'_> {
    fn read(&mut self, buf: &mut [u8]) -> io::Result<usize> {
        self.0.read(buf)
    }
}

#[derive(Default)]
struct FaultySink {
    out: Vec<u8>,
    writes: usize,
    flushes: usize,
    fail_write_at: usize,
    fail_flush_at: usize,
    /// refuse (WouldBlock, nothing taken) instead of failing hard
    refuse: bool,
    max_write: usize,
    fired: bool,
}

impl Write for FaultySink {
    fn write(&mut self, buf: &[u8]) -> io::Result<usize> {
        self.writes += 1;
        if self.writes == self.fail_write_at && !self.fired {
            self.fired = true;
            return Err(if self.refuse {
                io::Error::new(io::ErrorKind::WouldBlock, "try again")
            } else {
                io::Error::new(io::ErrorKind::Other, "injected sink fault")
            });
        }
        let n = if self.max_write > 0 { buf.len().min(self.max_write) } else { buf.len() };
        self.out.extend_from_slice(&buf[..n]);
        Ok(n)
    }
    fn flush(&mut self) -> io::Result<()> {
        self.flushes += 1;
        if self.flushes == self.fail_flush_at && !self.fired {
            self.fired = true;
            return Err(io::Error::new(io::ErrorKind::Other, "injected sink fault (flush)"));
        }
        Ok(())
    }
}

struct Raw(Vec<u8>);
impl Serialize for Raw {
    fn to_writer<W: io::Write>(&self, w: &mut W) -> pgp::errors::Result<()> {
        w.write_all(&self.0)?;
        Ok(())
    }
    fn write_len(&self) -> usize {
        self.0.len()
    }
}

/// writes its content in pieces and retries a write that was refused with WouldBlock / Interrupted (io::Write contract)
struct PiecewiseRetrying {
    content: Vec<u8>,
    piece: usize,
}
impl Serialize for PiecewiseRetrying {
    fn to_writer<W: io::Write>(&self, w: &mut W) -> pgp::errors::Result<()> {
        for piece in self.content.chunks(self.piece) {
            let mut buf = piece;
            let mut spins = 0;
            while !buf.is_empty() {
                match w.write(buf) {
                    // the base64 encoder answers Ok(0) while it flushes output it could not deliver before: go on (bounded)
                    Ok(0) if spins < 8 => spins += 1,
                    Ok(0) => return Err(io::Error::new(io::ErrorKind::WriteZero, "write zero").into()),
                    Ok(n) => buf = &buf[n..],
                    Err(ref e) if (e.kind() == io::ErrorKind::WouldBlock || e.kind() == io::ErrorKind::Interrupted) && spins < 8 => spins += 1,
                    Err(e) => return Err(e.into()),
                }
            }
        }
        Ok(())
    }
    fn write_len(&self) -> usize {
        self.content.len()
    }
}

// ------------------------------------------------------------------------------------------------------------
// bookkeeping
// ------------------------------------------------------------------------------------------------------------

struct Ctx {
    replay: Option<u64>,
    total: u64,
    nontrivial: u64,
    failures: u64,
    samples: u32,
    /// number of FAIL lines printed (all failures are counted); C09_FAIL_LIMIT overrides the protocol default 20
    fail_limit: u64,
    per_family: [u64; 16],
}

fn cid(family: u64, a: usize, b: usize, c: usize, d: usize) -> u64 {
    family << 60 | ((a as u64) & 0xfff) << 48 | ((b as u64) & 0xfff) << 36 | ((c as u64) & 0xfffff) << 16 | ((d as u64) & 0xffff)
}

impl Ctx {
    /// one case; `f` returns Ok(true) when an oracle clause applied, Ok(false) for a trivial case, Err("(clause) why")
    fn case(&mut self, id: u64, desc: &dyn Fn() -> String, f: &mut dyn FnMut() -> Result<bool, String>) {
        if let Some(r) = self.replay {
            if r != id {
                return;
            }
        }
        self.total += 1;
        self.per_family[(id >> 60) as usize & 15] += 1;
        let res = catch_unwind(AssertUnwindSafe(|| f()));
        let why = match res {
            Ok(Ok(nt)) => {
                if nt {
                    self.nontrivial += 1;
                }
                if self.samples < 3 && nt && (self.total % 997 == 1) {
                    self.samples += 1;
                    println!("SAMPLE {}", clean(&desc()));
                }
                return;
            }
            Ok(Err(why)) => why,
            Err(p) => {
                let msg = p.downcast_ref::<String>().cloned().or_else(|| p.downcast_ref::<&str>().map(|s| s.to_string())).unwrap_or_default();
                format!("(panic) the library panicked: {}", msg)
            }
        };
        self.nontrivial += 1;
        self.failures += 1;
        if self.failures <= self.fail_limit {
            println!("FAIL hex={:x} text=\"{}\" {}", id, clean(&desc()), clean(&short(&why)));
        }
    }
}

fn clean(s: &str) -> String {
    s.replace('"', "'").replace('\n', " ").replace('\r', " ")
}

fn short(s: &str) -> String {
    s.chars().take(300).collect::<String>()
}

fn hexs(b: &[u8]) -> String {
    b.iter().take(24).map(|x| format!("{x:02x}")).collect::<String>()
}

// ------------------------------------------------------------------------------------------------------------
// F1: armor
// ------------------------------------------------------------------------------------------------------------

fn bin_payload(len: usize) -> Vec<u8> {
    (0..len).map(|i| (i * 31 + 7) as u8).collect()
}

fn to_crlf(a: &[u8]) -> Vec<u8> {
    let mut o = Vec::with_capacity(a.len() + a.len() / 32);
    for &c in a {
        if c == b'\n' {
            o.push(b'\r');
        }
        o.push(c);
    }
    o
}

#[derive(Clone, Copy, Debug)]
enum Consumer {
    ReadToEnd,
    Read(usize),
    BufRead,
    /// fills fixed blocks of n octets with `read(&mut block[pos..])`; issues one `read(&mut [])` at the very start and
    /// whenever a block is exactly full (legal for std::io::Read: must answer Ok(0) and change nothing)
    Blocks(usize),
}

fn consume_blocks<R: Read>(r: &mut R, n: usize) -> (Vec<u8>, io::Result<()>) {
    let mut out = Vec::new();
    let mut empty: [u8; 0] = [];
    match r.read(&mut empty) {
        Ok(0) => {}
        Ok(k) => return (out, Err(io::Error::other(format!("harness: read into an empty buffer returned Ok({k})")))),
        Err(e) => return (out, Err(e)),
    }
    loop {
        let mut block = vec![0u8; n];
        let mut pos = 0;
        let mut eof = false;
        loop {
            // pos == n: the read into the empty rest of the block
            match r.read(&mut block[pos..]) {
                Ok(0) if pos == n => break,
                Ok(0) => {
                    eof = true;
                    break;
                }
                Ok(k) if pos + k <= n => pos += k,
                Ok(k) => return (out, Err(io::Error::other(format!("harness: read returned Ok({k}) for a buffer of {} octets", n - pos)))),
                Err(ref e) if e.kind() == io::ErrorKind::Interrupted => {}
                Err(e) => {
                    out.extend_from_slice(&block[..pos]);
                    return (out, Err(e));
                }
            }
        }
        out.extend_from_slice(&block[..pos]);
        if eof {
            return (out, Ok(()));
        }
    }
}

/// consume a reader to its end with the given pattern; returns what was handed out and the final result
fn consume<R: Read + BufRead>(r: &mut R, c: Consumer) -> (Vec<u8>, io::Result<()>) {
    let mut out = Vec::new();
    match c {
        Consumer::ReadToEnd => {
            let res = r.read_to_end(&mut out).map(|_| ());
            (out, res)
        }
        Consumer::Read(n) => {
            let mut buf = vec![0u8; n];
            loop {
                match r.read(&mut buf) {
                    Ok(0) => return (out, Ok(())),
                    Ok(k) => out.extend_from_slice(&buf[..k]),
                    Err(ref e) if e.kind() == io::ErrorKind::Interrupted => {}
                    Err(e) => return (out, Err(e)),
                }
            }
        }
        Consumer::Blocks(n) => consume_blocks(r, n),
        Consumer::BufRead => loop {
            let k = match r.fill_buf() {
                Ok([]) => return (out, Ok(())),
                Ok(b) => {
                    out.extend_from_slice(b);
                    b.len()
                }
                Err(e) => return (out, Err(e)),
            };
            r.consume(k);
        },
    }
}

fn consume_read_only<R: Read>(r: &mut R, c: Consumer) -> (Vec<u8>, io::Result<()>) {
    let mut out = Vec::new();
    match c {
        Consumer::Read(n) => {
            let mut buf = vec![0u8; n];
            loop {
                match r.read(&mut buf) {
                    Ok(0) => return (out, Ok(())),
                    Ok(k) => out.extend_from_slice(&buf[..k]),
                    Err(ref e) if e.kind() == io::ErrorKind::Interrupted => {}
                    Err(e) => return (out, Err(e)),
                }
            }
        }
        Consumer::Blocks(n) => consume_blocks(r, n),
        _ => {
            let res = r.read_to_end(&mut out).map(|_| ());
            (out, res)
        }
    }
}

fn armor_family(ctx: &mut Ctx, n: usize) {
    let mut lens: Vec<usize> = (0..=n * 16).collect();
    for l in [47usize, 48, 49, 95, 96, 97, 191, 192, 193] {
        if !lens.contains(&l) {
            lens.push(l);
        }
    }
    let mut hdrs = Headers::new();
    hdrs.insert("Comment".to_string(), vec!["first comment".to_string(), "second: comment".to_string()]);
    hdrs.insert("Version".to_string(), vec!["harness 1".to_string()]);
    // an empty value that is not the first header line (seed C10_5: `Key:` without the blank is read as part of the previous key)
    hdrs.insert("X-Empty".to_string(), vec![String::new()]);
    let empty_hdrs = Headers::new();
    let typs = [BlockType::Message, BlockType::File, BlockType::Signature];

    for (li, &len) in lens.iter().enumerate() {
        let payload = bin_payload(len);
        for checksum in [false, true] {
            for with_headers in [false, true] {
                let typ = typs[(len + with_headers as usize) % 3];
                let hopt = if with_headers { Some(&hdrs) } else { None };
                let want_hdrs = if with_headers { &hdrs } else { &empty_hdrs };
                let variant = (checksum as usize) * 2 + with_headers as usize;
                let vdesc = format!("armor payload len {len} type {typ} checksum={checksum} headers={with_headers}");

                // reference armor (fault free, Vec sink)
                let mut armored: Option<Vec<u8>> = None;
                ctx.case(cid(1, li, variant, 0, 0), &|| format!("{vdesc}: armor::write into a Vec"), &mut || {
                    let mut out = Vec::new();
                    armor::write(&Raw(payload.clone()), typ, &mut out, hopt, checksum).map_err(|e| format!("(a1) armor::write failed: {e}"))?;
                    armored = Some(out);
                    Ok(true)
                });
                let armored = match armored {
                    Some(a) => a,
                    None => {
                        if ctx.replay.is_none() {
                            continue;
                        }
                        // replay of a later case: rebuild quietly
                        let mut out = Vec::new();
                        if catch_unwind(AssertUnwindSafe(|| armor::write(&Raw(payload.clone()), typ, &mut out, hopt, checksum).is_ok())).unwrap_or(false) {
                            out
                        } else {
                            continue;
                        }
                    }
                };
                let crlf = to_crlf(&armored);

                // (a2) sink faults, (a3) short writes
                let (nw, nf) = {
                    let mut s = FaultySink::default();
                    let _ = catch_unwind(AssertUnwindSafe(|| armor::write(&Raw(payload.clone()), typ, &mut s, hopt, checksum).is_ok()));
                    (s.writes, s.flushes)
                };
                for k in 1..=nw + nf {
                    let (fw, ff) = if k <= nw { (k, 0) } else { (0, k - nw) };
                    ctx.case(cid(1, li, variant, 1, k), &|| format!("{vdesc}: sink fault (ErrorKind::Other) at write call {fw} / flush call {ff} (0 = none)"), &mut || {
                        let mut s = FaultySink { fail_write_at: fw, fail_flush_at: ff, ..Default::default() };
                        let r = armor::write(&Raw(payload.clone()), typ, &mut s, hopt, checksum);
                        if !s.fired {
                            return Ok(false);
                        }
                        match r {
                            Err(_) => Ok(true),
                            Ok(()) => Err(format!("(a2) the sink failed, but armor::write returned Ok ({} of {} octets reached the sink)", s.out.len(), armored.len())),
                        }
                    });
                }
                for mw in [1usize, 7] {
                    ctx.case(cid(1, li, variant, 2, mw), &|| format!("{vdesc}: sink that takes at most {mw} octets per write"), &mut || {
                        let mut s = FaultySink { max_write: mw, ..Default::default() };
                        armor::write(&Raw(payload.clone()), typ, &mut s, hopt, checksum).map_err(|e| format!("(a3) armor::write failed on a short-writing sink: {e}"))?;
                        if s.out != armored {
                            return Err(format!("(a3) armor differs from the armor written into a Vec ({} vs {} octets)", s.out.len(), armored.len()));
                        }
                        Ok(true)
                    });
                }

                // (a1) dearmor, all schedules and consumers
                for (ei, text) in [&armored, &crlf].into_iter().enumerate() {
                    let mk = |c: usize| if with_headers { Sched::header_then(text, c) } else { Sched::Fixed(c) };
                    let mut scheds: Vec<Sched> = [1usize, 2, 3, 5, 63, 64, 65].iter().map(|&c| mk(c)).collect();
                    scheds.push(Sched::Whole);
                    if ei == 1 && !with_headers {
                        scheds.push(Sched::cut_cr_lf(text));
                    }
                    for (si, sched) in scheds.iter().enumerate() {
                        for (ci, cons) in [Consumer::ReadToEnd, Consumer::Read(1), Consumer::Read(3), Consumer::Read(4096), Consumer::Blocks(16), Consumer::Blocks(64), Consumer::Blocks(4096)].into_iter().enumerate() {
                            let d = || format!("{vdesc} {} source pieces {} consumer {cons:?}", if ei == 0 { "LF" } else { "CRLF" }, sched.name());
                            ctx.case(cid(1, li, variant, 0x100 + ei * 0x80 + si * 8 + ci, 0), &d, &mut || {
                                let mut dearmor = Dearmor::new(ChunkedReader::new(text, sched.clone()));
                                let (out, res) = consume_read_only(&mut dearmor, cons);
                                res.map_err(|e| format!("(a1) dearmor failed after {} octets: {e}", out.len()))?;
                                if out != payload {
                                    return Err(format!("(a1) dearmor returned {} octets ({}..), payload is {} octets", out.len(), hexs(&out), payload.len()));
                                }
                                if dearmor.typ != Some(typ) {
                                    return Err(format!("(a1) block type {:?}, written {typ:?}", dearmor.typ));
                                }
                                if &dearmor.headers != want_hdrs {
                                    return Err(format!("(a1) headers {:?}, written {want_hdrs:?}", dearmor.headers));
                                }
                                if dearmor.checksum.is_some() != checksum {
                                    return Err(format!("(a1) checksum read: {:?}, written with checksum={checksum}", dearmor.checksum));
                                }
                                Ok(true)
                            });
                        }
                    }

                    // (a4) source faults
                    let fault_scheds: Vec<Sched> = if len <= n * 16 && !with_headers {
                        vec![Sched::Fixed(1), Sched::Fixed(5), Sched::Fixed(64), Sched::Whole]
                    } else {
                        vec![mk(5), mk(64), Sched::Whole]
                    };
                    for (si, sched) in fault_scheds.iter().enumerate() {
                        // number of pieces of the schedule + the end-of-data answer
                        let calls = {
                            let mut cr = ChunkedReader::new(text, sched.clone());
                            let mut c = 0;
                            loop {
                                match cr.fill_buf() {
                                    Ok([]) => break,
                                    Ok(b) => {
                                        let k = b.len();
                                        cr.consume(k);
                                    }
                                    Err(_) => break,
                                }
                                c += 1;
                            }
                            c + 1
                        };
                        for k in 1..=calls {
                            let d = || format!("{vdesc} {} source pieces {}: source fault (ErrorKind::Other) at fill_buf call {k}", if ei == 0 { "LF" } else { "CRLF" }, sched.name());
                            ctx.case(cid(1, li, variant, 0x200 + ei * 0x40 + si, k), &d, &mut || {
                                let fired = std::sync::Arc::new(std::sync::atomic::AtomicBool::new(false));
                                let rdr = Flagged { inner: ChunkedReader::failing(text, sched.clone(), k, io::ErrorKind::Other), flag: fired.clone() };
                                let mut dearmor = Dearmor::new(rdr);
                                let mut out = Vec::new();
                                let res = dearmor.read_to_end(&mut out);
                                let hit = fired.load(std::sync::atomic::Ordering::SeqCst);
                                // a later read must not panic (any result is accepted)
                                let mut b = [0u8; 16];
                                let _ = dearmor.read(&mut b);
                                let _ = dearmor.read(&mut b);
                                if !hit {
                                    return Ok(false);
                                }
                                match res {
                                    Err(_) => Ok(true),
                                    Ok(_) => Err(format!("(a4) the source failed, but the dearmorer ended cleanly with {} octets (payload {} octets)", out.len(), payload.len())),
                                }
                            });
                        }
                    }
                }

                // (a5) bad footers
                if len % 16 == 0 || len > n * 16 {
                    let text = String::from_utf8_lossy(&armored).to_string();
                    let end = text.rfind("-----END").unwrap_or(text.len());
                    let other = if typ == BlockType::Signature { "PGP MESSAGE" } else { "PGP SIGNATURE" };
                    let variants = [
                        ("no footer", text[..end].to_string()),
                        ("footer of another block type", format!("{}-----END {}-----\n", &text[..end], other)),
                        ("footer cut after -----END PGP", format!("{}-----END PGP", &text[..end])),
                    ];
                    for (vi, (what, bad)) in variants.iter().enumerate() {
                        for (si, sched) in [Sched::Whole, Sched::header_then(bad.as_bytes(), 1), Sched::header_then(bad.as_bytes(), 64)].iter().enumerate() {
                            ctx.case(cid(1, li, variant, 0x300 + vi * 4 + si, 0), &|| format!("{vdesc}: {what}, source pieces {}", sched.name()), &mut || {
                                let mut dearmor = Dearmor::new(ChunkedReader::new(bad.as_bytes(), sched.clone()));
                                let mut out = Vec::new();
                                match dearmor.read_to_end(&mut out) {
                                    Err(_) => Ok(true),
                                    Ok(_) => Err(format!("(a5) malformed armor ({what}) was read to a clean end ({} octets)", out.len())),
                                }
                            });
                        }
                    }
                }
            }
        }
    }

    // (a6) refused-once-and-retried writes
    let content_lens: Vec<usize> = if n >= 2 { vec![100, 333, 1000] } else { vec![100, 1000] };
    for (li, &clen) in content_lens.iter().enumerate() {
        let content: Vec<u8> = (0..clen as u32).map(|i| (i * 7 + 3) as u8).collect();
        for (pi, piece) in [30usize, 33, 45, 48, 100].into_iter().enumerate() {
            for checksum in [false, true] {
                let nw = {
                    let mut s = FaultySink::default();
                    let src = PiecewiseRetrying { content: content.clone(), piece };
                    let _ = catch_unwind(AssertUnwindSafe(|| armor::write(&src, BlockType::File, &mut s, None, checksum).is_ok()));
                    s.writes
                };
                for k in 1..=nw {
                    let d = || format!("armor content len {clen} serialized in pieces of {piece} (retrying refused writes), checksum={checksum}, sink refuses write call {k} once with WouldBlock");
                    ctx.case(cid(6, li, pi * 2 + checksum as usize, k, 0), &d, &mut || {
                        let mut s = FaultySink { fail_write_at: k, refuse: true, ..Default::default() };
                        let src = PiecewiseRetrying { content: content.clone(), piece };
                        if armor::write(&src, BlockType::File, &mut s, None, checksum).is_err() {
                            return Ok(false); // the refusal surfaced as an error (header / footer writes): acceptable, nothing to compare
                        }
                        if !s.fired {
                            return Ok(false);
                        }
                        let mut dearmor = Dearmor::new(&s.out[..]);
                        let mut back = Vec::new();
                        dearmor.read_to_end(&mut back).map_err(|e| format!("(a6) armor::write returned Ok, the armor does not dearmor: {e}"))?;
                        if back != content {
                            let first = back.iter().zip(content.iter()).position(|(a, b)| a != b).unwrap_or(back.len().min(content.len()));
                            return Err(format!("(a6) armor::write returned Ok after a retried write, the armor dearmors to {} octets instead of {} (first difference at octet {first})", back.len(), content.len()));
                        }
                        Ok(true)
                    });
                }
            }
        }
    }
}

/// independent base64 (RFC 4648 standard alphabet, padded), optional line break after every 64 characters
fn b64_encode(data: &[u8], line_break: Option<&[u8]>) -> Vec<u8> {
    const T: &[u8; 64] = b"ABCDEFGHIJKLMNOPQRSTUVWXYZabcdefghijklmnopqrstuvwxyz0123456789+/";
    let mut chars = Vec::new();
    for c in data.chunks(3) {
        let v = (c[0] as u32) << 16 | (*c.get(1).unwrap_or(&0) as u32) << 8 | *c.get(2).unwrap_or(&0) as u32;
        chars.push(T[(v >> 18) as usize & 63]);
        chars.push(T[(v >> 12) as usize & 63]);
        chars.push(if c.len() > 1 { T[(v >> 6) as usize & 63] } else { b'=' });
        chars.push(if c.len() > 2 { T[v as usize & 63] } else { b'=' });
    }
    let mut out = Vec::new();
    for (i, ch) in chars.iter().enumerate() {
        out.push(*ch);
        if let Some(lb) = line_break {
            if i % 64 == 63 || i + 1 == chars.len() {
                out.extend_from_slice(lb);
            }
        }
    }
    out
}

/// (a7) the base64 layer below the dearmorer, used directly: Base64Decoder over a raw short-reading source, and
/// Base64Decoder over Base64Reader (line break stripping) over a chunked BufRead
fn base64_family(ctx: &mut Ctx, n: usize) {
    use pgp::base64::{Base64Decoder, Base64Reader};
    let mut lens: Vec<usize> = (0..=n * 16).collect();
    lens.extend([47usize, 48, 49, 95, 96, 97, 191, 192, 193, 767, 768, 769, 1000]);
    lens.sort();
    lens.dedup();
    for (li, &len) in lens.iter().enumerate() {
        let payload = bin_payload(len);
        for (vi, lb) in [None, Some(&b"\n"[..]), Some(&b"\r\n"[..])].into_iter().enumerate() {
            let text = b64_encode(&payload, lb);
            for (si, sched) in [Sched::Fixed(1), Sched::Fixed(2), Sched::Fixed(3), Sched::Fixed(5), Sched::Fixed(7), Sched::Fixed(64), Sched::Fixed(65), Sched::Whole].into_iter().enumerate() {
                for (ci, cons) in [Consumer::ReadToEnd, Consumer::Read(1), Consumer::Read(5), Consumer::Read(4096), Consumer::Blocks(16), Consumer::Blocks(64), Consumer::Blocks(4096)].into_iter().enumerate() {
                    let d = || format!("base64 of payload len {len}, line breaks {:?}, source pieces {}, consumer {cons:?}", lb.map(|l| if l.len() == 1 { "LF" } else { "CRLF" }), sched.name());
                    ctx.case(cid(9, li, vi, si, ci), &d, &mut || {
                        let (out, res) = if lb.is_none() {
                            let mut dec = Base64Decoder::new(ChunkedReader::new(&text, sched.clone()));
                            consume_read_only(&mut dec, cons)
                        } else {
                            let mut dec = Base64Decoder::new(Base64Reader::new(ChunkedReader::new(&text, sched.clone())));
                            consume_read_only(&mut dec, cons)
                        };
                        res.map_err(|e| format!("(a7) base64 decoding failed after {} octets: {e}", out.len()))?;
                        if out != payload {
                            return Err(format!("(a7) decoded {} octets ({}..), the payload is {} octets", out.len(), hexs(&out), payload.len()));
                        }
                        Ok(true)
                    });
                }
            }
        }
    }
}

/// (a2b) / (a3b): the armored output path of the message builder (its own copy of the armor body writer)
fn armored_builder_family(ctx: &mut Ctx, n: usize) {
    let mut lens = vec![1usize, 40, 48, 100, 1000];
    if n >= 2 {
        lens.extend([0, 47, 49, 96, 8192]);
    }
    for (li, &len) in lens.iter().enumerate() {
        let payload = bin_payload(len);
        for checksum in [true, false] {
            for (vi, from_reader) in [false, true].into_iter().enumerate() {
                let variant = (checksum as usize) * 2 + vi;
                let base = format!("armored literal message payload len {len} ({}), checksum={checksum}", if from_reader { "from_reader pieces 7" } else { "from_bytes" });
                let run = |sink: &mut FaultySink| -> pgp::errors::Result<()> {
                    let rng = ChaCha20Rng::seed_from_u64(0x5eed);
                    let opts = ArmorOptions { headers: None, include_checksum: checksum };
                    if from_reader {
                        let mut b = MessageBuilder::from_reader("", ChunkedReader::new(&payload, Sched::Fixed(7)));
                        b.partial_chunk_size(512)?;
                        b.to_armored_writer(rng, opts, sink)
                    } else {
                        MessageBuilder::from_bytes("", payload.clone()).to_armored_writer(rng, opts, sink)
                    }
                };
                let mut reference: Option<Vec<u8>> = None;
                let (mut nw, mut nf) = (0usize, 0usize);
                ctx.case(cid(10, li, variant, 0, 0), &|| format!("{base}: to_armored_writer into a Vec-like sink, read back with Message::from_armor"), &mut || {
                    let mut s = FaultySink::default();
                    run(&mut s).map_err(|e| format!("(a1) to_armored_writer failed: {e}"))?;
                    nw = s.writes;
                    nf = s.flushes;
                    let back = {
                        let (mut msg, _) = Message::from_armor(&s.out[..]).map_err(|e| format!("(a1) the armored message does not parse: {e}"))?;
                        msg.as_data_vec().map_err(|e| format!("(a1) the armored message does not read: {e}"))?
                    };
                    if back != payload {
                        return Err(format!("(a1) the armored message reads back as {} octets, payload {} octets", back.len(), payload.len()));
                    }
                    reference = Some(s.out);
                    Ok(true)
                });
                if nw == 0 {
                    let mut s = FaultySink::default();
                    let _ = catch_unwind(AssertUnwindSafe(|| run(&mut s).is_ok()));
                    nw = s.writes;
                    nf = s.flushes;
                    if reference.is_none() {
                        reference = Some(s.out);
                    }
                }
                for k in 1..=nw + nf {
                    let (fw, ff) = if k <= nw { (k, 0) } else { (0, k - nw) };
                    ctx.case(cid(10, li, variant, 1, k), &|| format!("{base}: sink fault (ErrorKind::Other, once) at write call {fw} of {nw} / flush call {ff} of {nf} (0 = none)"), &mut || {
                        let mut s = FaultySink { fail_write_at: fw, fail_flush_at: ff, ..Default::default() };
                        let r = run(&mut s);
                        if !s.fired {
                            return Ok(false);
                        }
                        match r {
                            Err(_) => Ok(true),
                            Ok(()) => Err(format!("(a2b) the sink failed, but to_armored_writer returned Ok ({} of {} octets reached the sink)", s.out.len(), reference.as_ref().map(|r| r.len()).unwrap_or(0))),
                        }
                    });
                }
                for mw in [1usize, 7] {
                    ctx.case(cid(10, li, variant, 2, mw), &|| format!("{base}: sink that takes at most {mw} octets per write"), &mut || {
                        let mut s = FaultySink { max_write: mw, ..Default::default() };
                        run(&mut s).map_err(|e| format!("(a3b) to_armored_writer failed on a short-writing sink: {e}"))?;
                        match &reference {
                            Some(r) if r != &s.out => Err(format!("(a3b) armor differs from the armor written in whole writes ({} vs {} octets)", s.out.len(), r.len())),
                            _ => Ok(true),
                        }
                    });
                }
            }
        }
    }
}

/// (a8) the tolerance of the armor reader does not depend on the payload length
fn tolerance_family(ctx: &mut Ctx, n: usize) {
    let mut lens: Vec<usize> = vec![0, 1, 47, 48, 49, 95, 96, 97, 191, 192, 193];
    lens.extend(760..=770);
    lens.extend(1528..=1536);
    if n >= 2 {
        lens.extend(2290..=2304);
        lens.extend([381, 382, 383, 3067, 3068, 3069]);
    }
    for (li, &len) in lens.iter().enumerate() {
        let payload = bin_payload(len);
        let mut armored = Vec::new();
        let ok = catch_unwind(AssertUnwindSafe(|| armor::write(&Raw(payload.clone()), BlockType::Message, &mut armored, None, true).is_ok())).unwrap_or(false);
        let text = String::from_utf8_lossy(&armored).to_string();
        let end = text.rfind("-----END").unwrap_or(text.len());
        let (head, foot) = text.split_at(end);
        // (name, text); all of these are accepted at ordinary lengths on the reference tree
        let variants: Vec<(&str, Vec<u8>)> = vec![
            ("as written", text.clone().into_bytes()),
            ("1 blank line (LF) between checksum line and END line", format!("{head}\n{foot}").into_bytes()),
            ("2 blank lines (LF) between checksum line and END line", format!("{head}\n\n{foot}").into_bytes()),
            ("CRLF, 1 blank line between checksum line and END line", to_crlf(format!("{head}\n{foot}").as_bytes())),
            ("CRLF, 2 blank lines between checksum line and END line", to_crlf(format!("{head}\n\n{foot}").as_bytes())),
            ("extra newline (LF) after the END line", format!("{text}\n").into_bytes()),
            ("CRLF, extra newline after the END line", to_crlf(format!("{text}\n").as_bytes())),
        ];
        for (vi, (vname, t)) in variants.iter().enumerate() {
            for (si, sched) in [Sched::Whole, Sched::Fixed(1), Sched::Fixed(64), Sched::Fixed(1024)].into_iter().enumerate() {
                ctx.case(cid(11, li, vi, si, 0), &|| format!("armor with checksum, payload len {len}: {vname}; source pieces {}", sched.name()), &mut || {
                    if !ok {
                        return Err("(a8) armor::write failed".into());
                    }
                    let mut dearmor = Dearmor::new(ChunkedReader::new(t, sched.clone()));
                    let mut out = Vec::new();
                    dearmor.read_to_end(&mut out).map_err(|e| format!("(a8) this form is accepted at other payload lengths, here the dearmorer failed after {} octets: {e}", out.len()))?;
                    if out != payload {
                        return Err(format!("(a8) dearmor returned {} octets, payload {} octets", out.len(), payload.len()));
                    }
                    if dearmor.typ != Some(BlockType::Message) || dearmor.checksum.is_none() {
                        return Err(format!("(a8) block type {:?} / checksum {:?}", dearmor.typ, dearmor.checksum));
                    }
                    Ok(true)
                });
            }
        }
    }
}

/// ChunkedReader whose `fired` flag stays observable after the reader was moved into the library
#[derive(Debug)]
struct Flagged {
    inner: ChunkedReader,
    flag: std::sync::Arc<std::sync::atomic::AtomicBool>,
}
impl Flagged {
    fn sync(&self) {
        if self.inner.fired {
            self.flag.store(true, std::sync::atomic::Ordering::SeqCst);
        }
    }
}
impl Read for Flagged {
    fn read(&mut self, buf: &mut [u8]) -> io::Result<usize> {
        let r = self.inner.read(buf);
        self.sync();
        r
    }
}
impl BufRead for Flagged {
    fn fill_buf(&mut self) -> io::Result<&[u8]> {
        if self.inner.pos == self.inner.end {
            let r = self.inner.next_piece();
            self.sync();
            r?;
        }
        Ok(&self.inner.data[self.inner.pos..self.inner.end])
    }
    fn consume(&mut self, amt: usize) {
        self.inner.consume(amt)
    }
}

// ------------------------------------------------------------------------------------------------------------
// F2: message builder / reader
// ------------------------------------------------------------------------------------------------------------

#[derive(Clone, Copy, Debug, PartialEq)]
struct Shape {
    text: bool,
    compress: bool,
    /// 0 none, 1 v4 key, 2 v6 key, 3 v4+v6+v6
    sign: u8,
    /// 0 none, 1 SEIPDv1, 2 SEIPDv2 chunk 64, 3 SEIPDv2 chunk 4096
    enc: u8,
}

impl Shape {
    fn code(&self) -> usize {
        (self.text as usize) | (self.compress as usize) << 1 | (self.sign as usize) << 2 | (self.enc as usize) << 4
    }
    fn name(&self) -> String {
        format!(
            "{}{}{}{}",
            if self.text { "utf8-text" } else { "binary" },
            if self.compress { "+zlib" } else { "" },
            ["", "+signed(v4)", "+signed(v6)", "+signed(v4,v6,v6)"][self.sign as usize],
            ["", "+SEIPDv1", "+SEIPDv2/64", "+SEIPDv2/4096"][self.enc as usize]
        )
    }
}

const PW: &str = "correct horse";

struct Keys {
    v4: SignedSecretKey,
    v6a: SignedSecretKey,
    v6b: SignedSecretKey,
    other: SignedSecretKey,
}

fn gen_key(seed: u64, version: KeyVersion) -> SignedSecretKey {
    let mut rng = ChaCha20Rng::seed_from_u64(seed);
    let mut params = SecretKeyParamsBuilder::default();
    params.key_type(KeyType::Ed25519).version(version).can_sign(true).created_at(Timestamp::from_secs(1_600_000_000)).primary_user_id("harness <harness@example.org>".into());
    params.build().expect("key params").generate(&mut rng).expect("key generation")
}

impl Keys {
    fn signers(&self, sign: u8) -> Vec<&SignedSecretKey> {
        match sign {
            0 => vec![],
            1 => vec![&self.v4],
            2 => vec![&self.v6a],
            _ => vec![&self.v4, &self.v6a, &self.v6b],
        }
    }
}

fn text_payload(len: usize) -> Vec<u8> {
    // valid UTF-8 with CRLF line endings only, multi-byte characters, lines of varying length, exactly `len` octets
    let tokens: [&str; 6] = ["line \u{e9}\u{e8} one\r\n", "\u{20ac}uro \u{1f600} smile\r\n", "\r\n", "x\r\n", "a longer line of plain ascii text, for good measure.\r\n", "\u{fc}"];
    let mut out = Vec::with_capacity(len);
    let mut i = 0;
    while out.len() < len {
        let t = tokens[i % tokens.len()].as_bytes();
        if out.len() + t.len() <= len {
            out.extend_from_slice(t);
        } else {
            out.push(b'.');
        }
        i += 1;
    }
    out
}

enum Src<'a> {
    Bytes,
    Reader(&'a mut ChunkedReader, u32),
}

/// builds the message of `shape` over `payload` with a fixed rng seed
fn build<W: Write>(keys: &Keys, shape: Shape, payload: &[u8], src: Src<'_>, out: W) -> pgp::errors::Result<()> {
    let mut rng = ChaCha20Rng::seed_from_u64(0x5eed);
    macro_rules! finish {
        ($b:expr) => {{
            let mut b = $b;
            if shape.text {
                b.data_mode(DataMode::Utf8)?;
                b.sign_text();
            }
            if shape.compress {
                b.compression(CompressionAlgorithm::ZLIB);
            }
            for k in keys.signers(shape.sign) {
                // the default subpackets carry the wall clock time: give the same ones with a fixed time, so that the
                // builder output is a function of (payload, shape, rng seed) only
                let hashed = vec![
                    Subpacket::regular(SubpacketData::IssuerFingerprint(k.fingerprint()))?,
                    Subpacket::regular(SubpacketData::SignatureCreationTime(Timestamp::from_secs(1_700_000_000)))?,
                ];
                let mut unhashed = vec![];
                if k.version() == KeyVersion::V4 {
                    unhashed.push(Subpacket::regular(SubpacketData::IssuerKeyId(k.legacy_key_id()))?);
                }
                b.sign_with_subpackets(&**k, Password::empty(), HashAlgorithm::Sha256, SubpacketConfig::UserDefined { hashed, unhashed });
            }
            b.to_writer(&mut rng, out)
        }};
    }
    macro_rules! with_enc {
        ($b:expr) => {{
            let b = $b;
            match shape.enc {
                0 => finish!(b),
                1 => {
                    let mut b = b.seipd_v1(&mut rng, SymmetricKeyAlgorithm::AES128);
                    let s2k = StringToKey::new_iterated(&mut rng, Default::default(), 2);
                    b.encrypt_with_password(s2k, &PW.into())?;
                    finish!(b)
                }
                e => {
                    let cs = if e == 2 { ChunkSize::C64B } else { ChunkSize::C4KiB };
                    let mut b = b.seipd_v2(&mut rng, SymmetricKeyAlgorithm::AES128, AeadAlgorithm::Ocb, cs);
                    let s2k = StringToKey::new_iterated(&mut rng, Default::default(), 2);
                    b.encrypt_with_password(&mut rng, s2k, &PW.into())?;
                    finish!(b)
                }
            }
        }};
    }
    match src {
        Src::Bytes => with_enc!(MessageBuilder::from_bytes("", payload.to_vec())),
        Src::Reader(r, partial) => {
            let mut b = MessageBuilder::from_reader("", ByRef(r));
            if partial != 0 {
                b.partial_chunk_size(partial)?;
            }
            with_enc!(b)
        }
    }
}

#[derive(Clone, Copy, Debug, PartialEq)]
enum V1Mode {
    Default,
    Streaming,
    Limit(usize),
}

struct ReadOutcome {
    /// plaintext handed out by the message reader (also when it then failed)
    released: Vec<u8>,
    /// Ok: clean end; Err: (stage, message)
    end: Result<(), (&'static str, String)>,
    header: Option<LiteralDataHeader>,
    /// per signer index: verifies with the right key, verifies with an unrelated key
    sigs: Vec<(Result<(), String>, bool)>,
}

/// the whole reader pipeline: parse -> decrypt -> decompress -> consume -> verify
fn read_message<R: BufRead + std::fmt::Debug + Send>(keys: &Keys, shape: Shape, source: R, mode: V1Mode, cons: Consumer) -> ReadOutcome {
    let mut o = ReadOutcome { released: vec![], end: Ok(()), header: None, sigs: vec![] };
    let msg = match Message::from_bytes(source) {
        Ok(m) => m,
        Err(e) => {
            o.end = Err(("parse", e.to_string()));
            return o;
        }
    };
    let pw = Password::from(PW);
    let msg = if msg.is_encrypted() {
        let mut opts = DecryptionOptions::new();
        match mode {
            V1Mode::Default => {}
            V1Mode::Streaming => opts = opts.set_seipdv1_read_mode(Seipdv1ReadMode::Streaming),
            V1Mode::Limit(l) => opts = opts.set_seipdv1_read_mode(Seipdv1ReadMode::CheckFirst { max_message_size: l }),
        }
        let ring = TheRing { message_password: vec![&pw], decrypt_options: opts, ..Default::default() };
        match msg.decrypt_the_ring(ring, true) {
            Ok((m, _)) => m,
            Err(e) => {
                o.end = Err(("decrypt", e.to_string()));
                return o;
            }
        }
    } else if shape.enc != 0 {
        o.end = Err(("parse", "the message is not an encrypted message".into()));
        return o;
    } else {
        msg
    };
    let mut msg = if msg.is_compressed() {
        match msg.decompress() {
            Ok(m) => m,
            Err(e) => {
                o.end = Err(("decompress", e.to_string()));
                return o;
            }
        }
    } else {
        msg
    };
    let (out, res) = consume(&mut msg, cons);
    o.released = out;
    if let Err(e) = res {
        o.end = Err(("read", e.to_string()));
        return o;
    }
    o.header = msg.literal_data_header().cloned();
    let signers = keys.signers(shape.sign);
    for (i, k) in signers.iter().enumerate() {
        let right = msg.verify_nested_explicit(i, k.public_key()).map(|_| ()).map_err(|e| e.to_string());
        let wrong = msg.verify_nested_explicit(i, keys.other.public_key()).is_ok();
        o.sigs.push((right, wrong));
    }
    o
}

fn check_roundtrip(o: &ReadOutcome, shape: Shape, payload: &[u8]) -> Result<(), String> {
    if let Err((stage, e)) = &o.end {
        return Err(format!("(b1) reading back failed at stage {stage} after {} payload octets: {e}", o.released.len()));
    }
    if o.released != payload {
        let first = o.released.iter().zip(payload.iter()).position(|(a, b)| a != b).unwrap_or(o.released.len().min(payload.len()));
        return Err(format!("(b1) the reader returned {} octets, the payload is {} octets (first difference at octet {first})", o.released.len(), payload.len()));
    }
    let want = LiteralDataHeader::new(if shape.text { DataMode::Utf8 } else { DataMode::Binary });
    match &o.header {
        None => return Err("(b1) no literal data header available after reading".into()),
        Some(h) if h != &want => return Err(format!("(b1) literal metadata differs: got {h:?}, expected {want:?}")),
        _ => {}
    }
    for (i, (right, wrong)) in o.sigs.iter().enumerate() {
        if let Err(e) = right {
            return Err(format!("(b1) signature {i} does not verify with the key that made it: {e}"));
        }
        if *wrong {
            return Err(format!("(b1) signature {i} verifies with an unrelated key"));
        }
    }
    Ok(())
}

fn shapes(n: usize) -> Vec<Shape> {
    let s = |text, compress, sign, enc| Shape { text, compress, sign, enc };
    let mut v = vec![
        s(false, false, 0, 0),
        s(true, false, 0, 0),
        s(false, true, 0, 0),
        s(false, false, 0, 1),
        s(false, false, 0, 2),
        s(false, false, 0, 3),
        s(false, false, 1, 0),
        s(false, false, 2, 2),
        s(false, false, 3, 2),
        s(true, false, 2, 3),
        s(false, true, 1, 1),
        s(true, true, 3, 0),
    ];
    if n >= 2 {
        for text in [false, true] {
            for compress in [false, true] {
                for sign in 0..4u8 {
                    for enc in 0..4u8 {
                        let x = s(text, compress, sign, enc);
                        if !v.contains(&x) {
                            v.push(x);
                        }
                    }
                }
            }
        }
    }
    v
}

fn payload_lens(n: usize) -> Vec<usize> {
    let mut v: Vec<usize> = (0..=2 + 3 * n).collect();
    v.extend([56, 63, 64, 65, 120, 184, 186]);
    v.extend((500..=520).step_by(7));
    v.extend([8190, 8192, 8193, 16385]);
    // first partial chunk of 512 holds 506 payload octets, the second ends at 1018; SEIPDv2/4096: first chunk full at 4087
    v.extend([505, 506, 507, 1017, 1018, 1019, 4086, 4087, 4088]);
    if n >= 2 {
        v.extend([127, 128, 129, 255, 256, 257, 511, 512, 513, 1023, 1024, 1025, 4095, 4096, 4097]);
        v.extend(40..=70);
    }
    v.sort();
    v.dedup();
    v
}

/// SEIPD packet of a password encrypted message: (offset of the packet, header length, body length); None if not fixed length
fn find_seipd(msg: &[u8]) -> Option<(usize, usize, usize)> {
    let mut p = 0usize;
    while p < msg.len() {
        let t = msg[p];
        if t & 0xC0 != 0xC0 {
            return None;
        }
        let tag = t & 0x3f;
        let l0 = *msg.get(p + 1)? as usize;
        let (hl, bl) = if l0 < 192 {
            (2, l0)
        } else if l0 < 224 {
            (3, ((l0 - 192) << 8) + *msg.get(p + 2)? as usize + 192)
        } else if l0 == 255 {
            (6, u32::from_be_bytes([*msg.get(p + 2)?, *msg.get(p + 3)?, *msg.get(p + 4)?, *msg.get(p + 5)?]) as usize)
        } else {
            return None;
        };
        if tag == 18 {
            return if p + hl + bl == msg.len() { Some((p, hl, bl)) } else { None };
        }
        p += hl + bl;
    }
    None
}

fn new_header(tag: u8, len: usize) -> Vec<u8> {
    let mut h = vec![0xC0 | tag];
    if len < 192 {
        h.push(len as u8);
    } else if len < 8384 {
        h.push((((len - 192) >> 8) + 192) as u8);
        h.push(((len - 192) & 0xff) as u8);
    } else {
        h.push(255);
        h.extend_from_slice(&(len as u32).to_be_bytes());
    }
    h
}

fn message_family(ctx: &mut Ctx, n: usize, keys: &Keys) {
    let shapes = shapes(n);
    let lens = payload_lens(n);
    for (pi, &len) in lens.iter().enumerate() {
        for shape in &shapes {
            let shape = *shape;
            let payload = if shape.text { text_payload(len) } else { bin_payload(len) };
            let sc = shape.code();
            let base = format!("message {} payload len {len}", shape.name());

            // ---- builder: from_bytes
            let mut fixed: Option<Vec<u8>> = None;
            ctx.case(cid(2, pi, sc, 0, 0), &|| format!("{base}: build from_bytes"), &mut || {
                let mut out = Vec::new();
                build(keys, shape, &payload, Src::Bytes, &mut out).map_err(|e| format!("(b1) building from bytes failed: {e}"))?;
                fixed = Some(out);
                Ok(true)
            });
            if fixed.is_none() && ctx.replay.is_some() {
                let mut out = Vec::new();
                if catch_unwind(AssertUnwindSafe(|| build(keys, shape, &payload, Src::Bytes, &mut out).is_ok())).unwrap_or(false) {
                    fixed = Some(out);
                }
            }

            // ---- builder: from_reader, every schedule; (b2) identical bytes per partial chunk size
            let mut scheds: Vec<(Sched, u32)> = vec![(Sched::Whole, 512), (Sched::Fixed(7), 512), (Sched::Fixed(512), 512), (Sched::Whole, 0), (Sched::Fixed(512), 0)];
            if len <= 600 {
                scheds.push((Sched::Fixed(1), 512));
                scheds.push((Sched::Fixed(1), 0));
            }
            if n >= 2 {
                scheds.push((Sched::Fixed(3), 512));
                scheds.push((Sched::Fixed(513), 512));
                scheds.push((Sched::Fixed(7), 0));
            }
            let mut reference: [Option<Vec<u8>>; 2] = [None, None];
            for (si, (sched, partial)) in scheds.iter().enumerate() {
                let slot = if *partial == 512 { 0 } else { 1 };
                let d = || format!("{base}: build from_reader, source pieces {}, partial chunk size {}", sched.name(), if *partial == 0 { "default".to_string() } else { partial.to_string() });
                let mut calls = 0usize;
                ctx.case(cid(2, pi, sc, 1, si), &d, &mut || {
                    let mut rdr = ChunkedReader::new(&payload, sched.clone());
                    let mut out = Vec::new();
                    build(keys, shape, &payload, Src::Reader(&mut rdr, *partial), &mut out).map_err(|e| format!("(b1) building from a reader failed: {e}"))?;
                    calls = rdr.calls;
                    match &reference[slot] {
                        None => reference[slot] = Some(out),
                        Some(r) => {
                            if r != &out {
                                let first = r.iter().zip(out.iter()).position(|(a, b)| a != b).unwrap_or(r.len().min(out.len()));
                                return Err(format!("(b2) the builder output depends on the read schedule of the source: {} octets vs {} octets with the source delivered whole, first difference at octet {first}", out.len(), r.len()));
                            }
                        }
                    }
                    Ok(true)
                });
                if calls == 0 {
                    // failed or skipped (replay): count the calls quietly for the fault cases below
                    let mut rdr = ChunkedReader::new(&payload, sched.clone());
                    let mut out = Vec::new();
                    let _ = catch_unwind(AssertUnwindSafe(|| build(keys, shape, &payload, Src::Reader(&mut rdr, *partial), &mut out).is_ok()));
                    calls = rdr.calls;
                    if reference[slot].is_none() && ctx.replay.is_some() {
                        reference[slot] = Some(out);
                    }
                }

                // (b3) single source faults, (b4) Interrupted
                if matches!(sched, Sched::Whole) && len > 0 && *partial == 0 {
                    continue;
                }
                let mut ks: Vec<usize> = (1..=calls.min(8)).collect();
                if calls > 8 {
                    ks.push(calls);
                    ks.push(calls / 2);
                }
                for &k in &ks {
                    let d = || format!("{base}: build from_reader, source pieces {}, partial chunk size {}, source fault (ErrorKind::Other) at read call {k} of {calls}", sched.name(), partial);
                    ctx.case(cid(2, pi, sc, 0x100 + si, k), &d, &mut || {
                        let mut rdr = ChunkedReader::failing(&payload, sched.clone(), k, io::ErrorKind::Other);
                        let mut out = Vec::new();
                        let r = build(keys, shape, &payload, Src::Reader(&mut rdr, *partial), &mut out);
                        if !rdr.fired {
                            return Ok(false);
                        }
                        match r {
                            Err(_) => Ok(true),
                            Ok(()) => {
                                let back = read_message(keys, shape, &out[..], V1Mode::Default, Consumer::ReadToEnd);
                                Err(format!(
                                    "(b3) the source failed after delivering {} of {} octets, but the builder returned Ok with a {} octet message (reads back: {} payload octets, {})",
                                    rdr.pos, payload.len(), out.len(), back.released.len(),
                                    match &back.end { Ok(()) => "clean end".to_string(), Err((s, e)) => format!("error at {s}: {e}") }
                                ))
                            }
                        }
                    });
                }
                for &k in ks.iter().filter(|&&k| k <= 2 || k == calls) {
                    let d = || format!("{base}: build from_reader, source pieces {}, partial chunk size {}, one ErrorKind::Interrupted at read call {k} of {calls}", sched.name(), partial);
                    ctx.case(cid(2, pi, sc, 0x200 + si, k), &d, &mut || {
                        let mut rdr = ChunkedReader::failing(&payload, sched.clone(), k, io::ErrorKind::Interrupted);
                        let mut out = Vec::new();
                        let r = build(keys, shape, &payload, Src::Reader(&mut rdr, *partial), &mut out);
                        if !rdr.fired || r.is_err() {
                            return Ok(false);
                        }
                        match &reference[slot] {
                            Some(rf) if rf != &out => {
                                let first = rf.iter().zip(out.iter()).position(|(a, b)| a != b).unwrap_or(rf.len().min(out.len()));
                                Err(format!("(b4) after one Interrupted of the source the builder returned Ok with different bytes ({} vs {} octets, first difference at octet {first})", out.len(), rf.len()))
                            }
                            _ => Ok(true),
                        }
                    });
                }
            }

            // (b5) sink faults / short writes (from_bytes and from_reader whole)
            if len <= 600 || len == 8192 {
                for (vi, from_reader) in [false, true].into_iter().enumerate() {
                    let run = |sink: &mut FaultySink| -> pgp::errors::Result<()> {
                        if from_reader {
                            let mut rdr = ChunkedReader::new(&payload, Sched::Whole);
                            build(keys, shape, &payload, Src::Reader(&mut rdr, 512), sink)
                        } else {
                            build(keys, shape, &payload, Src::Bytes, sink)
                        }
                    };
                    let want = if from_reader { reference[0].clone() } else { fixed.clone() };
                    let nw = {
                        let mut s = FaultySink::default();
                        let _ = catch_unwind(AssertUnwindSafe(|| run(&mut s).is_ok()));
                        s.writes
                    };
                    let mut ks: Vec<usize> = (1..=nw.min(4)).collect();
                    if nw > 4 {
                        ks.push(nw);
                    }
                    for &k in &ks {
                        ctx.case(cid(2, pi, sc, 0x300 + vi, k), &|| format!("{base}: build ({}), sink fault at write call {k} of {nw}", if from_reader { "from_reader" } else { "from_bytes" }), &mut || {
                            let mut s = FaultySink { fail_write_at: k, ..Default::default() };
                            let r = run(&mut s);
                            if !s.fired {
                                return Ok(false);
                            }
                            match r {
                                Err(_) => Ok(true),
                                Ok(()) => Err(format!("(b5) the sink failed, but the builder returned Ok ({} octets reached the sink)", s.out.len())),
                            }
                        });
                    }
                    ctx.case(cid(2, pi, sc, 0x310 + vi, 0), &|| format!("{base}: build ({}), sink takes at most 5 octets per write", if from_reader { "from_reader" } else { "from_bytes" }), &mut || {
                        let mut s = FaultySink { max_write: 5, ..Default::default() };
                        run(&mut s).map_err(|e| format!("(b5) building into a short-writing sink failed: {e}"))?;
                        match &want {
                            Some(w) if w != &s.out => Err(format!("(b5) output into a short-writing sink differs ({} vs {} octets)", s.out.len(), w.len())),
                            _ => Ok(true),
                        }
                    });
                }
            }

            // ---- reader: (b1) on the fixed message and on the partial-length messages
            let modes: Vec<V1Mode> = if shape.enc == 1 { vec![V1Mode::Default, V1Mode::Streaming] } else { vec![V1Mode::Default] };
            let msgs: [(&str, &Option<Vec<u8>>); 3] = [("from_bytes", &fixed), ("from_reader/partial 512", &reference[0]), ("from_reader/partial default", &reference[1])];
            for (mi, (mname, bytes)) in msgs.iter().enumerate() {
                let Some(bytes) = bytes else { continue };
                let small = len <= 600;
                let mut combos: Vec<(Sched, Consumer)> = vec![];
                // (no Blocks consumer here: Message::read(&mut []) fails on the reference tree - reported separately)
                let conss = [Consumer::ReadToEnd, Consumer::Read(1), Consumer::Read(3), Consumer::Read(4096), Consumer::BufRead];
                if small {
                    for s in [Sched::Whole, Sched::Fixed(1), Sched::Fixed(7), Sched::Fixed(512)] {
                        for c in conss {
                            combos.push((s.clone(), c));
                        }
                    }
                } else {
                    for c in conss {
                        if !matches!(c, Consumer::Read(1)) || n >= 2 {
                            combos.push((Sched::Whole, c));
                        }
                    }
                    combos.push((Sched::Fixed(7), Consumer::ReadToEnd));
                    combos.push((Sched::Fixed(512), Consumer::ReadToEnd));
                    combos.push((Sched::Fixed(512), Consumer::Read(3)));
                    combos.push((Sched::Fixed(7), Consumer::Read(4096)));
                }
                for (mo, mode) in modes.iter().enumerate() {
                    for (ci, (sched, cons)) in combos.iter().enumerate() {
                        let d = || format!("{base} built {mname} ({} octets): read back, message source pieces {}, consumer {cons:?}, SEIPDv1 mode {mode:?}", bytes.len(), sched.name());
                        ctx.case(cid(3, pi, sc, mi * 0x100 + mo * 0x40 + ci, 0), &d, &mut || {
                            let o = if matches!(sched, Sched::Whole) {
                                read_message(keys, shape, &bytes[..], *mode, *cons)
                            } else {
                                read_message(keys, shape, ChunkedReader::new(bytes, sched.clone()), *mode, *cons)
                            };
                            check_roundtrip(&o, shape, &payload)?;
                            Ok(true)
                        });
                    }
                }

                // (b6) faults of the source under the reader
                if mi < 2 && (small || len == 8192) {
                    for (si, sched) in [Sched::Fixed(7), Sched::Fixed(512)].iter().enumerate() {
                        let calls = bytes.len().div_ceil(match sched { Sched::Fixed(c) => *c, _ => 1 }) + 1;
                        let mut ks: Vec<usize> = (1..=calls.min(8)).collect();
                        if calls > 8 {
                            ks.extend([calls / 2, calls - 1, calls]);
                        }
                        for &k in &ks {
                            let d = || format!("{base} built {mname} ({} octets): read back from a source in pieces of {} that fails (ErrorKind::Other) at call {k} of {calls}", bytes.len(), sched.name());
                            ctx.case(cid(4, pi, sc, mi * 0x10 + si, k), &d, &mut || {
                                let fired = std::sync::Arc::new(std::sync::atomic::AtomicBool::new(false));
                                let rdr = Flagged { inner: ChunkedReader::failing(bytes, sched.clone(), k, io::ErrorKind::Other), flag: fired.clone() };
                                let o = read_message(keys, shape, rdr, V1Mode::Default, Consumer::ReadToEnd);
                                if !fired.load(std::sync::atomic::Ordering::SeqCst) {
                                    return Ok(false);
                                }
                                match o.end {
                                    Err(_) => Ok(true),
                                    Ok(()) => Err(format!("(b6) the source of the message failed, but the reader ended cleanly with {} payload octets (payload {} octets)", o.released.len(), payload.len())),
                                }
                            });
                        }
                    }
                }
            }

            // ---- F3: ciphertext integrity
            if shape.enc != 0 && !shape.compress && len <= 600 {
                if let Some(bytes) = &fixed {
                    integrity_cases(ctx, keys, shape, pi, &payload, bytes, &base);
                }
            }
        }
    }
}

fn integrity_cases(ctx: &mut Ctx, keys: &Keys, shape: Shape, pi: usize, payload: &[u8], bytes: &[u8], base: &str) {
    let sc = shape.code();
    let Some((off, hl, bl)) = find_seipd(bytes) else {
        ctx.case(cid(5, pi, sc, 0, 0), &|| format!("{base}: locate the SEIPD packet"), &mut || Err("(c1) harness: fixed-length SEIPD packet not found at the end of the message".into()));
        return;
    };
    let chunk: usize = match shape.enc {
        2 => 64,
        3 => 4096,
        _ => 0,
    };
    let body = off + hl;
    // SEIPDv2: version, cipher, aead, chunk size octet, 32 octets salt, then chunks (+16 tag each) and the final tag
    let data_start = if shape.enc == 1 { body + 1 } else { body + 36 };
    let enc_len = bytes.len() - data_start;
    let nchunks = if chunk > 0 { (enc_len - 16).div_ceil(chunk + 16) } else { 0 };
    // number of chunks that lie completely in front of message offset p
    let chunks_before = |p: usize| -> usize {
        if chunk == 0 || p < data_start {
            0
        } else {
            ((p - data_start) / (chunk + 16)).min(nchunks)
        }
    };

    // modifications: (name, bytes, released bound in chunks)
    let mut mods: Vec<(String, Vec<u8>, usize)> = vec![];
    let plen = bytes.len() - off;
    let npos = plen.min(40);
    for i in 0..npos {
        let rel = if npos == 1 { 0 } else { i * (plen - 1) / (npos - 1) };
        let p = off + rel;
        let mut m = bytes.to_vec();
        m[p] ^= 1 << (i % 8);
        mods.push((format!("bit {} of octet {rel} of the SEIPD packet ({} octets) flipped", i % 8, plen), m, chunks_before(p)));
    }
    // first and last octet of the encrypted data, always
    for p in [data_start, bytes.len() - 1, bytes.len() - 17] {
        let mut m = bytes.to_vec();
        m[p] ^= 0x04;
        mods.push((format!("bit 2 of octet {} of the SEIPD packet flipped", p - off), m, chunks_before(p)));
    }
    // the last octet belongs to the last chunk + final tag: with one octet less the last data chunk can not be authenticated
    let last_data_chunk = nchunks.saturating_sub(1);
    mods.push(("message truncated by one octet".into(), bytes[..bytes.len() - 1].to_vec(), last_data_chunk));
    {
        let mut m = bytes[..off].to_vec();
        m.extend(new_header(18, bl - 1));
        m.extend_from_slice(&bytes[body..bytes.len() - 1]);
        mods.push(("SEIPD packet truncated by one octet, length fixed up".into(), m, last_data_chunk));
    }
    if chunk > 0 {
        let tag = bytes[bytes.len() - 16..].to_vec();
        for extra in [vec![0u8], vec![0xAA; 7], vec![0x55; 16], tag] {
            let mut m = bytes[..off].to_vec();
            m.extend(new_header(18, bl + extra.len()));
            m.extend_from_slice(&bytes[body..bytes.len() - 16]);
            m.extend_from_slice(&extra);
            m.extend_from_slice(&bytes[bytes.len() - 16..]);
            mods.push((format!("{} octets ({}) spliced in front of the final tag, length fixed up", extra.len(), hexs(&extra)), m, nchunks));
        }
    }

    // (c4) skipped leading packets must not switch off the trailing-data check behind the encrypted container
    {
        let marker: Vec<u8> = vec![0xCA, 0x03, b'P', b'G', b'P'];
        let padding: Vec<u8> = vec![0xD5, 0x04, 0x11, 0x22, 0x33, 0x44];
        let both: Vec<u8> = [marker.clone(), padding.clone()].concat();
        let prefixes: [(&str, Vec<u8>); 4] = [("no prefix", vec![]), ("Marker packet", marker), ("Padding packet (4 octets)", padding), ("Marker + Padding packets", both)];
        let mut second_literal = vec![0xCB, 0x0A, b'b', 0x00, 0, 0, 0, 0];
        second_literal.extend_from_slice(b"evil");
        let appended: [(&str, Vec<u8>); 5] = [
            ("nothing (control)", vec![]),
            ("one octet 00", vec![0x00]),
            ("00 00 00 00", vec![0; 4]),
            ("16 x 7F", vec![0x7F; 16]),
            ("a complete second literal packet", second_literal),
        ];
        for (pi2, (pname, prefix)) in prefixes.iter().enumerate() {
            for (ai, (aname, app)) in appended.iter().enumerate() {
                let m: Vec<u8> = [&prefix[..], bytes, &app[..]].concat();
                for (ci, cons) in [Consumer::ReadToEnd, Consumer::Read(7), Consumer::BufRead].into_iter().enumerate() {
                    let d = || format!("{base}: {pname} in front of the message, appended behind the encrypted container: {aname}; consumer {cons:?}");
                    ctx.case(cid(5, pi, sc, 0x1000 + pi2 * 16 + ai, ci), &d, &mut || {
                        let o = read_message(keys, shape, &m[..], V1Mode::Default, cons);
                        if app.is_empty() {
                            // control: skipped leading packets do not change the result
                            check_roundtrip(&o, shape, payload).map_err(|e| e.replace("(b1)", "(c4) control:"))?;
                            return Ok(true);
                        }
                        match o.end {
                            Err(_) => Ok(true),
                            Ok(()) => Err(format!("(c4) octets appended behind the encrypted container were not reported, the stream ended cleanly with {} plaintext octets (identical to the payload: {})", o.released.len(), o.released == payload)),
                        }
                    });
                }
            }
        }
    }

    let mut modes = vec![V1Mode::Default];
    if shape.enc == 1 {
        // the smallest check-first limit that admits the unmodified message (bisection over the reader's answers)
        let accepts = |l: usize| -> bool {
            catch_unwind(AssertUnwindSafe(|| {
                let o = read_message(keys, shape, bytes, V1Mode::Limit(l), Consumer::ReadToEnd);
                o.end.is_ok() && o.released == payload
            }))
            .unwrap_or(false)
        };
        if accepts(bytes.len()) && !accepts(0) {
            let (mut lo, mut hi) = (0usize, bytes.len());
            while hi - lo > 1 {
                let mid = lo + (hi - lo) / 2;
                if accepts(mid) {
                    hi = mid;
                } else {
                    lo = mid;
                }
            }
            modes.push(V1Mode::Limit(hi));
            modes.push(V1Mode::Limit(hi + 1));
        }
        modes.push(V1Mode::Streaming);
    }

    for (mi, (what, m, bound_chunks)) in mods.iter().enumerate() {
        for (mo, mode) in modes.iter().enumerate() {
            for (ci, cons) in [Consumer::Read(1), Consumer::Read(97), Consumer::ReadToEnd, Consumer::BufRead].into_iter().enumerate() {
                let d = || format!("{base}: {what}; SEIPDv1 mode {mode:?}, consumer {cons:?}");
                ctx.case(cid(5, pi, sc, mi + 1, mo * 8 + ci), &d, &mut || {
                    let o = read_message(keys, shape, &m[..], *mode, cons);
                    let rel = o.released.len();
                    if o.end.is_ok() {
                        return Err(format!("(c1) the modified container was decrypted to a clean end: {} plaintext octets (identical to the payload: {})", rel, o.released == payload));
                    }
                    let stage = o.end.as_ref().err().map(|(s, e)| format!("{s}: {e}")).unwrap_or_default();
                    if shape.enc == 1 {
                        if *mode != V1Mode::Streaming && rel != 0 {
                            return Err(format!("(c2) SEIPDv1 check-first: {rel} plaintext octets were released before the failure ({stage})"));
                        }
                    } else {
                        if rel > payload.len() || o.released[..] != payload[..rel] {
                            return Err(format!("(c3) SEIPDv2: {rel} octets were released that are not a prefix of the payload ({stage})"));
                        }
                        if rel > bound_chunks * chunk {
                            return Err(format!("(c3) SEIPDv2: {rel} plaintext octets were released, but only {bound_chunks} chunk(s) of {chunk} octets lie in front of the modification ({stage})"));
                        }
                    }
                    Ok(true)
                });
            }
        }
    }
}

// ------------------------------------------------------------------------------------------------------------
// F4 / F5: sweeps
// ------------------------------------------------------------------------------------------------------------

fn sweeps(ctx: &mut Ctx, n: usize, keys: &Keys) {
    let shape = Shape { text: false, compress: false, sign: 0, enc: 1 };
    let mut lens: Vec<usize> = if n >= 2 { (8100..=8250).collect() } else { (8150..=8200).collect() };
    if n >= 2 {
        lens.extend(16300..=16400);
    } else {
        lens.extend((16320..=16360).step_by(3));
    }
    for (li, &len) in lens.iter().enumerate() {
        let payload = bin_payload(len);
        let mut bytes = Vec::new();
        let built = catch_unwind(AssertUnwindSafe(|| build(keys, shape, &payload, Src::Bytes, &mut bytes).is_ok())).unwrap_or(false);
        for (mo, mode) in [V1Mode::Default, V1Mode::Streaming].into_iter().enumerate() {
            for (ci, cons) in [Consumer::ReadToEnd, Consumer::Read(4096)].into_iter().enumerate() {
                ctx.case(cid(7, li, mo, ci, 0), &|| format!("SEIPDv1 from_bytes payload len {len}: round trip, mode {mode:?}, consumer {cons:?}"), &mut || {
                    if !built {
                        return Err("(b1) building failed".into());
                    }
                    let o = read_message(keys, shape, &bytes[..], mode, cons);
                    check_roundtrip(&o, shape, &payload)?;
                    Ok(true)
                });
            }
        }
    }
    // every SEIPDv2 chunk size the builder accepts
    let sizes = [
        ChunkSize::C64B, ChunkSize::C128B, ChunkSize::C256B, ChunkSize::C512B, ChunkSize::C1KiB, ChunkSize::C2KiB, ChunkSize::C4KiB, ChunkSize::C8KiB, ChunkSize::C16KiB,
        ChunkSize::C32KiB, ChunkSize::C64KiB, ChunkSize::C128KiB, ChunkSize::C256KiB, ChunkSize::C512KiB, ChunkSize::C1MiB, ChunkSize::C2MiB, ChunkSize::C4MiB,
    ];
    let shape2 = Shape { text: false, compress: false, sign: 0, enc: 2 };
    let build_v2 = |payload: &[u8], cs: ChunkSize, from_reader: bool| -> Result<Vec<u8>, String> {
        let mut rng = ChaCha20Rng::seed_from_u64(9);
        let s2k = StringToKey::new_iterated(&mut rng, Default::default(), 2);
        if from_reader {
            let mut b = MessageBuilder::from_reader("", ChunkedReader::new(payload, Sched::Fixed(512))).seipd_v2(&mut rng, SymmetricKeyAlgorithm::AES128, AeadAlgorithm::Ocb, cs);
            b.encrypt_with_password(&mut rng, s2k, &PW.into()).map_err(|e| format!("(b1) {e}"))?;
            b.to_vec(&mut rng)
        } else {
            let mut b = MessageBuilder::from_bytes("", payload.to_vec()).seipd_v2(&mut rng, SymmetricKeyAlgorithm::AES128, AeadAlgorithm::Ocb, cs);
            b.encrypt_with_password(&mut rng, s2k, &PW.into()).map_err(|e| format!("(b1) {e}"))?;
            b.to_vec(&mut rng)
        }
        .map_err(|e| format!("(b1) building failed: {e}"))
    };
    for (si, cs) in sizes.into_iter().enumerate() {
        let b = cs.as_byte_size() as usize;
        let mut lens = vec![0usize, 1, 100];
        if b <= 32768 {
            lens.push(16385);
            for l in [b.saturating_sub(9), b.saturating_sub(8), b.saturating_sub(7), 2 * b - 8, 2 * b] {
                if l <= 70000 && !lens.contains(&l) {
                    lens.push(l);
                }
            }
        }
        for (li, &len) in lens.iter().enumerate() {
            for (vi, from_reader) in [false, true].into_iter().enumerate() {
                ctx.case(cid(8, si, li, vi, 0), &|| format!("SEIPDv2 chunk size {b} payload len {len} ({}): round trip", if from_reader { "from_reader pieces 512" } else { "from_bytes" }), &mut || {
                    let payload = bin_payload(len);
                    let bytes = build_v2(&payload, cs, from_reader)?;
                    for cons in [Consumer::ReadToEnd, Consumer::Read(4096)] {
                        let o = read_message(keys, shape2, &bytes[..], V1Mode::Default, cons);
                        check_roundtrip(&o, shape2, &payload)?;
                    }
                    Ok(true)
                });
            }
        }

        // (c5) header octet sweep: every value of the version, cipher, AEAD and chunk size octet
        let full = n >= 2 || matches!(cs, ChunkSize::C64B | ChunkSize::C4KiB | ChunkSize::C4MiB);
        let sweep_lens: Vec<usize> = if full { vec![0, 1, 100] } else { vec![1] };
        for (li, &len) in sweep_lens.iter().enumerate() {
            let payload = bin_payload(len);
            let Ok(Ok(bytes)) = catch_unwind(AssertUnwindSafe(|| build_v2(&payload, cs, false))) else { continue };
            let Some((off, hl, _)) = find_seipd(&bytes) else { continue };
            let body = off + hl;
            let octets: &[usize] = if full { &[0, 1, 2, 3] } else { &[3] };
            for &oi in octets {
                let oname = ["version", "cipher", "AEAD", "chunk size"][oi];
                let orig = bytes[body + oi];
                for v in 0..=255u8 {
                    if v == orig {
                        continue;
                    }
                    let conss: &[Consumer] = if n >= 2 { &[Consumer::ReadToEnd, Consumer::Read(7)] } else { &[Consumer::ReadToEnd] };
                    for (ci, cons) in conss.iter().enumerate() {
                        let d = || format!("SEIPDv2 chunk size {b} (octet {:#04x}) payload len {len} from_bytes: {oname} octet of the SEIPDv2 header changed from {orig:#04x} to {v:#04x}; consumer {cons:?}", cs as u8);
                        ctx.case(cid(12, si, li * 4 + oi, v as usize, ci), &d, &mut || {
                            let mut m = bytes.clone();
                            m[body + oi] = v;
                            let o = read_message(keys, shape2, &m[..], V1Mode::Default, *cons);
                            match o.end {
                                Err(_) if o.released.is_empty() => Ok(true),
                                Err((stage, e)) => Err(format!("(c5) {} plaintext octets were released before the failure ({stage}: {e}); with a changed header no chunk can be authentic", o.released.len())),
                                Ok(()) => Err(format!("(c5) the container with a changed {oname} octet was decrypted to a clean end: {} plaintext octets (identical to the payload: {})", o.released.len(), o.released == payload)),
                            }
                        });
                    }
                }
            }
        }
    }
}

/// F6: the stream decryptors used directly (public constructors), every consumer kind incl. Blocks with empty reads:
/// the result equals the read_to_end result (SEIPDv1: equals the plaintext that was encrypted)
fn decryptor_family(ctx: &mut Ctx, n: usize) {
    let mut lens = vec![0usize, 1, 15, 16, 17, 56, 64, 100, 500, 4087, 8170, 8192, 16385];
    if n >= 2 {
        lens.extend([63, 65, 4096, 8169, 8171, 20000]);
    }
    let conss = [Consumer::ReadToEnd, Consumer::Read(1), Consumer::Read(97), Consumer::BufRead, Consumer::Blocks(16), Consumer::Blocks(64), Consumer::Blocks(4096)];
    let alg = SymmetricKeyAlgorithm::AES128;
    let key = [0x42u8; 16];
    for (li, &len) in lens.iter().enumerate() {
        let plain = bin_payload(len);
        // SEIPDv1 (CFB + MDC)
        let ct = catch_unwind(AssertUnwindSafe(|| alg.encrypt_protected(ChaCha20Rng::seed_from_u64(5), &key, &plain).ok())).ok().flatten();
        for (mo, mode) in [Seipdv1ReadMode::default(), Seipdv1ReadMode::Streaming].into_iter().enumerate() {
            for (si, sched) in [Sched::Whole, Sched::Fixed(7)].into_iter().enumerate() {
                for (ci, cons) in conss.into_iter().enumerate() {
                    if len > 600 && matches!(cons, Consumer::Read(1)) && n < 2 {
                        continue;
                    }
                    let d = || format!("SEIPDv1 stream decryptor (AES128, {mode:?}) over {len} plaintext octets, source pieces {}, consumer {cons:?}", sched.name());
                    ctx.case(cid(13, li, mo * 2 + si, ci, 0), &d, &mut || {
                        let Some(ct) = &ct else { return Err("(d1) encrypt_protected failed".into()) };
                        let mut dec = alg.stream_decryptor_protected(mode, &key, ChunkedReader::new(ct, sched.clone())).map_err(|e| format!("(d1) setup: {e}"))?;
                        let (out, res) = consume(&mut dec, cons);
                        res.map_err(|e| format!("(d1) a valid stream failed after {} octets: {e}", out.len()))?;
                        if out != plain {
                            return Err(format!("(d1) decrypted {} octets, the plaintext is {} octets (what read_to_end returns)", out.len(), plain.len()));
                        }
                        Ok(true)
                    });
                }
            }
        }
        // SEIPDv2 (the encrypted data of a message built with a known session key)
        for (vi, cs) in [ChunkSize::C64B, ChunkSize::C4KiB].into_iter().enumerate() {
            let built = catch_unwind(AssertUnwindSafe(|| -> Option<(Vec<u8>, [u8; 32])> {
                let mut rng = ChaCha20Rng::seed_from_u64(6);
                let mut b = MessageBuilder::from_bytes("", plain.clone()).seipd_v2(&mut rng, alg, AeadAlgorithm::Ocb, cs);
                b.set_session_key(key.to_vec().into()).ok()?;
                let m = b.to_vec(&mut rng).ok()?;
                let (off, hl, _) = find_seipd(&m)?;
                let body = &m[off + hl..];
                let salt: [u8; 32] = body[4..36].try_into().ok()?;
                Some((body[36..].to_vec(), salt))
            }))
            .ok()
            .flatten();
            let reference: Option<Vec<u8>> = built.as_ref().and_then(|(data, salt)| {
                catch_unwind(AssertUnwindSafe(|| {
                    let mut dec = pgp::crypto::aead::StreamDecryptor::new_rfc9580(alg, AeadAlgorithm::Ocb, cs, salt, &key, &data[..]).ok()?;
                    let mut out = Vec::new();
                    dec.read_to_end(&mut out).ok()?;
                    Some(out)
                }))
                .ok()
                .flatten()
            });
            for (si, sched) in [Sched::Whole, Sched::Fixed(7)].into_iter().enumerate() {
                for (ci, cons) in conss.into_iter().enumerate() {
                    if len > 600 && matches!(cons, Consumer::Read(1)) && n < 2 {
                        continue;
                    }
                    let d = || format!("SEIPDv2 stream decryptor (AES128/OCB, chunk size {}) over a literal packet of {len} payload octets, source pieces {}, consumer {cons:?}", cs.as_byte_size(), sched.name());
                    ctx.case(cid(13, li, 8 + vi * 2 + si, ci, 0), &d, &mut || {
                        let (Some((data, salt)), Some(reference)) = (&built, &reference) else { return Err("(d1) building / reference decryption (read_to_end over a slice) failed".into()) };
                        if !reference.ends_with(&plain) || reference.len() < plain.len() + 8 {
                            return Err(format!("(d1) read_to_end returns {} octets that do not end with the payload", reference.len()));
                        }
                        let mut dec = pgp::crypto::aead::StreamDecryptor::new_rfc9580(alg, AeadAlgorithm::Ocb, cs, salt, &key, ChunkedReader::new(data, sched.clone())).map_err(|e| format!("(d1) setup: {e}"))?;
                        let (out, res) = consume(&mut dec, cons);
                        res.map_err(|e| format!("(d1) a valid stream failed after {} octets: {e}", out.len()))?;
                        if &out != reference {
                            return Err(format!("(d1) decrypted {} octets, read_to_end returns {} octets", out.len(), reference.len()));
                        }
                        Ok(true)
                    });
                }
            }
        }
    }
}

fn main() {
    let args: Vec<String> = std::env::args().collect();
    let n: usize = args.get(1).and_then(|s| s.parse().ok()).unwrap_or(1).max(1);
    let replay: Option<u64> = args.get(2).and_then(|s| u64::from_str_radix(s, 16).ok());
    std::panic::set_hook(Box::new(|_| {}));

    let fail_limit = std::env::var("C09_FAIL_LIMIT").ok().and_then(|s| s.parse().ok()).unwrap_or(20);
    let mut ctx = Ctx { replay, total: 0, nontrivial: 0, failures: 0, samples: 0, fail_limit, per_family: [0; 16] };
    let keys = catch_unwind(|| Keys { v4: gen_key(11, KeyVersion::V4), v6a: gen_key(12, KeyVersion::V6), v6b: gen_key(13, KeyVersion::V6), other: gen_key(14, KeyVersion::V6) });
    let keys = match keys {
        Ok(k) => k,
        Err(_) => {
            println!("FAIL hex=0 text=\"key generation\" (panic) generating the seeded Ed25519 test keys panicked");
            println!("RESULT total=1 nontrivial=1 failures=1");
            return;
        }
    };
    armor_family(&mut ctx, n);
    base64_family(&mut ctx, n);
    armored_builder_family(&mut ctx, n);
    tolerance_family(&mut ctx, n);
    message_family(&mut ctx, n, &keys);
    sweeps(&mut ctx, n, &keys);
    decryptor_family(&mut ctx, n);
    println!(
        "INFO cases per family: armor={} base64={} armored-builder={} reader-tolerance={} header-octet-sweep={} decryptors={} armor-retried-write={} builder={} reader={} reader-source-fault={} integrity={} seipdv1-sweep={} seipdv2-chunk-sizes={}",
        ctx.per_family[1], ctx.per_family[9], ctx.per_family[10], ctx.per_family[11], ctx.per_family[12], ctx.per_family[13], ctx.per_family[6], ctx.per_family[2], ctx.per_family[3], ctx.per_family[4], ctx.per_family[5], ctx.per_family[7], ctx.per_family[8]
    );
    println!("RESULT total={} nontrivial={} failures={}", ctx.total, ctx.nontrivial, ctx.failures);
}
