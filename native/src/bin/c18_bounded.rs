//! C18 bounded stand-in (never counted as proved; the deciding units are U94a/U94b).
//!
//! Runs the REAL `Message::decrypt_the_ring` through the public API on a finite family of scenarios and checks
//! what property C18 states, with an oracle that does not look at the implementation:
//!   message shapes : SEIPDv1/AES128 to {recipient key A addressed | A anonymous (wildcard)} x {no SKESK | v4 SKESK "right pw"}
//!                    (A = Ed25519Legacy primary, subkeys [signing subkey, ECDH encryption subkey]: the encryption
//!                    subkey is NOT the first subkey)
//!   presented      : every subset of at most N of the secrets
//!                    {A, unrelated key B, right password, wrong password, right explicit session key, wrong explicit
//!                    session key}, abort_early in {false, true}
//!   oracle         : (1) only non-recipient secrets presented  => no plaintext (Err from decrypt_the_ring or from reading)
//!                    (2) >= 1 right secret, no wrong explicit session key => the plaintext, whatever else is alongside
//!                    (3) abort_early == false, a right secret AND the wrong explicit session key => Err (conflict)
//!                    (4) never a panic
//! Its second purpose is robustness: when a change of find_session_key leaves the Verus subset (U94a/b undecided),
//! this check still decides the scenarios above and prints a concrete failing ring.
//! usage: c18_bounded <N> [replay-scenario-hex]
use pgp::composed::{
    decrypt_session_key_with_password, Esk, KeyType, Message, MessageBuilder, PlainSessionKey, SecretKeyParamsBuilder,
    SignedSecretKey, SubkeyParamsBuilder, TheRing,
};
use pgp::crypto::{ecc_curve::ECCCurve, sym::SymmetricKeyAlgorithm};
use pgp::types::{KeyDetails, Password, StringToKey};
use rand::SeedableRng;
use rand_chacha::ChaCha20Rng;

const PLAINTEXT: &[u8] = b"hello recipients";

fn gen_key(seed: u64, uid: &str) -> SignedSecretKey {
    let mut rng = ChaCha20Rng::seed_from_u64(seed);
    let sign_sub = SubkeyParamsBuilder::default()
        .key_type(KeyType::Ed25519Legacy)
        .can_sign(true)
        .build()
        .expect("subkey params");
    let enc_sub = SubkeyParamsBuilder::default()
        .key_type(KeyType::ECDH(ECCCurve::Curve25519Legacy))
        .can_encrypt(pgp::composed::EncryptionCaps::All)
        .build()
        .expect("subkey params");
    let params = SecretKeyParamsBuilder::default()
        .key_type(KeyType::Ed25519Legacy)
        .can_certify(true)
        .can_sign(true)
        .primary_user_id(uid.into())
        .subkeys(vec![sign_sub, enc_sub])
        .build()
        .expect("key params");
    params.generate(&mut rng).expect("generate")
}

struct Shape {
    anonymous: bool,
    with_skesk: bool,
}

fn build_message(shape: &Shape, a: &SignedSecretKey) -> Vec<u8> {
    let mut rng = ChaCha20Rng::seed_from_u64(7);
    let enc_pub = a.secret_subkeys[1].public_key();
    let mut b = MessageBuilder::from_bytes("", PLAINTEXT.to_vec()).seipd_v1(&mut rng, SymmetricKeyAlgorithm::AES128);
    if shape.anonymous {
        b.encrypt_to_key_anonymous(&mut rng, &enc_pub).expect("pkesk");
    } else {
        b.encrypt_to_key(&mut rng, &enc_pub).expect("pkesk");
    }
    if shape.with_skesk {
        let s2k = StringToKey::new_iterated(&mut rng, Default::default(), 2);
        b.encrypt_with_password(s2k, &"right pw".into()).expect("skesk");
    }
    b.to_vec(&mut rng).expect("message")
}

fn main() {
    let args: Vec<String> = std::env::args().collect();
    let n: usize = args.get(1).and_then(|s| s.parse().ok()).unwrap_or(3);
    let replay: Option<u32> = args.get(2).and_then(|s| u32::from_str_radix(s, 16).ok());

    let key_a = gen_key(1, "a <a@example.org>");
    let key_b = gen_key(2, "b <b@example.org>");
    assert!(key_a.fingerprint() != key_b.fingerprint());
    let empty = Password::empty();
    let right_pw = Password::from("right pw");

    let shapes = [
        Shape { anonymous: false, with_skesk: false },
        Shape { anonymous: true, with_skesk: false },
        Shape { anonymous: false, with_skesk: true },
        Shape { anonymous: true, with_skesk: true },
    ];
    let (mut total, mut nontrivial, mut failures) = (0u64, 0u64, 0u64);
    for (si, shape) in shapes.iter().enumerate() {
        let bytes = build_message(shape, &key_a);
        // the session key of this message, obtained independently (recipient key alone, abort_early)
        let right_sk: PlainSessionKey = {
            let m = Message::from_bytes(&bytes[..]).expect("parse");
            let ring = TheRing { secret_keys: vec![&key_a], key_passwords: vec![&empty], ..Default::default() };
            match m.decrypt_the_ring(ring, true) {
                Ok(_) => {}
                Err(e) => {
                    // the intended recipient alone cannot decrypt: report as failure of clause (2)
                    println!("FAIL hex={:x} text=\"shape {} recipient key alone\" (2) recipient key alone does not decrypt: {}", (si as u32) << 8 | 1, si, short(&e.to_string()));
                    failures += 1;
                }
            }
            // recover the key through the SKESK when there is one, otherwise through the explicit-session-key path:
            // decrypt with A, abort_early, and read the session key from the PKESK via the subkey directly
            let m = Message::from_bytes(&bytes[..]).expect("parse");
            let Message::Encrypted { esk, .. } = &m else { panic!("not encrypted") };
            let mut sk = None;
            for e in esk {
                if let Esk::SymKeyEncryptedSessionKey(s) = e {
                    sk = decrypt_session_key_with_password(s, &right_pw).ok();
                }
            }
            match sk {
                Some(k) => k,
                None => {
                    // no SKESK: decrypt the PKESK with the encryption subkey
                    let mut found = None;
                    for e in esk {
                        if let Esk::PublicKeyEncryptedSessionKey(p) = e {
                            if let Ok(values) = p.values() {
                                use pgp::types::DecryptionKey;
                                let typ = match p.version() {
                                    pgp::types::PkeskVersion::V6 => pgp::types::EskType::V6,
                                    _ => pgp::types::EskType::V3_4,
                                };
                                if let Ok(Ok(k)) = key_a.secret_subkeys[1].key.decrypt(&empty, values, typ) {
                                    found = Some(k);
                                }
                            }
                        }
                    }
                    found.expect("session key of the message")
                }
            }
        };
        let wrong_sk = PlainSessionKey::V3_4 { sym_alg: SymmetricKeyAlgorithm::AES128, key: vec![0x42u8; 16].into() };
        assert!(wrong_sk != right_sk);
        // a wrong password that the SKESK REFUSES (v4 SKESKs accept a few in 256 wrong passwords as plausible)
        let wrong_pw = {
            let m = Message::from_bytes(&bytes[..]).expect("parse");
            let Message::Encrypted { esk, .. } = &m else { panic!("not encrypted") };
            let mut pw = Password::from("wrong pw 0");
            'search: for k in 0..10_000u32 {
                pw = Password::from(format!("wrong pw {k}"));
                for e in esk {
                    if let Esk::SymKeyEncryptedSessionKey(s) = e {
                        if decrypt_session_key_with_password(s, &pw).is_ok() {
                            continue 'search;
                        }
                    }
                }
                break;
            }
            pw
        };

        // secrets: bit 0 A, 1 B, 2 right pw, 3 wrong pw, 4 right session key, 5 wrong session key
        for mask in 0u32..64 {
            if mask.count_ones() as usize > n || mask == 0 {
                continue;
            }
            for abort_early in [false, true] {
                let id = (si as u32) << 8 | mask << 1 | (abort_early as u32);
                if let Some(r) = replay {
                    if r != id {
                        continue;
                    }
                }
                total += 1;
                let has = |b: u32| mask & (1 << b) != 0;
                let right_pw_counts = has(2) && shape.with_skesk;
                let any_right = has(0) || right_pw_counts || has(4);
                let mut ring = TheRing::default();
                if has(1) {
                    ring.secret_keys.push(&key_b);
                }
                if has(0) {
                    ring.secret_keys.push(&key_a);
                }
                ring.key_passwords.push(&empty);
                if has(3) {
                    ring.message_password.push(&wrong_pw);
                }
                if has(2) {
                    ring.message_password.push(&right_pw);
                }
                if has(5) {
                    ring.session_keys.push(wrong_sk.clone());
                }
                if has(4) {
                    ring.session_keys.push(right_sk.clone());
                }
                let desc = format!(
                    "shape {si} (anonymous={}, skesk={}) ring[{}{}{}{}{}{}] abort_early={abort_early}",
                    shape.anonymous, shape.with_skesk,
                    if has(0) { "A " } else { "" }, if has(1) { "B " } else { "" }, if has(2) { "right-pw " } else { "" },
                    if has(3) { "wrong-pw " } else { "" }, if has(4) { "right-sk " } else { "" }, if has(5) { "wrong-sk " } else { "" }
                );
                let bytes2 = bytes.clone();
                let outcome = std::panic::catch_unwind(std::panic::AssertUnwindSafe(|| {
                    let m = Message::from_bytes(&bytes2[..]).expect("parse");
                    match m.decrypt_the_ring(ring, abort_early) {
                        Err(e) => Err(short(&e.to_string())),
                        Ok((mut dec, _)) => match dec.as_data_vec() {
                            Ok(d) => Ok(d),
                            Err(e) => Err(format!("reading: {}", short(&e.to_string()))),
                        },
                    }
                }));
                let mut fail = |why: String| {
                    failures += 1;
                    println!("FAIL hex={id:x} text=\"{desc}\" {why}");
                };
                match outcome {
                    Err(_) => fail("(4) panic".into()),
                    Ok(res) => {
                        if !any_right {
                            nontrivial += 1;
                            if let Ok(d) = &res {
                                fail(format!("(1) only non-recipient secrets presented, but data came out ({} octets, equal to the plaintext: {})", d.len(), d == PLAINTEXT));
                            }
                        } else if !has(5) {
                            nontrivial += 1;
                            match &res {
                                Ok(d) if d == PLAINTEXT => {}
                                Ok(d) => fail(format!("(2) a right secret was presented, got different data ({} octets)", d.len())),
                                Err(e) => fail(format!("(2) a right secret was presented (with unrelated ones alongside), decryption failed: {e}")),
                            }
                        } else if !abort_early {
                            nontrivial += 1;
                            if let Ok(d) = &res {
                                fail(format!("(3) a right secret and a conflicting explicit session key were presented with abort_early=false, no conflict reported (data {} octets, plaintext: {})", d.len(), d == PLAINTEXT));
                            }
                        }
                    }
                }
                if total <= 3 {
                    println!("SAMPLE {desc}");
                }
            }
        }
    }
    println!("RESULT total={total} nontrivial={nontrivial} failures={failures}");
}

fn short(s: &str) -> String {
    s.chars().take(120).collect::<String>().replace('\n', " ")
}
