//! C05 / C17 bounded companion (never counted as proved; the deciding units are the Verus units of C05 and C17).
//!
//! Runs the REAL packet layer (`PacketParser`, `Packet`, `PacketTrait`, `Serialize`, the packet constructors)
//! through the public API on an exhaustively enumerated finite family and checks wire fidelity (C05) and packet
//! framing (C17) with an oracle that does not look at the implementation: an INDEPENDENT RFC 9580 4.2 header
//! encoder/decoder written in this file, and packet bodies assembled octet by octet from RFC 9580 section 5.
//!
//! Families (N = window around every length boundary, and size of some value ranges):
//!   H  header level: PacketHeader::from_parts / try_from_reader / write_len, PacketLength::try_from_reader on all
//!      256 first length octets, PacketHeaderVersion::write_header / header_len, at all body-length boundaries
//!   W  wire level: hand-built bodies of every packet type that needs no cryptography (User ID, Literal b/t/u with
//!      file names of 0,1,254,255 octets, Marker, Padding, Trust, MDC, Compressed, SED, SEIPD v1/v2, User Attribute
//!      (jpeg v1 / unknown format / unknown version / unknown type, minimal and five-octet subpacket length), SKESK v4
//!      + unknown versions, OPS v3/v6/unknown, PKESK v3/v6/unknown, Public Key / Public Subkey v3/v4/v6
//!      (RSA, Ed25519, EdDSALegacy, ECDH, X25519, unknown; ECDSA/ECDH/EdDSALegacy on unknown curves whose OID arcs sit
//!      on every base-128 boundary), GnuPG AEAD data (type 20), Signature v3/v4/v6/unknown with every subpacket kind)
//!      with body lengths b-N..b+N-1 around b in {192, 256, 8384, 65536} plus small ones, framed in new format
//!      (minimal and five-octet length), legacy format (minimal length type, and indeterminate), partial chunks.
//!   A  API level: objects built or modified through the public API (UserId::from_str, Padding::new,
//!      LiteralData::from_bytes, UserAttribute::new_image, OnePassSignature::v3/v6, KeyFlags setters,
//!      Subpacket::regular, Signature::from_config, unhashed_subpacket_push/insert/remove)
//! Oracle clauses:
//!   (a) framing: PacketParser splits `packet ++ sentinel packet` into exactly these two packets
//!   (b) canonical bytes: to_bytes / to_writer_with_header of the parsed packet == the input octets
//!   (c) truthful length: write_len() / write_len_with_header() == number of octets written
//!   (d) re-parsing the output gives an equal value
//!   (f) the independent RFC 9580 4.2 reader frames the library's output into the same (tag, body)
//!   (g) the parsed value means what the octets say (User ID, Literal, Key Flags accessors)
//!   (r) partial body lengths are rejected where RFC 9580 4.2.1.4 forbids them (first chunk 2^0..2^8 on every tag that
//!       may carry them: 8, 9, 11, 18, 20, with the 512-octet chunk as accepted control; any partial length elsewhere)
//!   (h) header level agreement with the independent codec
//!   (panic) never a panic
//! usage: c05_bounded <N> [replay-case-hex]
use pgp::crypto::hash::HashAlgorithm;
use pgp::crypto::public_key::PublicKeyAlgorithm;
use pgp::packet::{
    KeyFlags, LiteralData, Notation, OnePassSignature, Packet, PacketHeader, PacketParser, PacketTrait, Padding,
    Signature, SignatureConfig, SignatureType, Subpacket, SubpacketData, UserAttribute, UserId,
};
use pgp::ser::Serialize;
use pgp::types::{KeyId, PacketHeaderVersion, PacketLength, SignatureBytes, Tag, Timestamp};
use rand::SeedableRng;
use rand_chacha::ChaCha20Rng;

// ------------------------------------------------------------------------------------------------
// independent RFC 9580 4.2 codec
// ------------------------------------------------------------------------------------------------

/// RFC 9580 4.2.1.1-4.2.1.3: minimal new-format length octets
fn new_len(len: usize) -> Vec<u8> {
    if len <= 191 {
        vec![len as u8]
    } else if len <= 8383 {
        let v = len - 192;
        vec![(v / 256 + 192) as u8, (v % 256) as u8]
    } else {
        let mut o = vec![0xFF];
        o.extend_from_slice(&(len as u32).to_be_bytes());
        o
    }
}

fn hdr_new(tag: u8, len: usize) -> Vec<u8> {
    let mut o = vec![0xC0 | tag];
    o.extend(new_len(len));
    o
}

fn hdr_new5(tag: u8, len: usize) -> Vec<u8> {
    let mut o = vec![0xC0 | tag, 0xFF];
    o.extend_from_slice(&(len as u32).to_be_bytes());
    o
}

/// RFC 9580 4.2.2: legacy header with the smallest length type that holds `len`
fn hdr_old(tag: u8, len: usize) -> Vec<u8> {
    assert!(tag < 16);
    if len <= 0xFF {
        vec![0x80 | (tag << 2), len as u8]
    } else if len <= 0xFFFF {
        let mut o = vec![0x80 | (tag << 2) | 1];
        o.extend_from_slice(&(len as u16).to_be_bytes());
        o
    } else {
        let mut o = vec![0x80 | (tag << 2) | 2];
        o.extend_from_slice(&(len as u32).to_be_bytes());
        o
    }
}

#[derive(Clone, Debug, PartialEq)]
enum Framing {
    New,
    New5,
    Old,
    OldIndet,
    /// partial chunks 2^e for every e, then a final minimal fixed length chunk with the rest
    Partial(Vec<u8>),
}

fn frame(tag: u8, body: &[u8], f: &Framing) -> Vec<u8> {
    let mut o;
    match f {
        Framing::New => {
            o = hdr_new(tag, body.len());
            o.extend_from_slice(body);
        }
        Framing::New5 => {
            o = hdr_new5(tag, body.len());
            o.extend_from_slice(body);
        }
        Framing::Old => {
            o = hdr_old(tag, body.len());
            o.extend_from_slice(body);
        }
        Framing::OldIndet => {
            o = vec![0x80 | (tag << 2) | 3];
            o.extend_from_slice(body);
        }
        Framing::Partial(exps) => {
            o = vec![0xC0 | tag];
            let mut rest = body;
            for e in exps {
                let l = 1usize << e;
                assert!(rest.len() >= l);
                o.push(224 + e);
                o.extend_from_slice(&rest[..l]);
                rest = &rest[l..];
            }
            o.extend(new_len(rest.len()));
            o.extend_from_slice(rest);
        }
    }
    o
}

/// A conforming reader (RFC 9580 4.2): (tag, body, octets consumed)
fn rfc_read_packet(s: &[u8]) -> Result<(u8, Vec<u8>, usize), String> {
    let need = |p: usize, n: usize| if p + n <= s.len() { Ok(()) } else { Err(format!("truncated at {p}+{n} of {}", s.len())) };
    need(0, 1)?;
    let c = s[0];
    if c & 0x80 == 0 {
        return Err(format!("first octet {c:02x} has bit 7 clear"));
    }
    if c & 0x40 != 0 {
        let tag = c & 0x3F;
        let mut p = 1;
        let mut body = vec![];
        loop {
            need(p, 1)?;
            let o = s[p] as usize;
            p += 1;
            let (l, last) = if o <= 191 {
                (o, true)
            } else if o <= 223 {
                need(p, 1)?;
                let l = ((o - 192) << 8) + s[p] as usize + 192;
                p += 1;
                (l, true)
            } else if o == 255 {
                need(p, 4)?;
                let l = u32::from_be_bytes([s[p], s[p + 1], s[p + 2], s[p + 3]]) as usize;
                p += 4;
                (l, true)
            } else {
                (1usize << (o & 0x1F), false)
            };
            need(p, l)?;
            body.extend_from_slice(&s[p..p + l]);
            p += l;
            if last {
                return Ok((tag, body, p));
            }
        }
    } else {
        let tag = (c >> 2) & 0x0F;
        let (l, p) = match c & 3 {
            0 => {
                need(1, 1)?;
                (s[1] as usize, 2)
            }
            1 => {
                need(1, 2)?;
                (u16::from_be_bytes([s[1], s[2]]) as usize, 3)
            }
            2 => {
                need(1, 4)?;
                (u32::from_be_bytes([s[1], s[2], s[3], s[4]]) as usize, 5)
            }
            _ => (s.len() - 1, 1),
        };
        need(p, l)?;
        Ok((tag, s[p..p + l].to_vec(), p + l))
    }
}

// ------------------------------------------------------------------------------------------------
// infrastructure
// ------------------------------------------------------------------------------------------------

const SENTINEL: &[u8] = b"sentinel";

fn sentinel_packet() -> Vec<u8> {
    let mut o = vec![0xC0 | 13, SENTINEL.len() as u8];
    o.extend_from_slice(SENTINEL);
    o
}

fn is_sentinel(p: &Packet) -> bool {
    matches!(p, Packet::UserId(u) if u.id() == SENTINEL && u.packet_header_version() == PacketHeaderVersion::New)
}

fn fill(len: usize, seed: u32) -> Vec<u8> {
    let mut x = seed.wrapping_mul(2654435761).wrapping_add(0x9E3779B9) | 1;
    (0..len)
        .map(|_| {
            x ^= x << 13;
            x ^= x >> 17;
            x ^= x << 5;
            (x >> 11) as u8
        })
        .collect()
}

fn hexs(b: &[u8]) -> String {
    let n = b.len().min(24);
    let mut s: String = b[..n].iter().map(|x| format!("{x:02x}")).collect();
    if b.len() > n {
        s.push_str(&format!("..({} octets)", b.len()));
    }
    s
}

fn short(s: &str) -> String {
    s.chars().take(160).collect::<String>().replace(['\n', '"'], " ")
}

macro_rules! each_variant {
    ($p:expr, $x:ident, $e:expr) => {
        match $p {
            Packet::CompressedData($x) => $e,
            Packet::PublicKey($x) => $e,
            Packet::PublicSubkey($x) => $e,
            Packet::SecretKey($x) => $e,
            Packet::SecretSubkey($x) => $e,
            Packet::LiteralData($x) => $e,
            Packet::Marker($x) => $e,
            Packet::ModDetectionCode($x) => $e,
            Packet::OnePassSignature($x) => $e,
            Packet::PublicKeyEncryptedSessionKey($x) => $e,
            Packet::Signature($x) => $e,
            Packet::SymEncryptedData($x) => $e,
            Packet::SymEncryptedProtectedData($x) => $e,
            Packet::SymKeyEncryptedSessionKey($x) => $e,
            Packet::Trust($x) => $e,
            Packet::UserAttribute($x) => $e,
            Packet::UserId($x) => $e,
            Packet::Padding($x) => $e,
            Packet::GnupgAeadData($x) => $e,
        }
    };
}

struct Ctx {
    n: usize,
    replay: Option<u64>,
    idx: u64,
    total: u64,
    nontrivial: u64,
    failures: u64,
    printed: u64,
    max_print: u64,
    samples: u64,
}

impl Ctx {
    /// returns true when the case with the next index is to be run
    fn next(&mut self) -> bool {
        self.idx += 1;
        match self.replay {
            Some(r) => r == self.idx,
            None => true,
        }
    }
    fn record(&mut self, desc: &str, applied: bool, res: std::thread::Result<Result<(), String>>) {
        self.total += 1;
        if applied {
            self.nontrivial += 1;
        }
        let why = match res {
            Ok(Ok(())) => {
                if self.samples < 3 && self.total % 997 == 1 {
                    self.samples += 1;
                    println!("SAMPLE {}", short(desc));
                }
                return;
            }
            Ok(Err(e)) => e,
            Err(_) => "(panic) the library panicked".to_string(),
        };
        self.failures += 1;
        if self.printed < self.max_print {
            self.printed += 1;
            println!("FAIL hex={:x} text=\"{}\" {}", self.idx, short(desc), short(&why));
        }
    }
}

#[derive(Clone, Copy, PartialEq)]
enum Kind {
    /// the body is a canonical encoding: all clauses apply
    Canonical,
    /// the library documents that it drops the body (Trust): framing, length and panic clauses only
    BodyDropped,
}

#[derive(Clone)]
enum Sem {
    None,
    UserId,
    Literal { mode: u8, name_len: usize },
    /// the (first) Key Flags subpacket of the signature carries these octets
    KeyFlags(Vec<u8>),
}

fn parse_all(stream: &[u8]) -> Vec<Result<Packet, String>> {
    PacketParser::new(stream).take(8).map(|r| r.map_err(|e| short(&e.to_string()))).collect()
}

/// Clauses (c), (f), (d) (and (b) through expect_*) on a packet value.
fn object_checks(p: &Packet, expect_body: Option<&[u8]>, expect_out: Option<&[u8]>, full_eq: bool, indet: bool) -> Result<(), String> {
    let out = p.to_bytes().map_err(|e| format!("(c) to_bytes failed: {e}"))?;
    if p.write_len() != out.len() {
        return Err(format!("(c) Packet::write_len() = {} but {} octets are written", p.write_len(), out.len()));
    }
    let (body, wl, wlh, outh) = each_variant!(p, x, {
        let mut v = vec![];
        let r = x.to_writer_with_header(&mut v).map(|_| v);
        (x.to_bytes(), x.write_len(), x.write_len_with_header(), r)
    });
    let body = body.map_err(|e| format!("(c) body to_bytes failed: {e}"))?;
    let outh = outh.map_err(|e| format!("(c) to_writer_with_header failed: {e}"))?;
    if wl != body.len() {
        return Err(format!("(c) write_len() = {wl} but the body written has {} octets", body.len()));
    }
    if wlh != outh.len() {
        return Err(format!("(c) write_len_with_header() = {wlh} but to_writer_with_header writes {} octets", outh.len()));
    }
    if outh != out {
        return Err("(c) Packet::to_writer and to_writer_with_header disagree".into());
    }
    // (f) conforming reader
    let (t, b, used) = rfc_read_packet(&out).map_err(|e| format!("(f) a conforming reader cannot frame the output {}: {e}", hexs(&out)))?;
    if used != out.len() {
        return Err(format!(
            "(f) output header {} announces a packet of {used} octets, {} octets were written",
            hexs(&out[..out.len().min(6)]),
            out.len()
        ));
    }
    if t != u8::from(p.tag()) {
        return Err(format!("(f) output carries tag {t}, packet has tag {:?}", p.tag()));
    }
    if b != body {
        return Err("(f) body framed by a conforming reader differs from the body written".into());
    }
    if let Some(eb) = expect_body {
        if b != eb {
            return Err(format!("(b) body changed: input {} output {}", hexs(eb), hexs(&b)));
        }
    }
    if let Some(eo) = expect_out {
        if out != eo {
            let k = (0..out.len().min(eo.len())).find(|&i| out[i] != eo[i]).unwrap_or(out.len().min(eo.len()));
            return Err(format!(
                "(b) canonical input does not re-serialize identically: {} octets in, {} out, first difference at {k}: in {} out {}",
                eo.len(),
                out.len(),
                hexs(&eo[k.saturating_sub(3)..]),
                hexs(&out[k.saturating_sub(3).min(out.len())..])
            ));
        }
    }
    // (d) re-parse
    let mut stream;
    if indet {
        stream = sentinel_packet();
        stream.extend_from_slice(&out);
    } else {
        stream = out.clone();
        stream.extend(sentinel_packet());
    }
    let items = parse_all(&stream);
    if items.len() != 2 {
        return Err(format!("(d) output ++ sentinel parses into {} packets instead of 2: {:?}", items.len(), items.iter().map(|i| i.as_ref().map(|p| p.tag()).map_err(|e| e.clone())).collect::<Vec<_>>()));
    }
    let (first, second) = if indet { (&items[1], &items[0]) } else { (&items[0], &items[1]) };
    let first = first.as_ref().map_err(|e| format!("(d) own output does not parse: {e}"))?;
    match second {
        Ok(s) if is_sentinel(s) => {}
        other => return Err(format!("(d) the packet after the output is not the sentinel: {:?}", other.as_ref().map(|p| p.tag()))),
    }
    if full_eq {
        if first != p {
            return Err("(d) re-parsed output is not equal to the value".into());
        }
    } else {
        let again = first.to_bytes().map_err(|e| format!("(d) {e}"))?;
        if again != out || first.tag() != p.tag() {
            return Err("(d) re-parsed output serializes differently".into());
        }
    }
    Ok(())
}

fn sem_check(p: &Packet, body: &[u8], sem: &Sem) -> Result<(), String> {
    match sem {
        Sem::None => Ok(()),
        Sem::UserId => match p {
            Packet::UserId(u) if u.id() == body => Ok(()),
            _ => Err("(g) User ID value differs from the body octets".into()),
        },
        Sem::Literal { mode, name_len } => match p {
            Packet::LiteralData(l) => {
                if l.file_name().as_ref() != &body[2..2 + name_len] {
                    return Err("(g) literal file name differs".into());
                }
                if l.data() != &body[6 + name_len..] {
                    return Err("(g) literal data differs".into());
                }
                if l.is_binary() != (*mode == b'b') {
                    return Err("(g) literal mode differs".into());
                }
                Ok(())
            }
            _ => Err("(g) not a literal".into()),
        },
        Sem::KeyFlags(f) => match p {
            Packet::Signature(s) => {
                let k = s.key_flags();
                let a = f.first().copied().unwrap_or(0);
                let b = f.get(1).copied().unwrap_or(0);
                let got = [
                    k.certify(), k.sign(), k.encrypt_comms(), k.encrypt_storage(), k.shared(), k.authentication(), k.group(),
                    k.adsk(), k.timestamping(),
                ];
                let want = [a & 1 != 0, a & 2 != 0, a & 4 != 0, a & 8 != 0, a & 0x10 != 0, a & 0x20 != 0, a & 0x80 != 0, b & 4 != 0, b & 8 != 0];
                if got != want {
                    return Err(format!("(g) key flags {} read as {:?}", hexs(f), got));
                }
                Ok(())
            }
            _ => Err("(g) not a signature".into()),
        },
    }
}

/// One wire-level case: `frame(tag, body)` next to a sentinel packet.
fn wire_case(ctx: &mut Ctx, what: &str, tag: u8, body: &[u8], f: &Framing, kind: Kind, sem: &Sem) {
    if !ctx.next() {
        return;
    }
    let desc = format!("W {what}: tag {tag}, body {} octets, framing {:?}, body {}", body.len(), f, hexs(body));
    let framed = frame(tag, body, f);
    let indet = *f == Framing::OldIndet;
    let mut stream;
    if indet {
        stream = sentinel_packet();
        stream.extend_from_slice(&framed);
    } else {
        stream = framed.clone();
        stream.extend(sentinel_packet());
    }
    let res = std::panic::catch_unwind(std::panic::AssertUnwindSafe(|| -> Result<(), String> {
        let items = parse_all(&stream);
        if items.len() != 2 {
            return Err(format!(
                "(a) stream of 2 packets (header {}) parses into {} items: {:?}",
                hexs(&framed[..framed.len().min(6)]),
                items.len(),
                items.iter().map(|i| i.as_ref().map(|p| p.tag()).map_err(|e| e.clone())).collect::<Vec<_>>()
            ));
        }
        let (first, second) = if indet { (&items[1], &items[0]) } else { (&items[0], &items[1]) };
        let p = first.as_ref().map_err(|e| format!("(a) packet (header {}) rejected: {e}", hexs(&framed[..framed.len().min(6)])))?;
        match second {
            Ok(s) if is_sentinel(s) => {}
            other => return Err(format!("(a) the neighbour packet is not read back as the sentinel: {:?}", other.as_ref().map(|p| p.tag()))),
        }
        if u8::from(p.tag()) != tag {
            return Err(format!("(a) tag {tag} read as {:?}", p.tag()));
        }
        let canonical_framing = matches!(f, Framing::New | Framing::Old | Framing::OldIndet);
        match kind {
            Kind::Canonical => {
                object_checks(p, Some(body), if canonical_framing { Some(&framed) } else { None }, canonical_framing, indet)?;
                sem_check(p, body, sem)
            }
            Kind::BodyDropped => object_checks(p, if body.is_empty() { Some(body) } else { None }, if body.is_empty() && canonical_framing { Some(&framed) } else { None }, body.is_empty() && canonical_framing, indet),
        }
    }));
    ctx.record(&desc, true, res);
}

/// A stream the parser must refuse (first item is an error).
fn reject_case(ctx: &mut Ctx, what: &str, stream: &[u8]) {
    if !ctx.next() {
        return;
    }
    let desc = format!("W reject {what}: {}", hexs(stream));
    let res = std::panic::catch_unwind(std::panic::AssertUnwindSafe(|| -> Result<(), String> {
        let items = parse_all(stream);
        match items.first() {
            Some(Err(_)) => Ok(()),
            Some(Ok(p)) => Err(format!("(r) accepted as {:?} although RFC 9580 4.2.1.4 forbids this partial body length", p.tag())),
            None => Err("(r) no item at all".into()),
        }
    }));
    ctx.record(&desc, true, res);
}

/// An API-built or API-modified object.
fn api_case(ctx: &mut Ctx, what: &str, build: impl FnOnce() -> Result<(Packet, Option<Vec<u8>>), String>) {
    api_case_eq(ctx, what, true, build)
}

/// `full_eq` = false: the re-parsed value is compared through its serialization only (used where the in-memory
/// representation legitimately differs, e.g. KeyFlags built with the setters vs parsed from two octets)
fn api_case_eq(ctx: &mut Ctx, what: &str, full_eq: bool, build: impl FnOnce() -> Result<(Packet, Option<Vec<u8>>), String>) {
    if !ctx.next() {
        return;
    }
    let desc = format!("A {what}");
    let res = std::panic::catch_unwind(std::panic::AssertUnwindSafe(|| -> Result<(), String> {
        let (p, expect_out) = build()?;
        object_checks(&p, None, expect_out.as_deref(), full_eq, false)
    }));
    ctx.record(&desc, true, res);
}

fn plain_case(ctx: &mut Ctx, desc: String, check: impl FnOnce() -> Result<(), String>) {
    if !ctx.next() {
        return;
    }
    let res = std::panic::catch_unwind(std::panic::AssertUnwindSafe(check));
    ctx.record(&desc, true, res);
}

/// body lengths: small ones and b-N..b+N-1 around every header-length boundary
fn lens(n: usize) -> Vec<usize> {
    let mut v = vec![0usize, 1, 2, 3, 100, 1000, 10000];
    for b in [192usize, 256, 8384, 65536] {
        for l in b - n..b + n {
            v.push(l);
        }
    }
    v.sort();
    v.dedup();
    v
}

// ------------------------------------------------------------------------------------------------
// family H: header level
// ------------------------------------------------------------------------------------------------

fn family_h(ctx: &mut Ctx) {
    // every first length octet of a new-format header
    for o in 0u16..=255 {
        let o = o as u8;
        plain_case(ctx, format!("H PacketLength::try_from_reader on length octets {o:02x} 12 34 56 78"), || {
            let raw = [o, 0x12, 0x34, 0x56, 0x78];
            let got = PacketLength::try_from_reader(&raw[..]).map_err(|e| format!("(h) error {e}"))?;
            let want = if o <= 191 {
                PacketLength::Fixed(o as u32)
            } else if o <= 223 {
                PacketLength::Fixed(((o as u32 - 192) << 8) + 0x12 + 192)
            } else if o == 255 {
                PacketLength::Fixed(0x12345678)
            } else {
                PacketLength::Partial(1u32 << (o & 0x1F))
            };
            if got != want {
                return Err(format!("(h) decoded as {got:?}, RFC 9580 4.2.1 says {want:?}"));
            }
            Ok(())
        });
    }
    let mut ls = lens(ctx.n);
    ls.extend([16319, 16320, 1 << 24, u32::MAX as usize - 1, u32::MAX as usize]);
    for &len in &ls {
        for (ver, vname) in [(PacketHeaderVersion::New, "new"), (PacketHeaderVersion::Old, "old")] {
            for tag in [2u8, 6, 11, 13, 17, 21] {
                if tag >= 16 && ver == PacketHeaderVersion::Old {
                    continue;
                }
                let want = if ver == PacketHeaderVersion::New { hdr_new(tag, len) } else { hdr_old(tag, len) };
                plain_case(ctx, format!("H PacketHeader::from_parts({vname}, tag {tag}, Fixed({len}))"), || {
                    let h = PacketHeader::from_parts(ver, Tag::from(tag), PacketLength::Fixed(len as u32)).map_err(|e| format!("(h) {e}"))?;
                    let b = h.to_bytes().map_err(|e| format!("(h) {e}"))?;
                    if b != want {
                        return Err(format!("(h) header written as {}, RFC 9580 4.2 encoding is {}", hexs(&b), hexs(&want)));
                    }
                    if h.write_len() != b.len() {
                        return Err(format!("(c) header write_len {} but {} octets written", h.write_len(), b.len()));
                    }
                    let back = PacketHeader::try_from_reader(&want[..]).map_err(|e| format!("(h) {e}"))?;
                    if back != h {
                        return Err(format!("(h) {} reads back as {back:?}, built {h:?}", hexs(&want)));
                    }
                    if back.packet_length() != PacketLength::Fixed(len as u32) || u8::from(back.tag()) != tag || back.version() != ver {
                        return Err(format!("(h) {} reads back as {back:?}", hexs(&want)));
                    }
                    let mut w = vec![];
                    ver.write_header(&mut w, Tag::from(tag), len).map_err(|e| format!("(h) {e}"))?;
                    if w != want {
                        return Err(format!("(h) write_header gives {}, RFC 9580 4.2 encoding is {}", hexs(&w), hexs(&want)));
                    }
                    if ver.header_len(len) != want.len() {
                        return Err(format!("(c) header_len {} but header has {} octets", ver.header_len(len), want.len()));
                    }
                    Ok(())
                });
            }
        }
        // the five-octet form of any length reads back as that length
        plain_case(ctx, format!("H five-octet new-format length {len}"), || {
            let raw = hdr_new5(13, len);
            let back = PacketHeader::try_from_reader(&raw[..]).map_err(|e| format!("(h) {e}"))?;
            if back.packet_length() != PacketLength::Fixed(len as u32) {
                return Err(format!("(h) {} reads back as {back:?}", hexs(&raw)));
            }
            Ok(())
        });
    }
    for e in 0u8..=30 {
        plain_case(ctx, format!("H partial length 2^{e}"), || {
            let h = PacketHeader::from_parts(PacketHeaderVersion::New, Tag::LiteralData, PacketLength::Partial(1 << e)).map_err(|e| format!("(h) {e}"))?;
            let b = h.to_bytes().map_err(|e| format!("(h) {e}"))?;
            if b != vec![0xC0 | 11, 224 + e] {
                return Err(format!("(h) written as {}", hexs(&b)));
            }
            if h.write_len() != 2 {
                return Err(format!("(c) write_len {}", h.write_len()));
            }
            let back = PacketHeader::try_from_reader(&b[..]).map_err(|e| format!("(h) {e}"))?;
            if back != h {
                return Err(format!("(h) reads back as {back:?}"));
            }
            Ok(())
        });
    }
    for tag in 0u8..16 {
        plain_case(ctx, format!("H legacy indeterminate header tag {tag}"), || {
            let raw = [0x80 | (tag << 2) | 3, 0xAA];
            let back = PacketHeader::try_from_reader(&raw[..]).map_err(|e| format!("(h) {e}"))?;
            if back.packet_length() != PacketLength::Indeterminate || u8::from(back.tag()) != tag || back.version() != PacketHeaderVersion::Old {
                return Err(format!("(h) reads back as {back:?}"));
            }
            let b = back.to_bytes().map_err(|e| format!("(h) {e}"))?;
            if b != raw[..1] || back.write_len() != 1 {
                return Err(format!("(h) written as {} write_len {}", hexs(&b), back.write_len()));
            }
            Ok(())
        });
    }
}

// ------------------------------------------------------------------------------------------------
// family W: hand-built bodies
// ------------------------------------------------------------------------------------------------

/// RFC 9580 3.2 MPI with the exact bit count; `bytes[0]` must be non-zero
fn mpi(bytes: &[u8]) -> Vec<u8> {
    assert!(!bytes.is_empty() && bytes[0] != 0);
    let bits = bytes.len() * 8 - bytes[0].leading_zeros() as usize;
    let mut o = (bits as u16).to_be_bytes().to_vec();
    o.extend_from_slice(bytes);
    o
}

/// an odd number of exactly `len` octets with the top bit set
fn odd_number(len: usize, seed: u32) -> Vec<u8> {
    let mut v = fill(len, seed);
    v[0] |= 0x80;
    v[len - 1] |= 1;
    v
}

/// RFC 8032 7.1 test 1 public key (a valid Ed25519 point)
const ED_PUB: [u8; 32] = [
    0xd7, 0x5a, 0x98, 0x01, 0x82, 0xb1, 0x0a, 0xb7, 0xd5, 0x4b, 0xfe, 0xd3, 0xc9, 0x64, 0x07, 0x3a, 0x0e, 0xe1, 0x72, 0xf3, 0xda, 0xa6,
    0x23, 0x25, 0xaf, 0x02, 0x1a, 0x68, 0xf7, 0x07, 0x51, 0x1a,
];
const OID_ED25519_LEGACY: [u8; 9] = [0x2B, 0x06, 0x01, 0x04, 0x01, 0xDA, 0x47, 0x0F, 0x01];
const OID_CV25519_LEGACY: [u8; 10] = [0x2B, 0x06, 0x01, 0x04, 0x01, 0x97, 0x55, 0x01, 0x05, 0x01];

/// X.690 8.19: one OID sub-identifier, base 128, most significant group first, continuation bit on all but the last
fn oid_arc(v: u32) -> Vec<u8> {
    let mut groups = vec![(v & 0x7F) as u8];
    let mut r = v >> 7;
    while r > 0 {
        groups.push(0x80 | (r & 0x7F) as u8);
        r >>= 7;
    }
    groups.reverse();
    groups
}

/// RFC 9580 5.2.3.7 / 5.12: minimal subpacket length octets
fn sub_len_min(len: usize) -> Vec<u8> {
    if len <= 191 {
        vec![len as u8]
    } else if len <= 16319 {
        let v = len - 192;
        vec![(v / 256 + 192) as u8, (v % 256) as u8]
    } else {
        sub_len5(len)
    }
}

fn sub_len5(len: usize) -> Vec<u8> {
    let mut o = vec![0xFF];
    o.extend_from_slice(&(len as u32).to_be_bytes());
    o
}

/// prefix ++ filler so that the body has exactly `target` octets (None when the prefix alone is longer)
fn padded(prefix: &[u8], target: usize, seed: u32) -> Option<Vec<u8>> {
    if target < prefix.len() {
        return None;
    }
    let mut b = prefix.to_vec();
    b.extend(fill(target - prefix.len(), seed));
    Some(b)
}

fn cat(parts: &[&[u8]]) -> Vec<u8> {
    parts.iter().flat_map(|p| p.iter().copied()).collect()
}

/// all canonical framings of a body (new minimal, new five-octet, legacy minimal; legacy indeterminate on request)
fn all_framings(ctx: &mut Ctx, what: &str, tag: u8, body: &[u8], kind: Kind, sem: &Sem, indet: bool) {
    wire_case(ctx, what, tag, body, &Framing::New, kind, sem);
    wire_case(ctx, what, tag, body, &Framing::New5, kind, sem);
    if tag < 16 {
        wire_case(ctx, what, tag, body, &Framing::Old, kind, sem);
        if indet {
            wire_case(ctx, what, tag, body, &Framing::OldIndet, kind, sem);
        }
    }
}

/// (name, tag, prefix of the body; the rest of the body is opaque to the packet layer)
fn opaque_types() -> Vec<(String, u8, Vec<u8>)> {
    let keyid = [0x11u8, 0x22, 0x33, 0x44, 0x55, 0x66, 0x77, 0x88];
    let salt8 = [0xA1u8, 0xA2, 0xA3, 0xA4, 0xA5, 0xA6, 0xA7, 0xA8];
    let ts = [0x5Eu8, 0x0B, 0xE1, 0x00];
    let fp20 = fill(20, 20);
    let fp32 = fill(32, 32);
    let mut v: Vec<(String, u8, Vec<u8>)> = vec![
        ("User ID".into(), 13, vec![]),
        ("Padding".into(), 21, vec![]),
        ("Symmetrically Encrypted Data".into(), 9, vec![]),
        ("Compressed Data (uncompressed)".into(), 8, vec![0]),
        ("Compressed Data (zlib id, opaque)".into(), 8, vec![2]),
        ("SEIPD v1".into(), 18, vec![1]),
        ("SEIPD v2".into(), 18, cat(&[&[2, 9, 2, 6], &fill(32, 5)])),
        ("GnuPG AEAD Data (type 20) v1 OCB".into(), 20, cat(&[&[1, 9, 2, 6], &fill(15, 20)])),
        ("SKESK v4 simple S2K".into(), 3, vec![4, 9, 0, 8]),
        ("SKESK v4 salted S2K".into(), 3, cat(&[&[4, 9, 1, 8], &salt8])),
        ("SKESK v4 iterated S2K".into(), 3, cat(&[&[4, 7, 3, 10], &salt8, &[0x60]])),
        ("SKESK v4 argon2 S2K".into(), 3, cat(&[&[4, 9, 4], &fill(16, 6), &[1, 4, 21]])),
        ("SKESK v4 reserved S2K 2".into(), 3, vec![4, 9, 2]),
        ("SKESK v4 private S2K 105".into(), 3, vec![4, 9, 105]),
        ("SKESK v4 unknown S2K 77".into(), 3, vec![4, 9, 77]),
        ("SKESK unknown version 7".into(), 3, vec![7]),
        ("SKESK unknown version 255".into(), 3, vec![255]),
        ("PKESK v3 unknown algorithm 99".into(), 1, cat(&[&[3], &keyid, &[99]])),
        ("PKESK v3 DSA id (opaque)".into(), 1, cat(&[&[3], &keyid, &[17]])),
        ("PKESK v3 ECDSA id (opaque)".into(), 1, cat(&[&[3], &keyid, &[19]])),
        ("PKESK v3 wildcard key id".into(), 1, cat(&[&[3], &[0u8; 8], &[99]])),
        ("PKESK v6 anonymous, unknown algorithm".into(), 1, vec![6, 0, 99]),
        ("PKESK v6 v4 fingerprint".into(), 1, cat(&[&[6, 21, 4], &fp20, &[99]])),
        ("PKESK v6 v6 fingerprint".into(), 1, cat(&[&[6, 33, 6], &fp32, &[99]])),
        ("PKESK unknown version 9".into(), 1, vec![9]),
        ("PKESK unknown version 4".into(), 1, vec![4]),
        ("Signature unknown version 9".into(), 2, vec![9]),
        ("Signature unknown version 5".into(), 2, vec![5]),
        ("Signature v4 unknown algorithm, empty areas".into(), 2, vec![4, 0x00, 99, 8, 0, 0, 0, 0, 0xAB, 0xCD]),
        ("Signature v6 unknown algorithm, empty areas".into(), 2, cat(&[&[6, 0x00, 99, 8, 0, 0, 0, 0, 0, 0, 0, 0, 0xAB, 0xCD, 16], &fill(16, 7)])),
        ("Signature v3 unknown algorithm".into(), 2, cat(&[&[3, 5, 0x00], &ts, &keyid, &[99, 8, 0xAB, 0xCD]])),
    ];
    for (kname, ktag) in [("Public Key", 6u8), ("Public Subkey", 14)] {
        v.push((format!("{kname} v4 unknown algorithm 99"), ktag, cat(&[&[4], &ts, &[99]])));
        v.push((format!("{kname} v4 private algorithm 100"), ktag, cat(&[&[4], &ts, &[100]])));
    }
    v
}

fn family_w_opaque(ctx: &mut Ctx) {
    let ls = lens(ctx.n);
    let none = Sem::None;
    // 1. types whose body ends in an opaque octet string: every boundary length
    for (ti, (name, tag, prefix)) in opaque_types().into_iter().enumerate() {
        for &l in &ls {
            if let Some(body) = padded(&prefix, l, (ti * 131 + l) as u32) {
                let sem = if tag == 13 { Sem::UserId } else { Sem::None };
                // indeterminate legacy length only at a few lengths (it does not depend on the length)
                let indet = l <= 3 || l == 192 || l == 65536;
                all_framings(ctx, &name, tag, &body, Kind::Canonical, &sem, indet);
            }
        }
    }
    // one-pass signature of an unknown version: version, type, hash, algorithm, opaque, last
    for &l in &ls {
        if l >= 5 && l <= 10000 {
            let body = padded(&[9, 0, 8, 1], l, l as u32).unwrap();
            all_framings(ctx, "One-Pass Signature unknown version 9", 4, &body, Kind::Canonical, &none, l == 192);
        }
    }
    // v6 public key of an unknown algorithm: the opaque part is length-prefixed
    for &l in &ls {
        for (kname, ktag) in [("Public Key", 6u8), ("Public Subkey", 14)] {
            if l >= 11 {
                let k = l - 10;
                let body = cat(&[&[6, 0x5E, 0x0B, 0xE1, 0x00, 99], &(k as u32).to_be_bytes(), &fill(k, l as u32)]);
                all_framings(ctx, &format!("{kname} v6 unknown algorithm 99"), ktag, &body, Kind::Canonical, &none, false);
            }
        }
    }
    // Trust: the library documents that it drops the body
    for &l in &ls {
        let body = fill(l, 12);
        all_framings(ctx, "Trust", 12, &body, Kind::BodyDropped, &none, l <= 1);
    }
    // 2. Literal Data: modes b/t/u, file names of 0,1,254,255 octets
    for mode in [b'b', b't', b'u'] {
        for name_len in [0usize, 1, 254, 255] {
            let prefix = cat(&[&[mode, name_len as u8], &fill(name_len, 77), &[0x5E, 0x0B, 0xE1, 0x00]]);
            for &l in &ls {
                if let Some(body) = padded(&prefix, l, (l + name_len) as u32) {
                    let sem = Sem::Literal { mode, name_len };
                    all_framings(ctx, &format!("Literal Data mode {} file name {name_len} octets", mode as char), 11, &body, Kind::Canonical, &sem, l == prefix.len() || l == 256);
                }
            }
        }
    }
    // every mode octet
    for mode in 0u16..=255 {
        let body = cat(&[&[mode as u8, 3], b"abc", &[0, 0, 0, 1], b"data\r\nmore\n"]);
        wire_case(ctx, "Literal Data, every mode octet", 11, &body, &Framing::New, Kind::Canonical, &Sem::Literal { mode: mode as u8, name_len: 3 });
    }
    // 3. fixed-size packets
    all_framings(ctx, "Marker", 10, b"PGP", Kind::Canonical, &none, true);
    all_framings(ctx, "Modification Detection Code", 19, &fill(20, 19), Kind::Canonical, &none, false);
    // 4. every algorithm / type id in the fields that do not change the structure
    for id in 0u16..=255 {
        let id = id as u8;
        let keyid = [1u8, 2, 3, 4, 5, 6, 7, 8];
        wire_case(ctx, "OPS v3, every signature type", 4, &cat(&[&[3, id, 8, 1], &keyid, &[1]]), &Framing::New, Kind::Canonical, &none);
        wire_case(ctx, "OPS v3, every hash id", 4, &cat(&[&[3, 0, id, 1], &keyid, &[0]]), &Framing::Old, Kind::Canonical, &none);
        wire_case(ctx, "OPS v3, every public-key id", 4, &cat(&[&[3, 1, 10, id], &keyid, &[1]]), &Framing::New, Kind::Canonical, &none);
        wire_case(ctx, "SKESK v4, every cipher id", 3, &cat(&[&[4, id, 3, 8], &keyid, &[0xFF], &fill(17, 3)]), &Framing::New, Kind::Canonical, &none);
        wire_case(ctx, "SKESK v4, every S2K hash id", 3, &cat(&[&[4, 9, 1, id], &keyid]), &Framing::Old, Kind::Canonical, &none);
        wire_case(ctx, "Compressed Data, every algorithm id", 8, &cat(&[&[id], &fill(9, 8)]), &Framing::New, Kind::Canonical, &none);
        wire_case(ctx, "Signature v4, every signature type", 2, &cat(&[&[4, id, 99, 8, 0, 0, 0, 0, 1, 2], &fill(5, 2)]), &Framing::New, Kind::Canonical, &none);
        wire_case(ctx, "Signature v4, every hash id", 2, &cat(&[&[4, 0x10, 99, id, 0, 0, 0, 0, 1, 2], &fill(5, 2)]), &Framing::Old, Kind::Canonical, &none);
        wire_case(ctx, "Signature v3, every hash id", 2, &cat(&[&[3, 5, 0x10, 0, 0, 0, 9], &keyid, &[99, id, 1, 2], &fill(5, 2)]), &Framing::New, Kind::Canonical, &none);
    }
    // 5. One-Pass Signature v3 and v6 (salt sizes 0,1,16,32,255), nested flag 0/1
    for last in [0u8, 1] {
        let keyid = [1u8, 2, 3, 4, 5, 6, 7, 8];
        all_framings(ctx, "One-Pass Signature v3", 4, &cat(&[&[3, 0, 8, 27], &keyid, &[last]]), Kind::Canonical, &none, true);
        for sl in [0usize, 1, 16, 24, 32, 255] {
            let body = cat(&[&[6, 1, 10, 27, sl as u8], &fill(sl, 4), &fill(32, 44), &[last]]);
            all_framings(ctx, &format!("One-Pass Signature v6 salt {sl} octets"), 4, &body, Kind::Canonical, &none, false);
        }
    }
    // 6. PKESK with structured values
    {
        let keyid = [9u8, 8, 7, 6, 5, 4, 3, 2];
        for nl in [1usize, 2, 128, 179, 180, 181, 182, 243, 244, 245, 246, 256, 512] {
            let m = mpi(&odd_number(nl, nl as u32));
            all_framings(ctx, &format!("PKESK v3 RSA, MPI of {nl} octets"), 1, &cat(&[&[3], &keyid, &[1], &m]), Kind::Canonical, &none, false);
            all_framings(ctx, &format!("PKESK v6 RSA, MPI of {nl} octets"), 1, &cat(&[&[6, 0, 1], &m]), Kind::Canonical, &none, false);
            all_framings(ctx, &format!("PKESK v3 Elgamal, MPIs of {nl} octets"), 1, &cat(&[&[3], &keyid, &[16], &m, &mpi(&[0x03])]), Kind::Canonical, &none, false);
        }
        let point = mpi(&cat(&[&[0x40], &fill(32, 9)]));
        for el in [0usize, 1, 40, 48, 255] {
            let body = cat(&[&[3], &keyid, &[18], &point, &[el as u8], &fill(el, 1)]);
            all_framings(ctx, &format!("PKESK v3 ECDH, wrapped key of {el} octets"), 1, &body, Kind::Canonical, &none, false);
        }
        for el in [1usize, 2, 24, 40, 255] {
            // v3: length covers the cipher id and the wrapped key
            let body = cat(&[&[3], &keyid, &[25], &fill(32, 2), &[el as u8, 9], &fill(el - 1, 3)]);
            all_framings(ctx, &format!("PKESK v3 X25519, field of {el} octets"), 1, &body, Kind::Canonical, &none, false);
            let body = cat(&[&[6, 33, 6], &fill(32, 1), &[25], &fill(32, 2), &[el as u8], &fill(el, 3)]);
            all_framings(ctx, &format!("PKESK v6 X25519, field of {el} octets"), 1, &body, Kind::Canonical, &none, false);
            let body = cat(&[&[6, 21, 4], &fill(20, 1), &[26], &fill(56, 2), &[el as u8], &fill(el, 3)]);
            all_framings(ctx, &format!("PKESK v6 X448, field of {el} octets"), 1, &body, Kind::Canonical, &none, false);
        }
    }
    // 7. Public Key / Public Subkey with real parameter encodings
    for (kname, ktag) in [("Public Key", 6u8), ("Public Subkey", 14)] {
        let ts = [0x5Eu8, 0x0B, 0xE1, 0x00];
        let e = mpi(&[1, 0, 1]);
        // RSA: modulus sizes that put the v4 body (13 + n octets) on the header boundaries
        let mut nls = vec![64usize, 128, 256, 512, 1024];
        for b in [192usize, 256] {
            for l in b - ctx.n..b + ctx.n {
                nls.push(l - 13);
            }
        }
        for nl in nls {
            let n = mpi(&odd_number(nl, nl as u32 + 1));
            all_framings(ctx, &format!("{kname} v4 RSA, modulus {nl} octets"), ktag, &cat(&[&[4], &ts, &[1], &n, &e]), Kind::Canonical, &none, nl == 64);
            all_framings(ctx, &format!("{kname} v3 RSA, modulus {nl} octets"), ktag, &cat(&[&[3], &ts, &[0, 30, 1], &n, &e]), Kind::Canonical, &none, false);
            let params = cat(&[&n, &e]);
            all_framings(ctx, &format!("{kname} v6 RSA, modulus {nl} octets"), ktag, &cat(&[&[6], &ts, &[1], &(params.len() as u32).to_be_bytes(), &params]), Kind::Canonical, &none, false);
        }
        all_framings(ctx, &format!("{kname} v4 Ed25519"), ktag, &cat(&[&[4], &ts, &[27], &ED_PUB]), Kind::Canonical, &none, true);
        all_framings(ctx, &format!("{kname} v6 Ed25519"), ktag, &cat(&[&[6], &ts, &[27, 0, 0, 0, 32], &ED_PUB]), Kind::Canonical, &none, false);
        all_framings(ctx, &format!("{kname} v4 X25519"), ktag, &cat(&[&[4], &ts, &[25], &fill(32, 3)]), Kind::Canonical, &none, false);
        all_framings(ctx, &format!("{kname} v6 X25519"), ktag, &cat(&[&[6], &ts, &[25, 0, 0, 0, 32], &fill(32, 3)]), Kind::Canonical, &none, false);
        let q = mpi(&cat(&[&[0x40], &ED_PUB]));
        all_framings(ctx, &format!("{kname} v4 EdDSALegacy"), ktag, &cat(&[&[4], &ts, &[22, 9], &OID_ED25519_LEGACY, &q]), Kind::Canonical, &none, false);
        let p = mpi(&cat(&[&[0x40], &fill(32, 8)]));
        for (h, s) in [(8u8, 7u8), (10, 9), (9, 8)] {
            all_framings(ctx, &format!("{kname} v4 ECDH Curve25519Legacy kdf {h}/{s}"), ktag, &cat(&[&[4], &ts, &[18, 10], &OID_CV25519_LEGACY, &p, &[3, 1, h, s]]), Kind::Canonical, &none, false);
        }
    }
    // 7b. ECDSA / ECDH / EdDSALegacy keys on curves the library does not know: the OID is kept and written back.
    //     OID arcs at every base-128 boundary, in every position after the (combined) first two arcs.
    {
        let ts = [0x5Eu8, 0x0B, 0xE1, 0x00];
        // (the const-oid crate refuses a five-octet arc whose last octet is above 0x0f, so the largest arcs end in 0x08 / 0x0f)
        let arcs: [u32; 14] = [0, 1, 127, 128, 16383, 16384, 2097151, 2097152, 268435455, 268435456, 0x1234_5608, 1 << 31, 0xFFFF_FF88, 0xFFFF_FF8F];
        let point = mpi(&[0x04, 0xAA, 0xBB, 0xCC, 0xDD]);
        let mut oids: Vec<(String, Vec<u8>)> = vec![];
        for &a in &arcs {
            // 1.3.a.1 / 1.3.6.1.4.1.a.1 / 1.3.6.1.4.1.11591.a (2nd, middle and last position)
            oids.push((format!("1.3.{a}.1"), cat(&[&[0x2B], &oid_arc(a), &[1]])));
            oids.push((format!("1.3.6.1.4.1.{a}.1"), cat(&[&[0x2B, 6, 1, 4, 1], &oid_arc(a), &[1]])));
            oids.push((format!("1.3.6.1.4.1.11591.{a}"), cat(&[&[0x2B, 6, 1, 4, 1], &oid_arc(11591), &oid_arc(a)])));
            oids.push((format!("1.3.{a}.{a}.2"), cat(&[&[0x2B], &oid_arc(a), &oid_arc(a), &[2]])));
        }
        // brainpoolP160r1 (1.3.36.3.3.2.8.1.1.1), not handled explicitly by the library
        oids.push(("1.3.36.3.3.2.8.1.1.1".into(), vec![0x2B, 0x24, 3, 3, 2, 8, 1, 1, 1]));
        for (kname, ktag) in [("Public Key", 6u8), ("Public Subkey", 14)] {
            for (oname, oid) in &oids {
                let l = [oid.len() as u8];
                all_framings(ctx, &format!("{kname} v4 ECDSA on unknown curve {oname}"), ktag, &cat(&[&[4], &ts, &[19], &l, oid, &point]), Kind::Canonical, &none, false);
                all_framings(ctx, &format!("{kname} v4 EdDSALegacy on unknown curve {oname}"), ktag, &cat(&[&[4], &ts, &[22], &l, oid, &point]), Kind::Canonical, &none, false);
                all_framings(ctx, &format!("{kname} v4 ECDH on unknown curve {oname}"), ktag, &cat(&[&[4], &ts, &[18], &l, oid, &point, &[3, 1, 8, 7]]), Kind::Canonical, &none, false);
            }
        }
    }
    // 8. User Attribute: one attribute subpacket, minimal and five-octet subpacket length
    {
        let mut uls = ls.clone();
        uls.extend([16319usize + 2, 16320 + 2, 16321 + 2, 16320 + 5, 16321 + 5]);
        for &l in &uls {
            for five in [false, true] {
                // l = |length octets| + 1 (type) + rest: find the content size that gives a body of exactly l octets
                for (what, head) in [
                    ("image, v1 jpeg header", cat(&[&[1, 0x10, 0x00, 0x01, 0x01], &[0u8; 12]])),
                    ("image, v1 jpeg header with non-zero reserved octets", cat(&[&[1, 0x10, 0x00, 0x01, 0x01], &fill(12, 1)])),
                    ("image, v1 unknown format 2, 20-octet header", cat(&[&[1, 0x14, 0x00, 0x01, 0x02], &fill(16, 2)])),
                    ("image, v1 unknown format, 4-octet header", vec![1, 0x04, 0x00, 0x01, 0x07]),
                    ("image, unknown header version 2", cat(&[&[1, 0x08, 0x00, 0x02], &fill(5, 3)])),
                    ("image, unknown header version 0, 4-octet header", vec![1, 0x04, 0x00, 0x00, 0xEE]),
                    ("unknown attribute type 2", vec![2]),
                    ("unknown attribute type 100", vec![100]),
                ] {
                    let mut found = None;
                    for lo in [1usize, 2, 5] {
                        if l >= lo + head.len() {
                            let content = l - lo;
                            let enc = if five { sub_len5(content) } else { sub_len_min(content) };
                            if enc.len() == lo {
                                found = Some(cat(&[&enc, &head, &fill(content - head.len(), l as u32)]));
                            }
                        }
                    }
                    if let Some(body) = found {
                        let name = format!("User Attribute {what}, {} subpacket length", if five { "five-octet" } else { "minimal" });
                        wire_case(ctx, &name, 17, &body, &Framing::New, Kind::Canonical, &none);
                        if l % 2 == 0 {
                            wire_case(ctx, &name, 17, &body, &Framing::New5, Kind::Canonical, &none);
                        }
                    }
                }
            }
        }
    }
}

// partial body lengths
fn family_w_partial(ctx: &mut Ctx) {
    let none = Sem::None;
    let conts: &[u8] = &[0, 1, 2, 9];
    let depth = ctx.n.min(3);
    let mut seqs: Vec<Vec<u8>> = vec![vec![]];
    let mut frontier: Vec<Vec<u8>> = vec![vec![]];
    for _ in 0..depth {
        let mut next = vec![];
        for s in &frontier {
            for &c in conts {
                let mut t = s.clone();
                t.push(c);
                next.push(t);
            }
        }
        seqs.extend(next.iter().cloned());
        frontier = next;
    }
    let lit_prefix = cat(&[&[b'b', 4], b"name", &[0, 0, 0, 2]]);
    for first in [9u8, 10] {
        for s in &seqs {
            for fin in [0usize, 1, 191, 192, 193] {
                let mut exps = vec![first];
                exps.extend(s);
                let total: usize = exps.iter().map(|e| 1usize << e).sum::<usize>() + fin;
                let body = padded(&lit_prefix, total, total as u32 + s.len() as u32).unwrap();
                wire_case(ctx, "Literal Data in partial chunks", 11, &body, &Framing::Partial(exps), Kind::Canonical, &Sem::Literal { mode: b'b', name_len: 4 });
            }
        }
    }
    // other data packets, larger chunks, five-octet final length
    for (name, tag, prefix) in [
        ("Compressed Data", 8u8, vec![0u8]),
        ("Symmetrically Encrypted Data", 9, vec![]),
        ("SEIPD v1", 18, vec![1]),
        ("Literal Data utf8", 11, cat(&[&[b'u', 0], &[0, 0, 0, 0]])),
        ("GnuPG AEAD Data", 20, cat(&[&[1, 9, 2, 6], &[0x11; 15]])),
    ] {
        for (exps, fin) in [
            (vec![9u8], 0usize),
            (vec![9, 0], 5),
            (vec![9, 0, 0, 0], 0),
            (vec![13, 9, 0], 8383),
            (vec![13, 0, 13], 8384),
            (vec![16, 0], 1),
            (vec![16, 16, 1], 8385),
            (vec![12, 3, 0, 4], 192),
        ] {
            let total: usize = exps.iter().map(|e| 1usize << e).sum::<usize>() + fin;
            let body = padded(&prefix, total, total as u32).unwrap();
            wire_case(ctx, &format!("{name} in partial chunks"), tag, &body, &Framing::Partial(exps), Kind::Canonical, &none);
        }
    }
    // (r) first partial chunk shorter than 512 octets, for EVERY tag that may carry partial lengths;
    //     the 512-octet first chunk is the accepted control
    let gnupg_prefix = cat(&[&[1, 9, 2, 6], &[0x11; 15]]);
    for (name, tag, prefix) in [
        ("Compressed Data", 8u8, vec![0u8]),
        ("Symmetrically Encrypted Data", 9, vec![]),
        ("Literal Data", 11, lit_prefix.clone()),
        ("SEIPD v1", 18, vec![1]),
        ("GnuPG AEAD Data", 20, gnupg_prefix.clone()),
    ] {
        for e in 0u8..9 {
            for fin in [prefix.len() + 5, 600] {
                let body = padded(&prefix, (1usize << e) + fin, e as u32).unwrap();
                let mut stream = frame(tag, &body, &Framing::Partial(vec![e]));
                stream.extend(sentinel_packet());
                reject_case(ctx, &format!("{name} (tag {tag}) with first partial chunk of 2^{e} octets"), &stream);
            }
        }
        for fin in [0usize, 5, 600] {
            let body = padded(&prefix, 512 + fin, fin as u32).unwrap();
            wire_case(ctx, &format!("{name} (tag {tag}) with first partial chunk of 512 octets (control)"), tag, &body, &Framing::Partial(vec![9]), Kind::Canonical, &none);
        }
    }
    // (r) partial body lengths on packets that are not data packets
    for tag in [1u8, 2, 3, 4, 5, 6, 7, 10, 12, 13, 14, 17, 19, 21] {
        for e in [9u8, 10] {
            let body = fill((1usize << e) + 7, tag as u32);
            let mut stream = frame(tag, &body, &Framing::Partial(vec![e]));
            stream.extend(sentinel_packet());
            reject_case(ctx, &format!("tag {tag} with a partial body length 2^{e}"), &stream);
        }
    }
}

// signatures with hand-built subpacket areas
fn sp(typ: u8, body: &[u8], five: bool) -> Vec<u8> {
    let l = 1 + body.len();
    cat(&[&if five { sub_len5(l) } else { sub_len_min(l) }, &[typ], body])
}

fn sig_v4(typ: u8, alg: u8, hash: u8, hashed: &[u8], unhashed: &[u8], tail: &[u8]) -> Vec<u8> {
    cat(&[&[4, typ, alg, hash], &(hashed.len() as u16).to_be_bytes(), hashed, &(unhashed.len() as u16).to_be_bytes(), unhashed, tail])
}

fn sig_v6(typ: u8, alg: u8, hash: u8, hashed: &[u8], unhashed: &[u8], ls: &[u8; 2], salt: &[u8], sig: &[u8]) -> Vec<u8> {
    cat(&[
        &[6, typ, alg, hash],
        &(hashed.len() as u32).to_be_bytes(),
        hashed,
        &(unhashed.len() as u32).to_be_bytes(),
        unhashed,
        ls,
        &[salt.len() as u8],
        salt,
        sig,
    ])
}

/// an inner (embedded) signature body: v4, type 0x19, Ed25519, one creation time subpacket
fn embedded_sig_body() -> Vec<u8> {
    sig_v4(0x19, 27, 8, &sp(2, &[0x5E, 0, 0, 1], false), &sp(16, &[1, 2, 3, 4, 5, 6, 7, 8], false), &cat(&[&[0x12, 0x34], &fill(64, 64)]))
}

/// every subpacket kind of RFC 9580 5.2.3.7 (and the non-RFC ones the library knows): (name, type id, body)
fn subpacket_kinds() -> Vec<(String, u8, Vec<u8>)> {
    let mut v: Vec<(String, u8, Vec<u8>)> = vec![
        ("signature creation time".into(), 2, vec![0x5E, 0x0B, 0xE1, 0x00]),
        ("signature creation time 0".into(), 2, vec![0, 0, 0, 0]),
        ("signature creation time max".into(), 2, vec![0xFF, 0xFF, 0xFF, 0xFF]),
        ("signature expiration time".into(), 3, vec![0, 1, 0x51, 0x80]),
        ("exportable certification 0".into(), 4, vec![0]),
        ("exportable certification 1".into(), 4, vec![1]),
        ("trust signature".into(), 5, vec![2, 120]),
        ("regular expression".into(), 6, b"<[^>]+[@.]example\\.org>$\0".to_vec()),
        ("regular expression, empty".into(), 6, vec![]),
        ("revocable 0".into(), 7, vec![0]),
        ("revocable 1".into(), 7, vec![1]),
        ("key expiration time".into(), 9, vec![0x01, 0xE1, 0x33, 0x80]),
        ("preferred symmetric ciphers".into(), 11, vec![9, 8, 7, 2, 200]),
        ("preferred symmetric ciphers, empty".into(), 11, vec![]),
        ("revocation key class 0x80".into(), 12, cat(&[&[0x80, 1], &fill(20, 12)])),
        ("revocation key class 0xC0, unknown algorithm".into(), 12, cat(&[&[0xC0, 99], &fill(20, 13)])),
        ("issuer key id".into(), 16, vec![0xDE, 0xAD, 0xBE, 0xEF, 1, 2, 3, 4]),
        ("notation, human readable".into(), 20, cat(&[&[0x80, 0, 0, 0, 0, 16, 0, 5], b"name@example.org", b"value"])),
        ("notation, binary value".into(), 20, cat(&[&[0, 0, 0, 0, 0, 4, 0, 3], b"a@b.", &[0, 0xFF, 0x80]])),
        ("notation, empty name and value".into(), 20, vec![0x80, 0, 0, 0, 0, 0, 0, 0]),
        ("preferred hash algorithms".into(), 21, vec![10, 9, 8, 11, 2, 250]),
        ("preferred compression algorithms".into(), 22, vec![2, 3, 1, 0, 99]),
        ("key server preferences".into(), 23, vec![0x80]),
        ("key server preferences, 5 octets".into(), 23, vec![0x80, 1, 2, 3, 4]),
        ("key server preferences, empty".into(), 23, vec![]),
        ("preferred key server".into(), 24, b"hkps://keys.example.org".to_vec()),
        ("preferred key server, non-ASCII".into(), 24, "hkps://schl\u{fc}ssel.example/\u{1F511}".as_bytes().to_vec()),
        ("primary user id 0".into(), 25, vec![0]),
        ("primary user id 1".into(), 25, vec![1]),
        ("policy URI".into(), 26, "https://example.org/policy/\u{e9}".as_bytes().to_vec()),
        ("signer's user id".into(), 28, b"Alice <alice@example.org>".to_vec()),
        ("signer's user id, not UTF-8".into(), 28, vec![0xFF, 0xFE, 0x80]),
        ("reason for revocation".into(), 29, cat(&[&[2], b"compromised"])),
        ("reason for revocation, unknown code, not UTF-8".into(), 29, vec![0x42, 0xFF, 0x00]),
        ("reason for revocation, code only".into(), 29, vec![32]),
        ("features, empty".into(), 30, vec![]),
        ("signature target".into(), 31, cat(&[&[1, 8], &fill(32, 31)])),
        ("signature target, unknown ids".into(), 31, cat(&[&[99, 99], &fill(7, 31)])),
        ("embedded signature".into(), 32, embedded_sig_body()),
        ("issuer fingerprint v4".into(), 33, cat(&[&[4], &fill(20, 33)])),
        ("issuer fingerprint v6".into(), 33, cat(&[&[6], &fill(32, 33)])),
        ("preferred encryption modes".into(), 34, vec![2, 1]),
        ("intended recipient fingerprint v4".into(), 35, cat(&[&[4], &fill(20, 35)])),
        ("intended recipient fingerprint v6".into(), 35, cat(&[&[6], &fill(32, 35)])),
        ("preferred AEAD ciphersuites".into(), 39, vec![9, 2, 7, 2, 9, 3, 200, 200]),
        ("preferred AEAD ciphersuites, empty".into(), 39, vec![]),
        ("experimental 100".into(), 100, fill(11, 100)),
        ("experimental 110, empty".into(), 110, vec![]),
        ("unassigned 10 (placeholder)".into(), 10, fill(3, 10)),
        ("unassigned 37 (attested certifications)".into(), 37, fill(32, 37)),
        ("unassigned 0".into(), 0, vec![1]),
        ("unassigned 127".into(), 127, vec![]),
    ];
    for b in 0u16..=255 {
        v.push((format!("features {b:02x}"), 30, vec![b as u8]));
    }
    for rest in [vec![0u8], vec![0xFF, 0x00], fill(9, 30)] {
        v.push((format!("features 09 ++ {} more octets", rest.len()), 30, cat(&[&[9], &rest])));
    }
    v
}

fn family_w_signature(ctx: &mut Ctx) {
    let none = Sem::None;
    let tail_ed = cat(&[&[0xAB, 0xCD], &fill(64, 1)]);
    let tail_rsa = cat(&[&[0xAB, 0xCD], &mpi(&odd_number(256, 5))]);
    let tail_eddsa = cat(&[&[0xAB, 0xCD], &mpi(&odd_number(32, 6)), &mpi(&fill(31, 7).iter().map(|b| b | 1).collect::<Vec<u8>>())]);
    let salt16 = fill(16, 16);
    // 1. every subpacket kind alone: hashed / unhashed, critical or not, minimal or five-octet length, v4 and v6
    for (name, typ, body) in subpacket_kinds() {
        for crit in [0u8, 0x80] {
            for five in [false, true] {
                let s = sp(typ | crit, &body, five);
                let what = format!("subpacket {name}{}{}", if crit != 0 { ", critical" } else { "" }, if five { ", five-octet length" } else { "" });
                wire_case(ctx, &format!("Signature v4, hashed {what}"), 2, &sig_v4(0x13, 27, 8, &s, &[], &tail_ed), &Framing::New, Kind::Canonical, &none);
                wire_case(ctx, &format!("Signature v4, unhashed {what}"), 2, &sig_v4(0x18, 1, 10, &[], &s, &tail_rsa), &Framing::Old, Kind::Canonical, &none);
                wire_case(ctx, &format!("Signature v6, hashed {what}"), 2, &sig_v6(0x10, 27, 8, &s, &[], &[1, 2], &salt16, &fill(64, 2)), &Framing::New, Kind::Canonical, &none);
                wire_case(ctx, &format!("Signature v6, unhashed {what}"), 2, &sig_v6(0x00, 99, 10, &[], &s, &[1, 2], &fill(32, 3), &fill(9, 2)), &Framing::New, Kind::Canonical, &none);
            }
        }
    }
    // 2. Key Flags of 0..3 octets; every bit pattern of the first and of the second octet
    {
        let mut flags: Vec<Vec<u8>> = vec![vec![]];
        for a in 0u16..=255 {
            flags.push(vec![a as u8]);
        }
        let firsts: Vec<u8> = [0x00u8, 0x03, 0xFF, 0x0C, 0x20, 0x80].into_iter().take(ctx.n.max(2)).collect();
        for b in 0u16..=255 {
            for &a in &firsts {
                flags.push(vec![a, b as u8]);
                flags.push(vec![a, b as u8, 0x00]);
                flags.push(vec![a, b as u8, 0x5A]);
            }
        }
        flags.push(vec![1, 2, 3, 4]);
        flags.push(vec![0, 0, 0, 0, 0, 0, 0, 0, 0]);
        for (i, f) in flags.iter().enumerate() {
            let s = cat(&[&sp(2, &[0x5E, 0, 0, 0], false), &sp(27, f, i % 7 == 3)]);
            let sem = Sem::KeyFlags(f.clone());
            if i % 2 == 0 {
                wire_case(ctx, "Signature v4 with Key Flags", 2, &sig_v4(0x13, 22, 8, &s, &[], &tail_eddsa), &Framing::New, Kind::Canonical, &sem);
            } else {
                wire_case(ctx, "Signature v6 with Key Flags", 2, &sig_v6(0x1F, 27, 10, &s, &[], &[9, 9], &fill(32, 4), &fill(64, 2)), &Framing::Old, Kind::Canonical, &sem);
            }
        }
    }
    // 3. all kinds together, and a filler that puts the body on every boundary length;
    //    filler subpacket sizes also cross the subpacket-length boundaries 191/192 and 16319/16320
    let all_hashed: Vec<u8> = subpacket_kinds().iter().filter(|k| !k.0.starts_with("features ") || k.0 == "features 09").flat_map(|(_, t, b)| sp(*t, b, false)).collect();
    let ls = lens(ctx.n);
    for &l in &ls {
        // (i) filler in the opaque signature field (unknown algorithm)
        let base = sig_v4(0x13, 99, 8, &all_hashed, &sp(16, &[1, 2, 3, 4, 5, 6, 7, 8], false), &[0xAB, 0xCD]);
        if let Some(body) = padded(&base, l, l as u32) {
            all_framings(ctx, "Signature v4, all subpacket kinds, opaque signature field", 2, &body, Kind::Canonical, &none, l == 8384);
        }
        // (ii) filler in an unhashed subpacket (signer's user id), v4 and v6
        for five in [false, true] {
            for v6 in [false, true] {
                let fixed = if v6 { 4 + 4 + 4 + 2 + 1 + 16 + 64 } else { 4 + 2 + 2 + 2 + 64 };
                for lo in [1usize, 2, 5] {
                    // subpacket = lo length octets + type + content
                    if l < fixed + lo + 1 {
                        continue;
                    }
                    let content = l - fixed - lo - 1;
                    let enc = if five { sub_len5(content + 1) } else { sub_len_min(content + 1) };
                    if enc.len() != lo || (!v6 && lo + 1 + content > 65535) {
                        continue;
                    }
                    let s = cat(&[&enc, &[28], &fill(content, l as u32)]);
                    let body = if v6 { sig_v6(0x10, 27, 8, &[], &s, &[7, 7], &salt16, &fill(64, 1)) } else { sig_v4(0x10, 27, 8, &[], &s, &tail_ed) };
                    assert_eq!(body.len(), l);
                    let what = format!("Signature v{}, filler subpacket with {} length", if v6 { 6 } else { 4 }, if five { "five-octet" } else { "minimal" });
                    wire_case(ctx, &what, 2, &body, &Framing::New, Kind::Canonical, &none);
                    wire_case(ctx, &what, 2, &body, &Framing::Old, Kind::Canonical, &none);
                }
            }
        }
    }
    for content in [189usize, 190, 191, 192, 16317, 16318, 16319, 16320] {
        let s = sp(20, &cat(&[&[0x80, 0, 0, 0, 0, 1], &((content - 9) as u16).to_be_bytes(), b"n", &fill(content - 9, 20)]), false);
        wire_case(ctx, &format!("Signature v4, hashed notation subpacket of {content} octets"), 2, &sig_v4(0x13, 27, 8, &s, &[], &tail_ed), &Framing::New, Kind::Canonical, &none);
        wire_case(ctx, &format!("Signature v6, unhashed notation subpacket of {content} octets"), 2, &sig_v6(0x13, 27, 8, &[], &s, &[0, 0], &salt16, &fill(64, 1)), &Framing::New, Kind::Canonical, &none);
    }
    // 4. v3 signatures with MPIs
    for nl in [1usize, 2, 127, 128, 255, 256, 257, 512] {
        let body = cat(&[&[3, 5, 0x00, 0x5E, 0, 0, 0], &[1, 2, 3, 4, 5, 6, 7, 8], &[1, 2, 0xAB, 0xCD], &mpi(&odd_number(nl, nl as u32))]);
        all_framings(ctx, &format!("Signature v3 RSA, MPI of {nl} octets"), 2, &body, Kind::Canonical, &none, nl == 128);
        let body = cat(&[&[2, 5, 0x01, 0x5E, 0, 0, 0], &[1, 2, 3, 4, 5, 6, 7, 8], &[17, 2, 0xAB, 0xCD], &mpi(&odd_number(20, 1)), &mpi(&odd_number(nl.min(64), 2))]);
        all_framings(ctx, &format!("Signature v2 DSA, MPIs of 20 and {} octets", nl.min(64)), 2, &body, Kind::Canonical, &none, false);
    }
}

// ------------------------------------------------------------------------------------------------
// family A: objects built or modified through the public API
// ------------------------------------------------------------------------------------------------

fn e2s<T, E: std::fmt::Display>(r: Result<T, E>) -> Result<T, String> {
    r.map_err(|e| format!("(api) {e}"))
}

const SETTERS: usize = 9;

fn api_flags(mask: u32) -> (KeyFlags, Vec<u8>) {
    let mut f = KeyFlags::default();
    let (mut a, mut b) = (0u8, 0u8);
    let has = |i: u32| mask & (1 << i) != 0;
    if has(0) {
        f.set_certify(true);
        a |= 0x01;
    }
    if has(1) {
        f.set_sign(true);
        a |= 0x02;
    }
    if has(2) {
        f.set_encrypt_comms(true);
        a |= 0x04;
    }
    if has(3) {
        f.set_encrypt_storage(true);
        a |= 0x08;
    }
    if has(4) {
        f.set_shared(true);
        a |= 0x10;
    }
    if has(5) {
        f.set_authentication(true);
        a |= 0x20;
    }
    if has(6) {
        f.set_group(true);
        a |= 0x80;
    }
    if has(7) {
        f.set_adsk(true);
        b |= 0x04;
    }
    if has(8) {
        f.set_timestamping(true);
        b |= 0x08;
    }
    // RFC 9580 5.2.3.29: a flags string; trailing zero octets may be left out
    let want = if b != 0 { vec![a, b] } else { vec![a] };
    (f, want)
}

fn family_a(ctx: &mut Ctx) {
    let ls = lens(ctx.n);
    // 1. User ID and Padding in both header formats at every boundary length
    for &l in &ls {
        for (ver, vname) in [(PacketHeaderVersion::New, "New"), (PacketHeaderVersion::Old, "Old")] {
            let text: String = (0..l).map(|i| (b'a' + (i % 26) as u8) as char).collect();
            let want = cat(&[&if ver == PacketHeaderVersion::New { hdr_new(13, l) } else { hdr_old(13, l) }, text.as_bytes()]);
            api_case(ctx, &format!("UserId::from_str({vname}, {l} octets)"), || {
                let u = e2s(UserId::from_str(ver, &text))?;
                Ok((Packet::from(u), Some(want)))
            });
        }
        api_case(ctx, &format!("Padding::new(New, {l} octets)"), || {
            let p = e2s(Padding::new(ChaCha20Rng::seed_from_u64(l as u64), PacketHeaderVersion::New, l))?;
            Ok((Packet::from(p), None))
        });
        for name_len in [0usize, 1, 254, 255] {
            if l >= 6 + name_len || l < 4 {
                let dl = if l >= 6 + name_len { l - 6 - name_len } else { l };
                api_case(ctx, &format!("LiteralData::from_bytes(file name {name_len} octets, data {dl} octets)"), || {
                    let lit = e2s(LiteralData::from_bytes(fill(name_len, 1), fill(dl, 2).into()))?;
                    Ok((Packet::from(lit), None))
                });
            }
        }
        if l >= 19 {
            // body = subpacket length + type + 16 header + image
            for lo in [1usize, 2, 5] {
                if l < lo + 17 {
                    continue;
                }
                let content = l - lo;
                if sub_len_min(content).len() != lo {
                    continue;
                }
                let img = fill(content - 17, l as u32);
                let want = cat(&[&hdr_new(17, l), &sub_len_min(content), &[1, 0x10, 0, 1, 1], &[0u8; 12], &img]);
                api_case(ctx, &format!("UserAttribute::new_image({} octets)", img.len()), || {
                    let ua = e2s(UserAttribute::new_image(img.into()))?;
                    Ok((Packet::from(ua), Some(want)))
                });
            }
        }
    }
    for sz in [16300usize, 16301, 16302, 16303, 16304] {
        api_case(ctx, &format!("UserAttribute::new_image({sz} octets)"), || {
            let ua = e2s(UserAttribute::new_image(fill(sz, 5).into()))?;
            Ok((Packet::from(ua), None))
        });
    }
    // 2. One-Pass Signatures
    for nested in [false, true] {
        api_case(ctx, &format!("OnePassSignature::v3, nested {nested}"), || {
            let mut o = OnePassSignature::v3(SignatureType::Binary, HashAlgorithm::Sha256, PublicKeyAlgorithm::Ed25519, KeyId::from([1u8, 2, 3, 4, 5, 6, 7, 8]));
            if nested {
                o.set_is_nested();
            }
            let want = cat(&[&hdr_new(4, 13), &[3, 0, 8, 27, 1, 2, 3, 4, 5, 6, 7, 8, if nested { 0 } else { 1 }]]);
            Ok((Packet::from(o), Some(want)))
        });
        for sl in [0usize, 1, 16, 24, 32, 64, 255] {
            api_case(ctx, &format!("OnePassSignature::v6, salt {sl} octets, nested {nested}"), || {
                let mut fp = [0u8; 32];
                fp.copy_from_slice(&fill(32, 9));
                let mut o = OnePassSignature::v6(SignatureType::Text, HashAlgorithm::Sha512, PublicKeyAlgorithm::Ed25519, fill(sl, 3), fp);
                if nested {
                    o.set_is_nested();
                }
                let want = cat(&[&hdr_new(4, 6 + sl + 32), &[6, 1, 10, 27, sl as u8], &fill(sl, 3), &fp, &[if nested { 0 } else { 1 }]]);
                Ok((Packet::from(o), Some(want)))
            });
        }
    }
    // 3. Key Flags assembled with the setters: every subset of the setters
    for mask in 0u32..(1 << SETTERS) {
        plain_case(ctx, format!("A KeyFlags::default() + setters {mask:09b} (certify sign enc_comms enc_storage shared auth group adsk timestamping from the right)"), || {
            let (f, want) = api_flags(mask);
            let b = e2s(f.to_bytes())?;
            if b != want {
                return Err(format!("(b) flags written as {}, set flags are {}", hexs(&b), hexs(&want)));
            }
            if f.write_len() != b.len() {
                return Err(format!("(c) KeyFlags::write_len() = {} but {} octets are written", f.write_len(), b.len()));
            }
            let s = e2s(Subpacket::regular(SubpacketData::KeyFlags(f)))?;
            let sb = e2s(s.to_bytes())?;
            if s.write_len() != sb.len() {
                return Err(format!("(c) Subpacket::write_len() = {} but {} octets are written", s.write_len(), sb.len()));
            }
            if sb != cat(&[&[want.len() as u8 + 1, 27], &want]) {
                return Err(format!("(b) subpacket written as {}", hexs(&sb)));
            }
            Ok(())
        });
        // inside a signature (v4 / v6 alternating)
        api_case_eq(ctx, &format!("Signature::from_config with API-built Key Flags {mask:09b}"), mask < 0x80, || {
            let (f, want) = api_flags(mask);
            let mut cfg = if mask % 2 == 0 {
                SignatureConfig::v4(SignatureType::CertPositive, PublicKeyAlgorithm::Ed25519, HashAlgorithm::Sha256)
            } else {
                SignatureConfig::v6_with_salt(SignatureType::CertPositive, PublicKeyAlgorithm::Ed25519, HashAlgorithm::Sha256, fill(16, 1))
            };
            cfg.hashed_subpackets = vec![
                e2s(Subpacket::regular(SubpacketData::SignatureCreationTime(Timestamp::from_secs(1_700_000_000))))?,
                e2s(Subpacket::critical(SubpacketData::KeyFlags(f)))?,
            ];
            cfg.unhashed_subpackets = vec![e2s(Subpacket::regular(SubpacketData::IssuerKeyId(KeyId::from([1u8, 2, 3, 4, 5, 6, 7, 8]))))?];
            let sig = e2s(Signature::from_config(cfg, [0xAB, 0xCD], SignatureBytes::Native(fill(64, 1).into())))?;
            let hashed = cat(&[&sp(2, &1_700_000_000u32.to_be_bytes(), false), &sp(27 | 0x80, &want, false)]);
            let unhashed = sp(16, &[1, 2, 3, 4, 5, 6, 7, 8], false);
            let body = if mask % 2 == 0 {
                sig_v4(0x13, 27, 8, &hashed, &unhashed, &cat(&[&[0xAB, 0xCD], &fill(64, 1)]))
            } else {
                sig_v6(0x13, 27, 8, &hashed, &unhashed, &[0xAB, 0xCD], &fill(16, 1), &fill(64, 1))
            };
            Ok((Packet::from(sig), Some(cat(&[&hdr_new(2, body.len()), &body]))))
        });
    }
    // 4. signatures modified through the public API: push / insert / remove of unhashed subpackets
    let base_body = sig_v4(0x13, 27, 8, &sp(2, &[0x5E, 0, 0, 0], false), &sp(16, &[1, 2, 3, 4, 5, 6, 7, 8], false), &cat(&[&[0xAB, 0xCD], &fill(64, 1)]));
    let parse_base = |old: bool| -> Result<Signature, String> {
        let stream = frame(2, &base_body, if old { &Framing::Old } else { &Framing::New });
        match parse_all(&stream).into_iter().next() {
            Some(Ok(Packet::Signature(s))) => Ok(s),
            other => Err(format!("(api) base signature does not parse: {:?}", other.map(|r| r.map(|p| p.tag())))),
        }
    };
    // value sizes that move the subpacket length and the packet length over their boundaries
    let mut sizes = vec![0usize, 1, 50];
    for b in [192usize, 256, 8384, 16320, 65536] {
        for l in b - ctx.n..b + ctx.n {
            for off in [0usize, 10, base_body.len() + 10] {
                if l >= off && l - off <= 65510 {
                    sizes.push(l - off);
                }
            }
        }
    }
    sizes.sort();
    sizes.dedup();
    for &vl in &sizes {
        for old in [false, true] {
            api_case_eq(ctx, &format!("parsed signature ({} header) + unhashed_subpacket_push(notation with {vl}-octet value)", if old { "legacy" } else { "new" }), !old, || {
                let mut sig = parse_base(old)?;
                let n = Notation { readable: true, name: b"n".to_vec().into(), value: fill(vl, 3).into() };
                e2s(sig.unhashed_subpacket_push(e2s(Subpacket::regular(SubpacketData::Notation(n)))?))?;
                let nb = cat(&[&[0x80, 0, 0, 0, 0, 1], &(vl as u16).to_be_bytes(), b"n", &fill(vl, 3)]);
                let unhashed = cat(&[&sp(16, &[1, 2, 3, 4, 5, 6, 7, 8], false), &sp(20, &nb, false)]);
                let body = sig_v4(0x13, 27, 8, &sp(2, &[0x5E, 0, 0, 0], false), &unhashed, &cat(&[&[0xAB, 0xCD], &fill(64, 1)]));
                let h = if old { hdr_old(2, body.len()) } else { hdr_new(2, body.len()) };
                Ok((Packet::from(sig), Some(cat(&[&h, &body]))))
            });
        }
    }
    for mask in [0u32, 1, 0x80, 0x100, 0x183, 0x1FF] {
        for at in [0usize, 1] {
            api_case_eq(ctx, &format!("parsed signature + unhashed_subpacket_insert({at}, API-built Key Flags {mask:09b}), then remove"), mask < 0x80, || {
                let mut sig = parse_base(at == 1)?;
                let (f, want) = api_flags(mask);
                e2s(sig.unhashed_subpacket_insert(at, e2s(Subpacket::regular(SubpacketData::KeyFlags(f)))?))?;
                let (s0, s1) = (sp(16, &[1, 2, 3, 4, 5, 6, 7, 8], false), sp(27, &want, false));
                let unhashed = if at == 0 { cat(&[&s1, &s0]) } else { cat(&[&s0, &s1]) };
                let body = sig_v4(0x13, 27, 8, &sp(2, &[0x5E, 0, 0, 0], false), &unhashed, &cat(&[&[0xAB, 0xCD], &fill(64, 1)]));
                let h = if at == 1 { hdr_old(2, body.len()) } else { hdr_new(2, body.len()) };
                object_checks(&Packet::from(sig.clone()), None, Some(&cat(&[&h, &body])), mask < 0x80, false)?;
                // remove the other one
                e2s(sig.unhashed_subpacket_remove(1 - at))?;
                let body = sig_v4(0x13, 27, 8, &sp(2, &[0x5E, 0, 0, 0], false), &s1, &cat(&[&[0xAB, 0xCD], &fill(64, 1)]));
                let h = if at == 1 { hdr_old(2, body.len()) } else { hdr_new(2, body.len()) };
                Ok((Packet::from(sig), Some(cat(&[&h, &body]))))
            });
        }
    }
}


fn main() {
    let args: Vec<String> = std::env::args().collect();
    let n: usize = args.get(1).and_then(|s| s.parse().ok()).unwrap_or(2).max(2);
    let replay: Option<u64> = args.get(2).and_then(|s| u64::from_str_radix(s, 16).ok());
    if std::env::var("C05_PANIC_TRACE").is_err() {
        std::panic::set_hook(Box::new(|_| {}));
    }
    let mut ctx = Ctx { n, replay, idx: 0, total: 0, nontrivial: 0, failures: 0, printed: 0, max_print: std::env::var("C05_MAXFAIL").ok().and_then(|v| v.parse().ok()).unwrap_or(20), samples: 0 };
    family_h(&mut ctx);
    family_w_opaque(&mut ctx);
    family_w_partial(&mut ctx);
    family_w_signature(&mut ctx);
    family_a(&mut ctx);
    println!("RESULT total={} nontrivial={} failures={}", ctx.total, ctx.nontrivial, ctx.failures);
}
