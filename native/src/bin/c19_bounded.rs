//! C19 / C04 bounded stand-in (never counted as proved).
//!
//! Runs the REAL parsers / dearmorer / unlock / decrypt entry points through the public API on a finite, enumerated
//! family of hostile inputs that DECLARE much more than they SUPPLY, under a counting `#[global_allocator]`
//! (wraps std::alloc::System; tracks live bytes, peak live bytes and the largest single request, reset per case).
//! Oracle per case (does not look at the implementation):
//!   (panic) the library call returns, it does not panic
//!   (alloc) largest single allocation request      <= BOUND(supplied) + documented extra
//!   (peak)  peak live bytes - live bytes at start   <= BOUND(supplied) + documented extra
//!   (time)  wall clock of the case                  <= TIME_GUARD_MS (generous)
//!   (pull)  with DearmorOptions::set_limit(L) and an endless header/footer: octets pulled from the counting source
//!           <= prefix + L + 8 KiB + 2 * chunk of the BufReader
//!   (cap)   unlock / decrypt with S2K parameters the library documents as refused returns Err
//! BOUND(n) = BASE + MULT * n, n = octets actually supplied to the library (see the constants below).
//! "documented extra": Argon2 controls (m KiB), AEAD chunk buffers (2 * declared chunk size, capped at 4 MiB by the format).
//! Families: 1 packet headers, 2 v6 unknown-algorithm key material counts, 3 signature areas / subpackets, 4 MPIs,
//! 5 secret keys / SKESKs with hostile S2K, 6 user attribute / literal / compressed inner lengths, 7 armor, 8 cleartext
//! framework, 9 hostile session key material and AEAD chunk sizes, 10 sweep of every one-octet S2K field.
//! usage: c19_bounded <N> [replay-case-hex]   |   c19_bounded probe
#![allow(clippy::too_many_arguments)]
use pgp::armor::{Dearmor, DearmorOptions};
use pgp::composed::{
    CleartextSignedMessage, DecryptionOptions, Deserializable, DetachedSignature, EncryptionCaps, KeyType, Message, PlainSessionKey,
    SecretKeyParamsBuilder, SignedPublicKey, SignedSecretKey, SubkeyParamsBuilder, TheRing,
};
use pgp::crypto::ecc_curve::ECCCurve;
use pgp::packet::{Packet, PacketParser};
use pgp::ser::Serialize;
use pgp::types::{KeyDetails, KeyVersion, Password};
use rand::SeedableRng;
use rand_chacha::{ChaCha20Rng, ChaCha8Rng};
use std::alloc::{GlobalAlloc, Layout, System};
use std::io::{self, BufReader, Read};
use std::panic::{catch_unwind, AssertUnwindSafe};
use std::sync::atomic::{AtomicBool, AtomicU32, AtomicU64, AtomicUsize, Ordering::SeqCst};
use std::sync::Arc;
use std::time::Instant;

// ------------------------------------------------------------------------------------------------------------
// oracle constants (tuned on the unchanged tree: every legitimate case stays below half of the bound)
// ------------------------------------------------------------------------------------------------------------
const BASE: usize = 64 * 1024;
const MULT: usize = 24;
const TIME_GUARD_MS: u64 = 4_000;
/// unlock with an iterated S2K count of 255 hashes 65 MB: allowed by the format, one octet caps it
const TIME_GUARD_KDF_MS: u64 = 20_000;
/// a single request above this is never served: the harness reports the case and stops (keeps the machine alive
/// when a changed library asks for terabytes)
const HARD_CAP: usize = 1 << 31;
/// a case running longer than this is reported by the watchdog thread and the harness stops
const HARD_TIME_MS: u64 = 90_000;

fn bound(supplied: usize) -> usize {
    BASE + MULT * supplied
}

// ------------------------------------------------------------------------------------------------------------
// counting allocator
// ------------------------------------------------------------------------------------------------------------
static CUR: AtomicUsize = AtomicUsize::new(0);
static PEAK: AtomicUsize = AtomicUsize::new(0);
static MAXREQ: AtomicUsize = AtomicUsize::new(0);

static CASE_ID: AtomicU32 = AtomicU32::new(0);
static CASE_ACTIVE: AtomicBool = AtomicBool::new(false);
static CASE_START_MS: AtomicU64 = AtomicU64::new(0);
static TOTAL: AtomicU64 = AtomicU64::new(0);
static FAILURES: AtomicU64 = AtomicU64::new(0);
static mut DESC_BUF: [u8; 400] = [0u8; 400];
static DESC_LEN: AtomicUsize = AtomicUsize::new(0);

struct Counting;

#[inline]
fn note_request(size: usize) {
    if size > HARD_CAP {
        emergency("(alloc)", "a single allocation request above the hard cap of 2 GiB, run stopped; octets requested:", size as u64);
    }
    MAXREQ.fetch_max(size, SeqCst);
}

#[inline]
fn note_grow(size: usize) {
    let cur = CUR.fetch_add(size, SeqCst) + size;
    PEAK.fetch_max(cur, SeqCst);
}

unsafe impl GlobalAlloc for Counting {
    unsafe fn alloc(&self, layout: Layout) -> *mut u8 {
        note_request(layout.size());
        note_grow(layout.size());
        System.alloc(layout)
    }
    unsafe fn alloc_zeroed(&self, layout: Layout) -> *mut u8 {
        note_request(layout.size());
        note_grow(layout.size());
        System.alloc_zeroed(layout)
    }
    unsafe fn realloc(&self, ptr: *mut u8, layout: Layout, new_size: usize) -> *mut u8 {
        note_request(new_size);
        if new_size >= layout.size() {
            note_grow(new_size - layout.size());
        } else {
            CUR.fetch_sub(layout.size() - new_size, SeqCst);
        }
        System.realloc(ptr, layout, new_size)
    }
    unsafe fn dealloc(&self, ptr: *mut u8, layout: Layout) {
        CUR.fetch_sub(layout.size(), SeqCst);
        System.dealloc(ptr, layout)
    }
}

#[global_allocator]
static GLOBAL: Counting = Counting;

/// fixed-size formatting buffer: no allocation
struct StackBuf {
    buf: [u8; 900],
    len: usize,
}
impl core::fmt::Write for StackBuf {
    fn write_str(&mut self, s: &str) -> core::fmt::Result {
        let b = s.as_bytes();
        let n = b.len().min(self.buf.len() - self.len);
        self.buf[self.len..self.len + n].copy_from_slice(&b[..n]);
        self.len += n;
        Ok(())
    }
}

/// Called from the allocator or the watchdog: prints the FAIL line of the running case and the RESULT line without
/// allocating, then ends the process.
fn emergency(clause: &str, why: &str, value: u64) -> ! {
    use core::fmt::Write as _;
    use std::io::Write as _;
    use std::os::fd::FromRawFd;
    let mut sb = StackBuf { buf: [0u8; 900], len: 0 };
    let dl = DESC_LEN.load(SeqCst).min(400);
    #[allow(static_mut_refs)]
    let desc = unsafe { std::str::from_utf8(&DESC_BUF[..dl]).unwrap_or("?") };
    let _ = write!(sb, "FAIL hex={:x} text=\"{}\" {} {} {}\n", CASE_ID.load(SeqCst), desc, clause, why, value);
    let t = TOTAL.load(SeqCst);
    let _ = write!(sb, "RESULT total={} nontrivial={} failures={}\n", t, t, FAILURES.load(SeqCst) + 1);
    let mut out = std::mem::ManuallyDrop::new(unsafe { std::fs::File::from_raw_fd(1) });
    let _ = out.write_all(&sb.buf[..sb.len]);
    std::process::exit(1);
}

static T0: std::sync::OnceLock<Instant> = std::sync::OnceLock::new();
fn now_ms() -> u64 {
    T0.get_or_init(Instant::now).elapsed().as_millis() as u64
}

fn start_watchdog() {
    now_ms();
    std::thread::spawn(|| loop {
        std::thread::sleep(std::time::Duration::from_millis(250));
        if CASE_ACTIVE.load(SeqCst) {
            let run = now_ms().saturating_sub(CASE_START_MS.load(SeqCst));
            if run > HARD_TIME_MS {
                emergency("(time)", "case still running, run stopped by the watchdog; milliseconds:", run);
            }
        }
    });
}

// ------------------------------------------------------------------------------------------------------------
// case runner
// ------------------------------------------------------------------------------------------------------------
#[derive(Default)]
struct Extra {
    /// (octets pulled from the source, allowed)
    pulled: Option<(usize, usize)>,
    /// a violated functional clause, e.g. "(cap) refused parameters were accepted"
    violation: Option<String>,
    /// short outcome for SAMPLE lines
    outcome: String,
}

struct Ctx {
    replay: Option<u32>,
    printed: u64,
    samples: u64,
    stats: bool,
    fam_count: [u32; 16],
    /// per family: worst (maxreq, peak) relative to the bound in permille, worst time
    fam_worst: [(u64, u64, u64); 16],
}

impl Ctx {
    /// `supplied`: octets handed to the library; `extra`: documented additional allowance; `f` runs the library.
    fn case(&mut self, fam: u32, desc: &dyn Fn() -> String, supplied: usize, extra: usize, time_ms: u64, f: &mut dyn FnMut() -> Extra) {
        let idx = self.fam_count[fam as usize];
        self.fam_count[fam as usize] += 1;
        let id = fam << 24 | idx;
        if let Some(r) = self.replay {
            if r != id {
                return;
            }
        }
        let d = desc().replace('"', "'");
        let db = d.as_bytes();
        let n = db.len().min(400);
        #[allow(static_mut_refs)]
        unsafe {
            DESC_BUF[..n].copy_from_slice(&db[..n]);
        }
        DESC_LEN.store(n, SeqCst);
        CASE_ID.store(id, SeqCst);
        TOTAL.fetch_add(1, SeqCst);

        let base = CUR.load(SeqCst);
        PEAK.store(base, SeqCst);
        MAXREQ.store(0, SeqCst);
        CASE_START_MS.store(now_ms(), SeqCst);
        CASE_ACTIVE.store(true, SeqCst);
        let t0 = Instant::now();
        let res = catch_unwind(AssertUnwindSafe(|| f()));
        let ms = t0.elapsed().as_millis() as u64;
        CASE_ACTIVE.store(false, SeqCst);
        let maxreq = MAXREQ.load(SeqCst);
        let peak = PEAK.load(SeqCst).saturating_sub(base);

        let b = bound(supplied) + extra;
        let mut fails: Vec<String> = vec![];
        let mut outcome = String::new();
        match res {
            Err(p) => {
                let msg = p.downcast_ref::<String>().cloned().or_else(|| p.downcast_ref::<&str>().map(|s| s.to_string())).unwrap_or_default();
                fails.push(format!("(panic) the library panicked: {}", short(&msg)));
            }
            Ok(x) => {
                if let Some((pulled, allowed)) = x.pulled {
                    if pulled > allowed {
                        fails.push(format!("(pull) {pulled} octets pulled from the source, allowed {allowed}"));
                    }
                }
                if let Some(v) = x.violation {
                    fails.push(v);
                }
                outcome = x.outcome;
            }
        }
        if maxreq > b {
            fails.push(format!("(alloc) largest single allocation request {maxreq} octets > bound {b} (supplied {supplied} octets)"));
        }
        if peak > b {
            fails.push(format!("(peak) peak live memory {peak} octets above the start > bound {b} (supplied {supplied} octets)"));
        }
        if ms > time_ms {
            fails.push(format!("(time) {ms} ms > guard {time_ms} ms"));
        }
        let w = &mut self.fam_worst[fam as usize];
        w.0 = w.0.max(maxreq as u64 * 1000 / b as u64);
        w.1 = w.1.max(peak as u64 * 1000 / b as u64);
        w.2 = w.2.max(ms);
        if self.stats && (maxreq * 4 > b || peak * 4 > b || ms * 4 > time_ms) {
            eprintln!("STAT {id:x} {d}: maxreq {maxreq} peak {peak} bound {b} ms {ms}");
        }
        if !fails.is_empty() {
            FAILURES.fetch_add(1, SeqCst);
            if self.printed < 20 {
                self.printed += 1;
                println!("FAIL hex={id:x} text=\"{d}\" {}", fails.join("; "));
            }
        } else if self.samples < 3 && (idx % 97 == 5 || self.replay.is_some()) {
            self.samples += 1;
            println!("SAMPLE {d} => {} (largest request {maxreq}, peak {peak}, bound {b}, {ms} ms)", short(&outcome));
        }
    }
}

fn short(s: &str) -> String {
    s.chars().take(100).collect::<String>().replace(['\n', '"'], " ")
}

fn hexs(b: &[u8]) -> String {
    let mut s: String = b.iter().take(40).map(|x| format!("{x:02x}")).collect();
    if b.len() > 40 {
        s.push_str(&format!("..({} octets)", b.len()));
    }
    s
}

fn unhex(s: &str) -> Vec<u8> {
    let c: Vec<u8> = s.bytes().filter(|c| c.is_ascii_hexdigit()).collect();
    c.chunks(2).map(|p| u8::from_str_radix(std::str::from_utf8(p).unwrap(), 16).unwrap()).collect()
}

/// deterministic filler
fn filler(seed: u32, n: usize) -> Vec<u8> {
    let mut x = seed.wrapping_mul(2654435761).wrapping_add(12345);
    (0..n)
        .map(|_| {
            x ^= x << 13;
            x ^= x >> 17;
            x ^= x << 5;
            (x >> 8) as u8
        })
        .collect()
}

// ------------------------------------------------------------------------------------------------------------
// packet framing helpers
// ------------------------------------------------------------------------------------------------------------
fn hdr_new5(tag: u8, len: u32) -> Vec<u8> {
    let mut v = vec![0xC0 | tag, 0xFF];
    v.extend_from_slice(&len.to_be_bytes());
    v
}
fn hdr_old4(tag: u8, len: u32) -> Vec<u8> {
    let mut v = vec![0x80 | (tag << 2) | 2];
    v.extend_from_slice(&len.to_be_bytes());
    v
}
fn hdr_old2(tag: u8, len: u16) -> Vec<u8> {
    let mut v = vec![0x80 | (tag << 2) | 1];
    v.extend_from_slice(&len.to_be_bytes());
    v
}
fn hdr_partial(tag: u8, pow: u8) -> Vec<u8> {
    vec![0xC0 | tag, 0xE0 + pow]
}
/// honest new-format packet
fn pkt(tag: u8, body: &[u8]) -> Vec<u8> {
    let mut v = vec![0xC0 | tag];
    let l = body.len();
    if l < 192 {
        v.push(l as u8);
    } else if l < 8384 {
        let x = l - 192;
        v.push((x >> 8) as u8 + 192);
        v.push(x as u8);
    } else {
        v.push(0xFF);
        v.extend_from_slice(&(l as u32).to_be_bytes());
    }
    v.extend_from_slice(body);
    v
}

// ------------------------------------------------------------------------------------------------------------
// entry points
// ------------------------------------------------------------------------------------------------------------
#[derive(Clone, Copy, Debug, PartialEq)]
enum Entry {
    Pp,
    Msg,
    Pub,
    Sec,
    Sig,
}
const ENTRIES: [Entry; 5] = [Entry::Pp, Entry::Msg, Entry::Pub, Entry::Sec, Entry::Sig];

/// reads a message to its end in 4 KiB pieces (decompressing up to 4 levels), discarding the data
fn drain_message(mut m: Message<'_>) -> String {
    for _ in 0..4 {
        if m.is_compressed() {
            match m.decompress() {
                Ok(x) => m = x,
                Err(e) => return format!("decompress Err: {}", short(&e.to_string())),
            }
        } else {
            break;
        }
    }
    let mut buf = [0u8; 4096];
    let mut total = 0usize;
    loop {
        match m.read(&mut buf) {
            Ok(0) => return format!("read {total} octets to the end"),
            Ok(n) => {
                total += n;
                if total > 64 << 20 {
                    return "stopped reading after 64 MiB".into();
                }
            }
            Err(e) => return format!("read Err after {total}: {}", short(&e.to_string())),
        }
    }
}

fn run_entry(e: Entry, input: &[u8]) -> Extra {
    let outcome = match e {
        Entry::Pp => {
            let (mut ok, mut err) = (0, 0);
            for r in PacketParser::new(input).take(64) {
                match r {
                    Ok(_) => ok += 1,
                    Err(_) => err += 1,
                }
            }
            format!("PacketParser: {ok} packets, {err} errors")
        }
        Entry::Msg => match Message::from_bytes(input) {
            Ok(m) => format!("Message::from_bytes Ok, {}", drain_message(m)),
            Err(e) => format!("Message::from_bytes Err: {}", short(&e.to_string())),
        },
        Entry::Pub => match SignedPublicKey::from_bytes_many(input) {
            Ok(it) => {
                let (mut ok, mut err) = (0, 0);
                for r in it.take(16) {
                    match r {
                        Ok(_) => ok += 1,
                        Err(_) => err += 1,
                    }
                }
                format!("SignedPublicKey::from_bytes_many: {ok} keys, {err} errors")
            }
            Err(e) => format!("SignedPublicKey::from_bytes_many Err: {}", short(&e.to_string())),
        },
        Entry::Sec => match SignedSecretKey::from_bytes_many(input) {
            Ok(it) => {
                let (mut ok, mut err) = (0, 0);
                for r in it.take(16) {
                    match r {
                        Ok(_) => ok += 1,
                        Err(_) => err += 1,
                    }
                }
                format!("SignedSecretKey::from_bytes_many: {ok} keys, {err} errors")
            }
            Err(e) => format!("SignedSecretKey::from_bytes_many Err: {}", short(&e.to_string())),
        },
        Entry::Sig => match DetachedSignature::from_bytes_many(input) {
            Ok(it) => {
                let (mut ok, mut err) = (0, 0);
                for r in it.take(16) {
                    match r {
                        Ok(_) => ok += 1,
                        Err(_) => err += 1,
                    }
                }
                format!("DetachedSignature::from_bytes_many: {ok} signatures, {err} errors")
            }
            Err(e) => format!("DetachedSignature::from_bytes_many Err: {}", short(&e.to_string())),
        },
    };
    Extra { outcome, ..Default::default() }
}

/// runs `input` through every entry point of `entries`
fn all_entries(ctx: &mut Ctx, fam: u32, what: &dyn Fn() -> String, input: &[u8], entries: &[Entry]) {
    for &e in entries {
        ctx.case(fam, &|| format!("{} -> {:?}; input {}", what(), e, hexs(input)), input.len(), 0, TIME_GUARD_MS, &mut || run_entry(e, input));
    }
}

// ------------------------------------------------------------------------------------------------------------
// counting source
// ------------------------------------------------------------------------------------------------------------
#[derive(Debug)]
struct Source {
    prefix: Vec<u8>,
    pattern: Vec<u8>,
    /// total octets this source hands out
    len: usize,
    /// at the end: Err("source budget exhausted") instead of end-of-data
    err_at_end: bool,
    pos: usize,
    delivered: Arc<AtomicUsize>,
}

impl Source {
    fn new(prefix: &[u8], pattern: &[u8], len: usize, err_at_end: bool) -> (Self, Arc<AtomicUsize>) {
        let d = Arc::new(AtomicUsize::new(0));
        (Source { prefix: prefix.to_vec(), pattern: pattern.to_vec(), len, err_at_end, pos: 0, delivered: d.clone() }, d)
    }
}

impl Read for Source {
    fn read(&mut self, buf: &mut [u8]) -> io::Result<usize> {
        if self.pos >= self.len {
            if self.err_at_end {
                return Err(io::Error::other("source budget exhausted"));
            }
            return Ok(0);
        }
        let n = buf.len().min(self.len - self.pos);
        for (k, b) in buf[..n].iter_mut().enumerate() {
            let p = self.pos + k;
            *b = if p < self.prefix.len() { self.prefix[p] } else { self.pattern[(p - self.prefix.len()) % self.pattern.len()] };
        }
        self.pos += n;
        self.delivered.fetch_add(n, SeqCst);
        Ok(n)
    }
}

// ------------------------------------------------------------------------------------------------------------
// family 1: packet headers declaring huge lengths over short bodies
// ------------------------------------------------------------------------------------------------------------
const ALL_LENGTHS: [u32; 12] =
    [1 << 16, 1 << 24, 0x7FFF_FFFF, 0xFFFF_FFFF, (1 << 16) + 1, 1 << 20, 1 << 28, 1 << 30, 1 << 31, 0xFFFF_FFFE, 1 << 17, (1 << 24) + 1];
const ALL_CUTS: [usize; 10] = [0, 1, 2, 5, 64, 3, 8, 13, 21, 34];
const TAGS: [u8; 27] = [0, 1, 2, 3, 4, 5, 6, 7, 8, 9, 10, 11, 12, 13, 14, 15, 16, 17, 18, 19, 20, 21, 22, 39, 40, 60, 63];

fn lengths(n: usize) -> Vec<u32> {
    let mut l = ALL_LENGTHS[..(4 + 2 * n.saturating_sub(1)).min(ALL_LENGTHS.len())].to_vec();
    l.sort();
    l
}
fn cuts(n: usize) -> Vec<usize> {
    ALL_CUTS[..(4 + n).min(ALL_CUTS.len())].to_vec()
}

/// a plausible beginning of a body for the tag (>= 64 octets), so that truncation happens deep inside the field parsers
fn plausible(tag: u8, pubkey_v4: &[u8]) -> Vec<u8> {
    let mut v: Vec<u8> = match tag {
        1 => {
            let mut v = vec![3, 1, 2, 3, 4, 5, 6, 7, 8, 1, 0x08, 0x00];
            v.extend(filler(1, 60));
            v
        }
        2 => vec![4, 0, 1, 8, 0, 5, 2, 0x65, 0, 0, 0, 0, 10, 9, 16, 1, 2, 3, 4, 5, 6, 7, 8, 0xAB, 0xCD, 0x08, 0x00],
        3 => vec![4, 7, 3, 8, 1, 2, 3, 4, 5, 6, 7, 8, 96],
        4 => vec![3, 0, 8, 1, 1, 2, 3, 4, 5, 6, 7, 8, 1],
        5 | 7 => {
            let mut v = pubkey_v4.to_vec();
            v.extend([254, 7, 3, 8, 1, 2, 3, 4, 5, 6, 7, 8, 96]);
            v
        }
        6 | 14 => pubkey_v4.to_vec(),
        8 => vec![1, 0x4b, 0x4c, 0x04, 0x00],
        10 => b"PGP".to_vec(),
        11 => vec![b'b', 3, b'a', b'.', b't', 0x65, 0, 0, 0, b'h', b'i'],
        12 => vec![1, 2],
        13 => b"alice <alice@example.org>".to_vec(),
        17 => vec![20, 1, 0x10, 0x00, 1, 1, 0, 0, 0, 0, 0, 0, 0, 0, 0, 0, 0, 0, 0xFF, 0xD8],
        18 => vec![2, 7, 2, 6],
        19 => filler(19, 20),
        20 => vec![1, 7, 2, 6],
        _ => vec![],
    };
    let f = filler(tag as u32 + 100, 96);
    v.extend(f);
    v
}

fn fam1(ctx: &mut Ctx, n: usize, pubkey_v4: &[u8]) {
    let ls = lengths(n);
    let cs = cuts(n);
    for &tag in &TAGS {
        let bodies = [plausible(tag, pubkey_v4), filler(tag as u32, 96)];
        let mut headers: Vec<(String, Vec<u8>)> = vec![];
        for &l in &ls {
            headers.push((format!("new-format five-octet length {l}"), hdr_new5(tag, l)));
        }
        if tag < 16 {
            for &l in &ls {
                headers.push((format!("legacy four-octet length {l}"), hdr_old4(tag, l)));
            }
            headers.push(("legacy two-octet length 65535".into(), hdr_old2(tag, 65535)));
        }
        headers.push(("partial first chunk 2^30".into(), hdr_partial(tag, 30)));
        if n >= 2 {
            headers.push(("partial first chunk 2^20".into(), hdr_partial(tag, 20)));
            headers.push(("new-format two-octet length 8383".into(), vec![0xC0 | tag, 223, 255]));
        }
        for (hn, h) in &headers {
            for (bi, body) in bodies.iter().enumerate() {
                for &c in &cs {
                    let mut input = h.clone();
                    input.extend_from_slice(&body[..c]);
                    all_entries(
                        ctx,
                        1,
                        &|| format!("tag {tag}, {hn}, {c} octets of {} body", if bi == 0 { "plausible" } else { "filler" }),
                        &input,
                        &ENTRIES,
                    );
                }
            }
        }
    }
}

// ------------------------------------------------------------------------------------------------------------
// family 2: v6 key packets with unknown algorithm, key material count declared huge, up to 20000 octets supplied
// (the inner length drives BufReadParsing::take_bytes); also with a body above the 1 KiB first allocation
// ------------------------------------------------------------------------------------------------------------
fn fam2(ctx: &mut Ctx, n: usize) {
    let ls = lengths(n);
    let mut supplied = vec![0usize, 16, 1000, 1024, 1025, 1500, 4096, 20_000];
    if n >= 2 {
        supplied.extend([1, 512, 1023, 1026, 2048, 8192, 8193, 65_536]);
    }
    for &tag in &[6u8, 14, 5, 7] {
        for &declared in &ls {
            for &s in &supplied {
                for honest in [true, false] {
                    for alg in [99u8, 110] {
                        let mut body = vec![6, 0x65, 0, 0, 0, alg];
                        body.extend_from_slice(&declared.to_be_bytes());
                        body.extend(std::iter::repeat(0xAB).take(s));
                        let plen = if honest { body.len() as u32 } else { declared.saturating_add(10) };
                        let mut input = hdr_new5(tag, plen);
                        input.extend_from_slice(&body);
                        let entries: &[Entry] = if tag == 6 || tag == 14 { &[Entry::Pp, Entry::Pub] } else { &[Entry::Pp, Entry::Sec] };
                        all_entries(
                            ctx,
                            2,
                            &|| format!("v6 key packet tag {tag} unknown algorithm {alg}, key material count {declared}, {s} octets supplied, packet length {}", if honest { "honest" } else { "as declared" }),
                            &input,
                            entries,
                        );
                    }
                }
            }
        }
    }
}

// ------------------------------------------------------------------------------------------------------------
// family 3: signature packets: subpacket areas and subpackets declaring more than is there
// ------------------------------------------------------------------------------------------------------------
fn sig_bodies(n: usize) -> Vec<(String, Vec<u8>)> {
    let cs = cuts(n);
    let mut out: Vec<(String, Vec<u8>)> = vec![];
    let tail = filler(7, 96);
    for &c in &cs {
        for alg in [1u8, 22] {
            // v4, hashed area length 65535
            let mut b = vec![4, 0, alg, 8, 0xFF, 0xFF];
            b.extend_from_slice(&tail[..c]);
            out.push((format!("v4 signature (algorithm {alg}), hashed area length 65535, {c} octets follow"), b));
            // v4, honest empty hashed area, unhashed area length 65535
            let mut b = vec![4, 0, alg, 8, 0, 0, 0xFF, 0xFF];
            b.extend_from_slice(&tail[..c]);
            out.push((format!("v4 signature (algorithm {alg}), unhashed area length 65535, {c} octets follow"), b));
        }
        for l in [0xFFFF_FFFFu32, 0x7FFF_FFFF, 1 << 24, 1 << 16] {
            let mut b = vec![6, 0, 27, 8];
            b.extend_from_slice(&l.to_be_bytes());
            b.extend_from_slice(&tail[..c]);
            out.push((format!("v6 signature, hashed area length {l}, {c} octets follow"), b));
            let mut b = vec![6, 0, 27, 8, 0, 0, 0, 0];
            b.extend_from_slice(&l.to_be_bytes());
            b.extend_from_slice(&tail[..c]);
            out.push((format!("v6 signature, unhashed area length {l}, {c} octets follow"), b));
        }
        // v6 salt length 255
        let mut b = vec![6, 0, 27, 8, 0, 0, 0, 0, 0, 0, 0, 0, 0xAB, 0xCD, 255];
        b.extend_from_slice(&tail[..c]);
        out.push((format!("v6 signature, salt length 255, {c} octets follow"), b));
        // v3 with hashed material length 255
        let mut b = vec![3, 255];
        b.extend_from_slice(&tail[..c]);
        out.push((format!("v3 signature, hashed material length 255, {c} octets follow"), b));
        // subpackets declaring 2^32-1 (five-octet form) and 16319 (two-octet form) inside an honest area
        for typ in [2u8, 16, 20, 32, 33, 100, 127, 2 | 0x80] {
            for (ln, lenc) in [("4294967295", vec![0xFFu8, 0xFF, 0xFF, 0xFF, 0xFF]), ("2147483647", vec![0xFF, 0x7F, 0xFF, 0xFF, 0xFF]), ("16319", vec![0xFE, 0xFF])] {
                let mut sp = lenc.clone();
                sp.push(typ);
                sp.extend_from_slice(&tail[..c]);
                for hashed in [true, false] {
                    let mut b = vec![4, 0, 22, 8];
                    if hashed {
                        b.extend_from_slice(&(sp.len() as u16).to_be_bytes());
                        b.extend_from_slice(&sp);
                        b.extend_from_slice(&[0, 0]);
                    } else {
                        b.extend_from_slice(&[0, 0]);
                        b.extend_from_slice(&(sp.len() as u16).to_be_bytes());
                        b.extend_from_slice(&sp);
                    }
                    b.extend_from_slice(&[0xAB, 0xCD, 0x01, 0x00]);
                    b.extend(filler(9, 32));
                    b.extend_from_slice(&[0x01, 0x00]);
                    b.extend(filler(10, 32));
                    out.push((format!("v4 signature, {} subpacket type {typ} declaring {ln} octets, {c} octets inside", if hashed { "hashed" } else { "unhashed" }), b));
                }
            }
        }
        // notation data: name / value length 65535
        let mut sp = vec![0u8, 20, 0x80, 0, 0, 0, 0xFF, 0xFF, 0xFF, 0xFF];
        sp.extend_from_slice(&tail[..c]);
        sp[0] = (sp.len() - 1) as u8;
        let mut b = vec![4, 0, 22, 8];
        b.extend_from_slice(&(sp.len() as u16).to_be_bytes());
        b.extend_from_slice(&sp);
        b.extend_from_slice(&[0, 0, 0xAB, 0xCD, 0x01, 0x00]);
        b.extend(filler(9, 32));
        b.extend_from_slice(&[0x01, 0x00]);
        b.extend(filler(10, 32));
        out.push((format!("v4 signature, notation subpacket with name and value length 65535, {c} octets inside"), b));
        // embedded signature whose own hashed area says 65535
        let mut inner = vec![4, 0x19, 22, 8, 0xFF, 0xFF];
        inner.extend_from_slice(&tail[..c]);
        let mut sp = vec![(inner.len() + 1) as u8, 32];
        sp.extend_from_slice(&inner);
        let mut b = vec![4, 0x18, 22, 8];
        b.extend_from_slice(&(sp.len() as u16).to_be_bytes());
        b.extend_from_slice(&sp);
        b.extend_from_slice(&[0, 0, 0xAB, 0xCD, 0x01, 0x00]);
        b.extend(filler(9, 32));
        out.push((format!("v4 signature, embedded signature whose hashed area length is 65535, {c} octets inside"), b));
    }
    out
}

fn fam3(ctx: &mut Ctx, n: usize, key_prefix: &[u8]) {
    let literal = pkt(11, &[b'b', 0, 0, 0, 0, 0, b'h', b'i']);
    for (name, body) in sig_bodies(n) {
        for framing in 0..2 {
            let sigpkt = if framing == 0 {
                pkt(2, &body)
            } else {
                let mut v = hdr_new5(2, 0xFFFF_FFFF);
                v.extend_from_slice(&body);
                v
            };
            let fname = if framing == 0 { "honest packet length" } else { "packet length 4294967295" };
            all_entries(ctx, 3, &|| format!("{name}, {fname}"), &sigpkt, &[Entry::Pp, Entry::Sig]);
            if framing == 0 {
                let mut k = key_prefix.to_vec();
                k.extend_from_slice(&sigpkt);
                all_entries(ctx, 3, &|| format!("public key + user id + [{name}]"), &k, &[Entry::Pub]);
                let mut m = sigpkt.clone();
                m.extend_from_slice(&literal);
                all_entries(ctx, 3, &|| format!("[{name}] + literal packet"), &m, &[Entry::Msg]);
            }
        }
    }
}

// ------------------------------------------------------------------------------------------------------------
// family 4: MPIs declaring 65535 / 16385 / 16384 bits over a few octets
// ------------------------------------------------------------------------------------------------------------
fn fam4(ctx: &mut Ctx, n: usize) {
    let cs = cuts(n);
    let tail = filler(11, 96);
    let small_mpi = |seed: u32| {
        let mut v = vec![0x01, 0x00];
        let mut f = filler(seed, 32);
        f[0] |= 0x80;
        v.extend(f);
        v
    };
    let mut bits: Vec<u16> = vec![65535, 16385, 16384];
    if n >= 2 {
        bits.extend([16383, 32768, 8193, 65529]);
    }
    for &bt in &bits {
        for &c in &cs {
            let mut mpi = bt.to_be_bytes().to_vec();
            mpi.extend_from_slice(&tail[..c]);
            let mut shapes: Vec<(String, u8, Vec<u8>, &[Entry])> = vec![];
            for alg in [1u8, 17, 16, 3] {
                // first MPI of a v4 public key
                let mut b = vec![4, 0x65, 0, 0, 0, alg];
                b.extend_from_slice(&mpi);
                shapes.push((format!("v4 public key algorithm {alg}, first MPI"), 6, b, &[Entry::Pp, Entry::Pub]));
                // second MPI
                let mut b = vec![4, 0x65, 0, 0, 0, alg];
                b.extend(small_mpi(1));
                b.extend_from_slice(&mpi);
                shapes.push((format!("v4 public key algorithm {alg}, second MPI"), 6, b, &[Entry::Pp, Entry::Pub]));
            }
            // v3 public key
            let mut b = vec![3, 0x65, 0, 0, 0, 0, 0, 1];
            b.extend_from_slice(&mpi);
            shapes.push(("v3 public key RSA, first MPI".into(), 6, b, &[Entry::Pp, Entry::Pub]));
            // unprotected RSA secret key: d
            let mut b = vec![4, 0x65, 0, 0, 0, 1];
            b.extend(small_mpi(1));
            b.extend_from_slice(&[0x00, 0x11, 0x01, 0x00, 0x01]);
            b.push(0);
            b.extend_from_slice(&mpi);
            shapes.push(("v4 unprotected RSA secret key, MPI d".into(), 5, b, &[Entry::Pp, Entry::Sec]));
            // signatures
            for alg in [1u8, 17, 19, 22] {
                let mut b = vec![4, 0, alg, 8, 0, 0, 0, 0, 0xAB, 0xCD];
                b.extend_from_slice(&mpi);
                shapes.push((format!("v4 signature algorithm {alg}, first MPI"), 2, b, &[Entry::Pp, Entry::Sig]));
            }
            let mut b = vec![4, 0, 17, 8, 0, 0, 0, 0, 0xAB, 0xCD];
            b.extend(small_mpi(2));
            b.extend_from_slice(&mpi);
            shapes.push(("v4 signature DSA, second MPI".into(), 2, b, &[Entry::Pp, Entry::Sig]));
            let mut b = vec![3, 5, 0, 0x65, 0, 0, 0, 1, 2, 3, 4, 5, 6, 7, 8, 1, 8, 0xAB, 0xCD];
            b.extend_from_slice(&mpi);
            shapes.push(("v3 signature RSA, MPI".into(), 2, b, &[Entry::Pp, Entry::Sig]));
            // PKESK
            for alg in [1u8, 16, 18] {
                let mut b = vec![3, 1, 2, 3, 4, 5, 6, 7, 8, alg];
                b.extend_from_slice(&mpi);
                shapes.push((format!("v3 PKESK algorithm {alg}, first MPI"), 1, b, &[Entry::Pp, Entry::Msg]));
            }
            let mut b = vec![6, 0, 1];
            b.extend_from_slice(&mpi);
            shapes.push(("v6 PKESK (anonymous) RSA, MPI".into(), 1, b, &[Entry::Pp, Entry::Msg]));
            for (name, tag, body, entries) in shapes {
                for framing in 0..2 {
                    let p = if framing == 0 {
                        pkt(tag, &body)
                    } else {
                        let mut v = hdr_new5(tag, 0x7FFF_FFFF);
                        v.extend_from_slice(&body);
                        v
                    };
                    all_entries(
                        ctx,
                        4,
                        &|| format!("{name} declaring {bt} bits, {c} octets follow, {}", if framing == 0 { "honest packet length" } else { "packet length 2147483647" }),
                        &p,
                        entries,
                    );
                }
            }
        }
    }
}

// ------------------------------------------------------------------------------------------------------------
// family 5: secret key packets / SKESKs with hostile S2K parameters: parse, then unlock / decrypt with a password
// ------------------------------------------------------------------------------------------------------------
struct S2kCase {
    name: String,
    bytes: Vec<u8>,
    /// Argon2 parameters the library documents as refused (t > 32, p > 32, m above 2 GiB or below the minimum)
    refused: bool,
    argon: bool,
    /// legitimately needed memory (Argon2 controls)
    extra: usize,
    heavy: bool,
}

fn s2k_cases(n: usize) -> Vec<S2kCase> {
    let salt8 = [1u8, 2, 3, 4, 5, 6, 7, 8];
    let salt16 = [9u8; 16];
    let mut v = vec![];
    let mut hashes = vec![8u8];
    if n >= 2 {
        hashes.extend([2, 1, 10, 99]);
    }
    for h in hashes {
        let mut b = vec![3, h];
        b.extend_from_slice(&salt8);
        b.push(255);
        v.push(S2kCase { name: format!("iterated+salted hash {h} count octet 255 (65011712 octets)"), bytes: b, refused: false, argon: false, extra: 0, heavy: true });
    }
    let mut argon = |t: u8, p: u8, m: u8, refused: bool, extra: usize| {
        let mut b = vec![4];
        b.extend_from_slice(&salt16);
        b.extend_from_slice(&[t, p, m]);
        v.push(S2kCase { name: format!("Argon2 t={t} p={p} encoded_m={m}{}", if refused { " (documented as refused)" } else { " (allowed control)" }), bytes: b, refused, argon: true, extra, heavy: false });
    };
    argon(255, 255, 31, true, 0);
    argon(255, 1, 10, true, 0);
    argon(1, 255, 11, true, 0);
    argon(33, 1, 10, true, 0);
    argon(1, 33, 10, true, 0);
    argon(1, 1, 22, true, 0);
    argon(1, 1, 31, true, 0);
    argon(1, 1, 32, true, 0);
    argon(1, 1, 255, true, 0);
    argon(32, 32, 22, true, 0);
    argon(1, 1, 10, false, 2 << 20);
    if n >= 2 {
        argon(255, 255, 255, true, 0);
        argon(128, 4, 16, true, 0);
        argon(3, 64, 16, true, 0);
        argon(1, 4, 1, true, 0);
        argon(1, 1, 64, true, 0);
        argon(2, 2, 11, false, 4 << 20);
    }
    for (typ, nm) in [(2u8, "reserved type 2"), (100, "private type 100"), (77, "unknown type 77")] {
        let mut b = vec![typ];
        b.extend(filler(typ as u32, 24));
        v.push(S2kCase { name: format!("S2K {nm}"), bytes: b, refused: false, argon: false, extra: 0, heavy: false });
    }
    v
}

fn unlock_run(input: &[u8], pw: &Password, refused: bool) -> Extra {
    let mut outcome = String::new();
    let mut violation = None;
    let mut seen = false;
    for r in PacketParser::new(input).take(4) {
        let res = match r {
            Ok(Packet::SecretKey(k)) => Some(k.unlock(pw, |_, _| Ok(()))),
            Ok(Packet::SecretSubkey(k)) => Some(k.unlock(pw, |_, _| Ok(()))),
            Ok(_) => None,
            Err(e) => {
                outcome = format!("parse Err: {}", short(&e.to_string()));
                None
            }
        };
        if let Some(res) = res {
            seen = true;
            match res {
                Ok(_) => {
                    outcome = "unlock Ok".into();
                    if refused {
                        violation = Some("(cap) unlock succeeded with S2K parameters documented as refused".into());
                    }
                }
                Err(e) => outcome = format!("unlock Err: {}", short(&e.to_string())),
            }
        }
    }
    // the composed parser as well
    if let Ok(sk) = SignedSecretKey::from_bytes(input) {
        seen = true;
        match sk.primary_key.unlock(pw, |_, _| Ok(())) {
            Ok(_) => {
                if refused {
                    violation = Some("(cap) unlock (SignedSecretKey) succeeded with S2K parameters documented as refused".into());
                }
            }
            Err(e) => outcome = format!("{outcome}; SignedSecretKey unlock Err: {}", short(&e.to_string())),
        }
    }
    if !seen && outcome.is_empty() {
        outcome = "no secret key packet came out".into();
    }
    Extra { outcome, violation, ..Default::default() }
}

fn fam5(ctx: &mut Ctx, n: usize, pub_v4: &[u8], pub_v6: &[u8]) {
    let pw = Password::from("password");
    let ct = filler(77, 52);
    for sc in s2k_cases(n) {
        for v6 in [false, true] {
            for usage in [253u8, 254, 255] {
                if v6 && usage == 255 {
                    continue;
                }
                let syms: &[u8] = if n >= 2 && !sc.heavy { &[9, 7, 99] } else { &[9] };
                for &sym in syms {
                    let aeads: &[u8] = if usage == 253 && n >= 2 && !sc.heavy { &[2, 1, 3, 99] } else { &[2] };
                    for &aead in aeads {
                        let mut f = vec![];
                        let nonce_len = if usage == 253 { match aead { 1 => 16, 2 => 15, 3 => 12, _ => 0 } } else if sym == 99 { 0 } else { 16 };
                        let nonce = filler(5, nonce_len);
                        match (usage, v6) {
                            (253, false) => {
                                f.extend([253, sym, aead]);
                                f.extend_from_slice(&sc.bytes);
                            }
                            (253, true) => {
                                f.extend([253, (3 + sc.bytes.len() + nonce_len) as u8, sym, aead, sc.bytes.len() as u8]);
                                f.extend_from_slice(&sc.bytes);
                            }
                            (254, true) => {
                                f.extend([254, (2 + sc.bytes.len() + nonce_len) as u8, sym, sc.bytes.len() as u8]);
                                f.extend_from_slice(&sc.bytes);
                            }
                            (u, _) => {
                                f.extend([u, sym]);
                                f.extend_from_slice(&sc.bytes);
                            }
                        }
                        f.extend_from_slice(&nonce);
                        f.extend_from_slice(&ct);
                        let mut body = if v6 { pub_v6.to_vec() } else { pub_v4.to_vec() };
                        body.extend_from_slice(&f);
                        for tag in [5u8, 7] {
                            if tag == 7 && (n < 2 || sc.heavy) {
                                continue;
                            }
                            let input = pkt(tag, &body);
                            // Argon2 outside usage 253 is documented as refused as well
                            let refused = sc.refused || (sc.argon && usage != 253);
                            let extra = if refused { 0 } else { sc.extra };
                            let guard = if sc.heavy { TIME_GUARD_KDF_MS } else { TIME_GUARD_MS };
                            let what = || format!("{} secret key packet tag {tag}, S2K usage {usage}, cipher {sym}, aead {aead}, {}", if v6 { "v6" } else { "v4" }, sc.name);
                            all_entries(ctx, 5, &|| format!("parse {}", what()), &input, &[Entry::Pp, Entry::Sec]);
                            ctx.case(5, &|| format!("unlock with a password: {}; input {}", what(), hexs(&input)), input.len(), extra, guard, &mut || unlock_run(&input, &pw, refused));
                        }
                    }
                }
            }
        }
        // SKESK v4 / v6 in front of an encrypted container, decrypt_with_password
        for ver in [4u8, 6] {
            let mut b = vec![ver];
            if ver == 4 {
                b.push(7);
                b.extend_from_slice(&sc.bytes);
                b.extend(filler(3, 17));
            } else {
                b.extend([(3 + sc.bytes.len() + 15) as u8, 7, 2, sc.bytes.len() as u8]);
                b.extend_from_slice(&sc.bytes);
                b.extend(filler(3, 15 + 32));
            }
            let mut input = pkt(3, &b);
            if ver == 4 {
                let mut s = vec![1u8];
                s.extend(filler(4, 40));
                input.extend(pkt(18, &s));
            } else {
                let mut s = vec![2u8, 7, 2, 0];
                s.extend(filler(4, 32 + 48));
                input.extend(pkt(18, &s));
            }
            let extra = if sc.refused { 0 } else { sc.extra };
            let guard = if sc.heavy { TIME_GUARD_KDF_MS } else { TIME_GUARD_MS };
            let refused = sc.refused;
            ctx.case(
                5,
                &|| format!("v{ver} SKESK with {} + SEIPD, Message::decrypt_with_password; input {}", sc.name, hexs(&input)),
                input.len(),
                extra,
                guard,
                &mut || {
                    let outcome = match Message::from_bytes(&input[..]) {
                        Err(e) => format!("from_bytes Err: {}", short(&e.to_string())),
                        Ok(m) => match m.decrypt_with_password(&pw) {
                            Err(e) => format!("decrypt_with_password Err: {}", short(&e.to_string())),
                            Ok(m) => drain_message(m),
                        },
                    };
                    let violation = if refused && outcome.contains("to the end") { Some("(cap) a message was decrypted with S2K parameters documented as refused".to_string()) } else { None };
                    Extra { outcome, violation, ..Default::default() }
                },
            );
        }
    }
}

// ------------------------------------------------------------------------------------------------------------
// family 6: user attribute / literal / compressed packets declaring huge inner lengths
// ------------------------------------------------------------------------------------------------------------
fn fam6(ctx: &mut Ctx, n: usize, key_prefix: &[u8]) {
    let cs = cuts(n);
    let tail = filler(21, 96);
    for &c in &cs {
        let mut shapes: Vec<(String, u8, Vec<u8>, Vec<Entry>)> = vec![];
        // user attribute subpacket lengths
        for (ln, lenc) in [("4294967295", vec![0xFFu8, 0xFF, 0xFF, 0xFF, 0xFF]), ("2147483647", vec![0xFF, 0x7F, 0xFF, 0xFF, 0xFF]), ("16319", vec![0xFE, 0xFF]), ("65536", vec![0xFF, 0, 1, 0, 0])] {
            for typ in [1u8, 2, 100] {
                let mut b = lenc.clone();
                b.push(typ);
                b.extend_from_slice(&tail[..c]);
                shapes.push((format!("user attribute subpacket type {typ} declaring {ln} octets, {c} octets follow"), 17, b, vec![Entry::Pp, Entry::Pub]));
            }
        }
        // image header lengths (little endian)
        for hl in [0xFFFFu16, 0x8000, 16, 4, 3] {
            for ver in [1u8, 2] {
                for fmt in [1u8, 9] {
                    let mut img = hl.to_le_bytes().to_vec();
                    img.extend([ver, fmt]);
                    img.extend_from_slice(&tail[..c]);
                    let mut b = vec![(img.len() + 1) as u8, 1];
                    b.extend_from_slice(&img);
                    shapes.push((format!("user attribute image header length {hl} version {ver} format {fmt}, {c} octets follow"), 17, b, vec![Entry::Pp, Entry::Pub]));
                }
            }
        }
        // literal data: file name length 255
        for mode in [b'b', b'u', b't', b'x'] {
            let mut b = vec![mode, 255];
            b.extend_from_slice(&tail[..c]);
            shapes.push((format!("literal data mode {} with file name length 255, {c} octets follow", mode as char), 11, b, vec![Entry::Pp, Entry::Msg]));
        }
        // compressed data: algorithm + short garbage / a literal header declaring a huge length inside stored deflate
        for alg in [0u8, 1, 2, 99] {
            let mut b = vec![alg];
            b.extend_from_slice(&tail[..c]);
            shapes.push((format!("compressed data algorithm {alg}, {c} octets of garbage"), 8, b, vec![Entry::Pp, Entry::Msg]));
        }
        {
            // uncompressed (algorithm 0) carrying a literal packet that declares 2^32-1
            let mut inner = hdr_new5(11, 0xFFFF_FFFF);
            inner.extend([b'b', 0, 0, 0, 0, 0]);
            inner.extend_from_slice(&tail[..c]);
            let mut b = vec![0u8];
            b.extend_from_slice(&inner);
            shapes.push((format!("compressed data algorithm 0 carrying a literal packet declaring 4294967295, {c} octets follow"), 8, b.clone(), vec![Entry::Msg]));
            // the same inside a stored deflate block (algorithm 1)
            let mut z = vec![1u8, 0x01];
            z.extend_from_slice(&(inner.len() as u16).to_le_bytes());
            z.extend_from_slice(&(!(inner.len() as u16)).to_le_bytes());
            z.extend_from_slice(&inner);
            shapes.push((format!("compressed data (stored deflate) carrying a literal packet declaring 4294967295, {c} octets follow"), 8, z, vec![Entry::Msg]));
        }
        for (name, tag, body, entries) in shapes {
            for framing in 0..2 {
                let p = if framing == 0 {
                    pkt(tag, &body)
                } else {
                    let mut v = hdr_new5(tag, 0xFFFF_FFFF);
                    v.extend_from_slice(&body);
                    v
                };
                let fname = if framing == 0 { "honest packet length" } else { "packet length 4294967295" };
                for &e in &entries {
                    if e == Entry::Pub {
                        let mut k = key_prefix.to_vec();
                        k.extend_from_slice(&p);
                        all_entries(ctx, 6, &|| format!("public key + user id + [{name}], {fname}"), &k, &[Entry::Pub]);
                    } else {
                        all_entries(ctx, 6, &|| format!("{name}, {fname}"), &p, &[e]);
                    }
                }
            }
        }
    }
}

// ------------------------------------------------------------------------------------------------------------
// family 7: ASCII armor without end, family 8: cleartext signature framework without end
// ------------------------------------------------------------------------------------------------------------
struct ArmorShape {
    name: &'static str,
    prefix: Vec<u8>,
    pattern: Vec<u8>,
    /// the library's accumulation limit applies to this shape (it never leaves the header / footer)
    limited: bool,
}

fn armor_shapes() -> Vec<ArmorShape> {
    let hdr = b"-----BEGIN PGP MESSAGE-----\n".to_vec();
    let mut body = hdr.clone();
    body.extend_from_slice(b"\n");
    for _ in 0..4 {
        body.extend_from_slice(&[b'A'; 64]);
        body.push(b'\n');
    }
    let cat = |a: &[u8], b: &[u8]| {
        let mut v = a.to_vec();
        v.extend_from_slice(b);
        v
    };
    vec![
        ArmorShape { name: "garbage without any dash", prefix: vec![], pattern: b"a".to_vec(), limited: true },
        ArmorShape { name: "garbage lines without any dash", prefix: vec![], pattern: b"xxxxxxx\n".to_vec(), limited: true },
        ArmorShape { name: "four dashes and a letter, repeated", prefix: vec![], pattern: b"----a".to_vec(), limited: true },
        ArmorShape { name: "'-----BEGIN' repeated", prefix: vec![], pattern: b"-----BEGIN".to_vec(), limited: false },
        ArmorShape { name: "BEGIN line without terminator", prefix: b"-----BEGIN PGP MESSAGE".to_vec(), pattern: b"A".to_vec(), limited: false },
        ArmorShape { name: "BEGIN line, then a blank line of spaces without end", prefix: hdr.clone(), pattern: b" ".to_vec(), limited: true },
        ArmorShape { name: "BEGIN line, then a header value without end", prefix: cat(&hdr, b"Comment: "), pattern: b"a".to_vec(), limited: false },
        ArmorShape { name: "BEGIN line, then header lines without end", prefix: hdr.clone(), pattern: b"Comment: 0123456789012345678901234567890123456789012345678901234\n".to_vec(), limited: true },
        ArmorShape { name: "body line without line break", prefix: cat(&hdr, b"\n"), pattern: b"A".to_vec(), limited: false },
        ArmorShape { name: "body of 64-character lines without end", prefix: cat(&hdr, b"\n"), pattern: cat(&[b'A'; 64], b"\n"), limited: false },
        ArmorShape { name: "body, then '=' without end", prefix: body.clone(), pattern: b"=".to_vec(), limited: true },
        ArmorShape { name: "body, then checksum and line breaks without end", prefix: cat(&body, b"=AAAA"), pattern: b"\n".to_vec(), limited: false },
        ArmorShape { name: "body, then an END line without terminator", prefix: cat(&body, b"-----END PGP MESSAGE"), pattern: b"A".to_vec(), limited: false },
    ]
}

fn cleartext_shapes() -> Vec<ArmorShape> {
    let hdr = b"-----BEGIN PGP SIGNED MESSAGE-----\n".to_vec();
    let cat = |a: &[u8], b: &[u8]| {
        let mut v = a.to_vec();
        v.extend_from_slice(b);
        v
    };
    let text = cat(&hdr, b"Hash: SHA256\n\nhello\n");
    let sig = cat(&text, b"-----BEGIN PGP SIGNATURE-----\n");
    vec![
        ArmorShape { name: "cleartext: Hash header with values without end", prefix: cat(&hdr, b"Hash: "), pattern: b"SHA256,".to_vec(), limited: true },
        ArmorShape { name: "cleartext: Hash header lines without end", prefix: hdr.clone(), pattern: b"Hash: SHA256\n".to_vec(), limited: true },
        ArmorShape { name: "cleartext: BEGIN line, blank line of spaces without end", prefix: cat(&hdr, b"Hash: SHA256\n"), pattern: b" ".to_vec(), limited: true },
        ArmorShape { name: "cleartext: text line without end", prefix: cat(&hdr, b"Hash: SHA256\n\n"), pattern: b"a".to_vec(), limited: false },
        ArmorShape { name: "cleartext: text of 64-character lines without end", prefix: cat(&hdr, b"Hash: SHA256\n\n"), pattern: cat(&[b'a'; 64], b"\n"), limited: false },
        ArmorShape { name: "cleartext: signature armor with a blank line of spaces without end", prefix: sig.clone(), pattern: b" ".to_vec(), limited: true },
        ArmorShape { name: "cleartext: signature armor with header lines without end", prefix: sig.clone(), pattern: b"Comment: 0123456789012345678901234567890123456789012345678901234\n".to_vec(), limited: true },
        ArmorShape { name: "cleartext: signature armor body without end", prefix: cat(&sig, b"\n"), pattern: b"A".to_vec(), limited: false },
    ]
}

fn dearmor_drain<R: io::BufRead>(mut d: Dearmor<R>) -> String {
    let mut buf = [0u8; 4096];
    let mut total = 0usize;
    loop {
        match d.read(&mut buf) {
            Ok(0) => return format!("dearmored {total} octets to the end"),
            Ok(n) => total += n,
            Err(e) => return format!("Err after {total} octets: {}", short(&e.to_string())),
        }
    }
}

fn fam78(ctx: &mut Ctx, n: usize) {
    let kib = 1024usize;
    let mut sizes: Vec<usize> = (1..=n).map(|k| k * 64 * kib).collect();
    sizes.insert(0, 300);
    sizes.insert(1, 9000);
    let limits: Vec<usize> = if n >= 2 { vec![kib, 16 * kib, 64 * kib, 4 * kib] } else { vec![kib, 16 * kib, 64 * kib] };
    let chunks: Vec<usize> = if n >= 2 { vec![512, 8192, 1024] } else { vec![512, 8192] };
    for (fam, shapes) in [(7u32, armor_shapes()), (8u32, cleartext_shapes())] {
        for sh in &shapes {
            // (a) default options, finite input
            for &s in &sizes {
                for &chunk in &[8192usize, 1024] {
                    if chunk == 1024 && s > 64 * kib {
                        continue;
                    }
                    let total = sh.prefix.len() + s;
                    ctx.case(
                        fam,
                        &|| format!("{}: {} octets in all, default options, BufReader of {chunk}", sh.name, total),
                        total,
                        0,
                        TIME_GUARD_MS,
                        &mut || {
                            let (src, _d) = Source::new(&sh.prefix, &sh.pattern, total, false);
                            let r = BufReader::with_capacity(chunk, src);
                            let outcome = if fam == 7 {
                                dearmor_drain(Dearmor::new(r))
                            } else {
                                match CleartextSignedMessage::from_armor_buf(r, DearmorOptions::default()) {
                                    Ok(_) => "cleartext Ok".to_string(),
                                    Err(e) => format!("cleartext Err: {}", short(&e.to_string())),
                                }
                            };
                            Extra { outcome, ..Default::default() }
                        },
                    );
                }
                if s <= 64 * kib {
                    // a slice as the source (one single fill_buf)
                    let total = sh.prefix.len() + s;
                    let mut data = vec![];
                    let (mut src, _d) = Source::new(&sh.prefix, &sh.pattern, total, false);
                    src.read_to_end(&mut data).unwrap();
                    ctx.case(fam, &|| format!("{}: {} octets in all, default options, slice source", sh.name, total), total, 0, TIME_GUARD_MS, &mut || {
                        let outcome = if fam == 7 {
                            dearmor_drain(Dearmor::new(&data[..]))
                        } else {
                            match std::str::from_utf8(&data).map(CleartextSignedMessage::from_string) {
                                Ok(Ok(_)) => "cleartext Ok".to_string(),
                                Ok(Err(e)) => format!("cleartext Err: {}", short(&e.to_string())),
                                Err(_) => "not utf8".into(),
                            }
                        };
                        Extra { outcome, ..Default::default() }
                    });
                    if fam == 7 {
                        ctx.case(fam, &|| format!("{}: {} octets in all, Message::from_armor / SignedPublicKey::from_armor_single", sh.name, total), total, 0, TIME_GUARD_MS, &mut || {
                            let a = match Message::from_armor(&data[..]) {
                                Ok((m, _)) => drain_message(m),
                                Err(e) => format!("Err: {}", short(&e.to_string())),
                            };
                            let b = match SignedPublicKey::from_armor_single(&data[..]) {
                                Ok(_) => "key Ok".to_string(),
                                Err(e) => format!("Err: {}", short(&e.to_string())),
                            };
                            Extra { outcome: format!("{a} / {b}"), ..Default::default() }
                        });
                    }
                }
            }
            // (b) small limit, endless source (gives up by itself after limit + 256 KiB)
            for &limit in &limits {
                for &chunk in &chunks {
                    let budget = sh.prefix.len() + limit + 256 * kib;
                    let allowed = sh.prefix.len() + limit + 8 * kib + 2 * chunk;
                    let supplied = if sh.limited { allowed } else { budget };
                    ctx.case(
                        fam,
                        &|| format!("{}: endless source, set_limit({limit}), BufReader of {chunk}", sh.name),
                        supplied,
                        0,
                        TIME_GUARD_MS,
                        &mut || {
                            let (src, d) = Source::new(&sh.prefix, &sh.pattern, budget, true);
                            let r = BufReader::with_capacity(chunk, src);
                            let opt = DearmorOptions::new().set_limit(limit);
                            let outcome = if fam == 7 {
                                dearmor_drain(Dearmor::with_options(r, opt))
                            } else {
                                match CleartextSignedMessage::from_armor_buf(r, opt) {
                                    Ok(_) => "cleartext Ok".to_string(),
                                    Err(e) => format!("cleartext Err: {}", short(&e.to_string())),
                                }
                            };
                            let pulled = d.load(SeqCst);
                            Extra { outcome, pulled: if sh.limited { Some((pulled, allowed)) } else { None }, ..Default::default() }
                        },
                    );
                }
            }
        }
    }
}

// ------------------------------------------------------------------------------------------------------------
// family 9: decryption of hostile session key material (shapes of the panic seeds) and declared AEAD chunk sizes
// ------------------------------------------------------------------------------------------------------------
const SKESK5: &str = "c33d050702030 89f0b7da3e5ea64779099e326e5400a90936cefb4e8eba08c6773716d1f2714540a38fcac529949dac529d3de31e15b4aeb729e330033dbed";
const OCB: &str = "d449010702 0e5ed2bc1e470abe8f1d644c7a6c8a567b0f7701196611a154ba9c2574cd056284a8ef68035c623d93cc708a43211bb6eaf2b27f7c18d571bcd83b20add3a08b73af15b9a098";

fn gen_recipient(seed: u64, enc: KeyType) -> SignedSecretKey {
    let mut rng = ChaCha8Rng::seed_from_u64(seed);
    SecretKeyParamsBuilder::default()
        .key_type(KeyType::Ed25519Legacy)
        .created_at(pgp::types::Timestamp::from_secs(0x6500_0000))
        .can_certify(true)
        .can_sign(true)
        .primary_user_id("recipient <r@example.org>".into())
        .subkey(SubkeyParamsBuilder::default().created_at(pgp::types::Timestamp::from_secs(0x6500_0000)).key_type(enc).can_encrypt(EncryptionCaps::All).build().expect("subkey"))
        .build()
        .expect("params")
        .generate(&mut rng)
        .expect("generate")
}

fn fam9(ctx: &mut Ctx, n: usize) {
    let pw = Password::from("password");
    let empty = Password::empty();
    let skesk5 = unhex(SKESK5);
    let ocb = unhex(OCB);
    // AEAD chunk buffers: twice the declared chunk size (2^(c+6), the format caps c at 16)
    let chunk_extra = |c: u8| if c <= 16 { 4usize << (c as usize + 6) } else { 0 };
    // (a) GnuPG AEAD (packet type 20): v5 SKESK for "password" (AES128) in front of a packet declaring another cipher
    for sym in [7u8, 8, 9, 99] {
        let mut o = ocb.clone();
        o[3] = sym;
        let mut input = skesk5.clone();
        input.extend_from_slice(&o);
        ctx.case(9, &|| format!("v5 SKESK (AES128, password) + OCB packet declaring cipher {sym}, decrypt_the_ring with GnuPG AEAD enabled; input {}", hexs(&input)), input.len(), chunk_extra(14), TIME_GUARD_MS, &mut || {
            let outcome = match Message::from_bytes(&input[..]) {
                Err(e) => format!("from_bytes Err: {}", short(&e.to_string())),
                Ok(m) => {
                    let ring = TheRing { message_password: vec![&pw], decrypt_options: DecryptionOptions::new().enable_gnupg_aead(), ..Default::default() };
                    match m.decrypt_the_ring(ring, true) {
                        Err(e) => format!("decrypt Err: {}", short(&e.to_string())),
                        Ok((m, _)) => drain_message(m),
                    }
                }
            };
            let violation = if sym != 7 && outcome.contains("to the end") { Some("(cap) a cipher mismatch decrypted".to_string()) } else { None };
            Extra { outcome, violation, ..Default::default() }
        });
    }
    // caller-supplied session keys of every length against every cipher / chunk size octet
    let maxlen = 40 + 8 * n;
    for sym in [7u8, 8, 9] {
        for len in 0..=maxlen {
            for (kind, chunk) in [(5u8, 14u8), (5, 0), (6, 0), (6, 6)] {
                let key: Vec<u8> = vec![0x42; len];
                let (input, sk) = if kind == 5 {
                    let mut o = ocb.clone();
                    o[3] = sym;
                    o[5] = chunk;
                    (o, PlainSessionKey::V5 { key: key.into() })
                } else {
                    let mut s = vec![2u8, sym, 2, chunk];
                    s.extend(filler(4, 32 + 70));
                    (pkt(18, &s), PlainSessionKey::V6 { key: key.into() })
                };
                ctx.case(9, &|| format!("v{kind} session key of {len} octets, container declaring cipher {sym} chunk size octet {chunk}; input {}", hexs(&input)), input.len(), chunk_extra(chunk), TIME_GUARD_MS, &mut || {
                    let outcome = match Message::from_bytes(&input[..]) {
                        Err(e) => format!("from_bytes Err: {}", short(&e.to_string())),
                        Ok(m) => {
                            let ring = TheRing { session_keys: vec![sk.clone()], decrypt_options: DecryptionOptions::new().enable_gnupg_aead(), ..Default::default() };
                            match m.decrypt_the_ring(ring, true) {
                                Err(e) => format!("decrypt Err: {}", short(&e.to_string())),
                                Ok((m, _)) => drain_message(m),
                            }
                        }
                    };
                    let violation = if outcome.contains("to the end") { Some("(cap) a garbage session key decrypted".to_string()) } else { None };
                    Extra { outcome, violation, ..Default::default() }
                });
            }
        }
    }
    // (b) every chunk size octet of SEIPDv2 / OCB packets with a fitting session key over a short body
    for c in 0..=255u8 {
        if n < 2 && c > 24 && c % 16 != 0 && c != 255 {
            continue;
        }
        for kind in [6u8, 5] {
            let key: Vec<u8> = vec![0x42; 16];
            let (input, sk) = if kind == 5 {
                let mut o = ocb.clone();
                o[5] = c;
                (o, PlainSessionKey::V5 { key: key.into() })
            } else {
                let mut s = vec![2u8, 7, 2, c];
                s.extend(filler(4, 32 + 40));
                (pkt(18, &s), PlainSessionKey::V6 { key: key.into() })
            };
            ctx.case(9, &|| format!("AEAD container (session key v{kind}) declaring chunk size octet {c} over a short body; input {}", hexs(&input)), input.len(), chunk_extra(c), TIME_GUARD_MS, &mut || {
                let outcome = match Message::from_bytes(&input[..]) {
                    Err(e) => format!("from_bytes Err: {}", short(&e.to_string())),
                    Ok(m) => {
                        let ring = TheRing { session_keys: vec![sk.clone()], decrypt_options: DecryptionOptions::new().enable_gnupg_aead(), ..Default::default() };
                        match m.decrypt_the_ring(ring, true) {
                            Err(e) => format!("decrypt Err: {}", short(&e.to_string())),
                            Ok((m, _)) => drain_message(m),
                        }
                    }
                };
                Extra { outcome, ..Default::default() }
            });
        }
    }
    // (c) PKESKs for X25519 / X448 / ECDH recipients whose wrapped session key has every short length
    let seipd = {
        let mut b = vec![1u8];
        b.extend_from_slice(&[0xAA; 40]);
        pkt(18, &b)
    };
    let recipients = [
        ("X25519", gen_recipient(4, KeyType::X25519), 25u8, 32usize),
        ("X448", gen_recipient(5, KeyType::X448), 26, 56),
        ("ECDH Curve25519", gen_recipient(6, KeyType::ECDH(ECCCurve::Curve25519Legacy)), 18, 0),
    ];
    for (rname, key, alg, eph_len) in &recipients {
        let sub = &key.secret_subkeys[0];
        let key_id = sub.key.legacy_key_id();
        let fp = sub.key.fingerprint();
        let mut eph = vec![0u8; *eph_len];
        if *eph_len > 0 {
            eph[0] = if *eph_len == 32 { 9 } else { 5 };
        }
        for wl in 0..=(40 + 8 * n) {
            for ver in [3u8, 6] {
                let mut body = vec![ver];
                if ver == 3 {
                    body.extend_from_slice(key_id.as_ref());
                } else {
                    body.push(1 + fp.as_bytes().len() as u8);
                    body.push(4);
                    body.extend_from_slice(fp.as_bytes());
                }
                body.push(*alg);
                if *alg == 18 {
                    body.extend_from_slice(&[0x01, 0x07, 0x40]);
                    let mut p = vec![0u8; 32];
                    p[0] = 9;
                    body.extend_from_slice(&p);
                    body.push(wl as u8);
                    body.extend(filler(wl as u32, wl));
                } else {
                    body.extend_from_slice(&eph);
                    if ver == 3 {
                        body.push((wl + 1) as u8);
                        body.push(7);
                    } else {
                        body.push(wl as u8);
                    }
                    body.extend(filler(wl as u32, wl));
                }
                let pk = pkt(1, &body);
                let mut input = pk.clone();
                input.extend_from_slice(&seipd);
                ctx.case(9, &|| format!("v{ver} PKESK for the {rname} recipient with a wrapped session key of {wl} octets + SEIPDv1, Message::decrypt; input {}", hexs(&input)), input.len(), 0, TIME_GUARD_MS, &mut || {
                    // packet level
                    let mut outcome = String::new();
                    if let Some(Ok(Packet::PublicKeyEncryptedSessionKey(p))) = PacketParser::new(&pk[..]).next() {
                        if let Ok(values) = p.values() {
                            use pgp::types::DecryptionKey;
                            let typ = if ver == 3 { pgp::types::EskType::V3_4 } else { pgp::types::EskType::V6 };
                            outcome = match sub.key.decrypt(&empty, values, typ) {
                                Ok(Ok(_)) => "subkey.decrypt Ok".into(),
                                Ok(Err(e)) => format!("subkey.decrypt Err: {}", short(&e.to_string())),
                                Err(e) => format!("unlock Err: {}", short(&e.to_string())),
                            };
                        }
                    }
                    let o2 = match Message::from_bytes(&input[..]) {
                        Err(e) => format!("from_bytes Err: {}", short(&e.to_string())),
                        Ok(m) => match m.decrypt(&empty, key) {
                            Err(e) => format!("decrypt Err: {}", short(&e.to_string())),
                            Ok(m) => drain_message(m),
                        },
                    };
                    let violation = if o2.contains("to the end") { Some("(cap) a garbage wrapped key decrypted".to_string()) } else { None };
                    Extra { outcome: format!("{outcome} / {o2}"), violation, ..Default::default() }
                });
            }
        }
    }
}

// ------------------------------------------------------------------------------------------------------------
// family 10: every value of each one-octet S2K field in turn (Argon2 t / p / encoded m, iterated count, hash ids)
// through StringToKey::derive_key, SKESK v4 / v6 + decrypt_with_password, usage 253 / 254 secret key unlock
// ------------------------------------------------------------------------------------------------------------
struct Spec {
    name: String,
    bytes: Vec<u8>,
    /// documented as refused (or not computable: unknown hash): every route must end in Err
    refused: bool,
    argon: bool,
    extra: usize,
    heavy: bool,
    /// 2^encoded_m KiB for accepted Argon2 specifiers (to keep the quick bound short)
    m_enc: u8,
}

fn sweep_specs() -> Vec<Spec> {
    let salt8 = [1u8, 2, 3, 4, 5, 6, 7, 8];
    let mut v = vec![];
    let mut argon = |t: u8, p: u8, m: u8, salt: u8| {
        // RFC 9580 3.7.1.4 / the library's documented caps: t, p in 1..=32, 3+ceil(log2 p) <= encoded m, m <= 2 GiB;
        // the argon2 parameter rules (m >= 8 p KiB) refuse encoded m < 3 + ceil(log2 p)
        let min_m = 3 + (p.max(1) as f32).log2().ceil() as u8;
        let refused = t == 0 || p == 0 || t > 32 || p > 32 || m < min_m || m > 21;
        let mut b = vec![4];
        b.extend_from_slice(&[salt; 16]);
        b.extend_from_slice(&[t, p, m]);
        let extra = if refused { 0 } else { 2usize << (m as usize + 10) };
        v.push(Spec { name: format!("Argon2 t={t} p={p} encoded_m={m}{}", if refused { " (refused)" } else { "" }), bytes: b, refused, argon: true, extra, heavy: false, m_enc: m });
    };
    for x in 0..=255u8 {
        argon(x, 1, 10, 9);
    }
    for x in 0..=255u8 {
        argon(1, x, 10, 9);
    }
    for x in 0..=255u8 {
        // accepted and expensive (encoded m 17..=21: 128 MiB .. 2 GiB) is left out
        if (17..=21).contains(&x) {
            continue;
        }
        argon(1, 1, x, 9);
    }
    argon(0, 0, 0, 0);
    for count in [0u8, 255] {
        for h in [8u8, 0, 255] {
            let mut b = vec![3, h];
            b.extend_from_slice(&salt8);
            b.push(count);
            v.push(Spec { name: format!("iterated+salted hash id {h} count octet {count}"), bytes: b, refused: h != 8, argon: false, extra: 0, heavy: count == 255 && h == 8, m_enc: 0 });
        }
    }
    for h in [0u8, 255, 8] {
        let mut b = vec![1, h];
        b.extend_from_slice(&salt8);
        v.push(Spec { name: format!("salted hash id {h}"), bytes: b, refused: h != 8, argon: false, extra: 0, heavy: false, m_enc: 0 });
        v.push(Spec { name: format!("simple hash id {h}"), bytes: vec![0, h], refused: h != 8, argon: false, extra: 0, heavy: false, m_enc: 0 });
    }
    v
}

fn fam10(ctx: &mut Ctx, n: usize, pub_v4: &[u8], pub_v6: &[u8]) {
    let pw = Password::from("password");
    let ct = filler(77, 52);
    for sc in sweep_specs() {
        let guard = if sc.heavy { TIME_GUARD_KDF_MS } else { TIME_GUARD_MS };
        // (a) StringToKey::derive_key directly
        ctx.case(10, &|| format!("StringToKey::try_from_reader + derive_key(password, 32): {}; specifier {}", sc.name, hexs(&sc.bytes)), sc.bytes.len(), sc.extra, guard, &mut || {
            let (outcome, violation) = match pgp::types::StringToKey::try_from_reader(&sc.bytes[..]) {
                Err(e) => (format!("parse Err: {}", short(&e.to_string())), None),
                Ok(s2k) => match s2k.derive_key(b"password", 32) {
                    Ok(k) => (format!("derive_key Ok ({} octets)", k.len()), if sc.refused { Some("(cap) derive_key succeeded with parameters documented as refused".to_string()) } else { None }),
                    Err(e) => (format!("derive_key Err: {}", short(&e.to_string())), if sc.refused { None } else { Some(format!("(cap) derive_key refused allowed parameters: {}", short(&e.to_string()))) }),
                },
            };
            Extra { outcome, violation, ..Default::default() }
        });
        // the packet routes repeat the same derivation: at scale 1 the larger accepted memory sizes and the
        // 65 MB iteration (already run through these routes in family 5) go through derive_key only
        if (n < 2 && !sc.refused && sc.m_enc > 12) || sc.heavy {
            continue;
        }
        // (b) SKESK v4 / v6 + SEIPD, decrypt_with_password
        for ver in [4u8, 6] {
            let mut b = vec![ver];
            let mut input;
            if ver == 4 {
                b.push(7);
                b.extend_from_slice(&sc.bytes);
                b.extend(filler(3, 17));
                input = pkt(3, &b);
                let mut s = vec![1u8];
                s.extend(filler(4, 40));
                input.extend(pkt(18, &s));
            } else {
                b.extend([(3 + sc.bytes.len() + 15) as u8, 7, 2, sc.bytes.len() as u8]);
                b.extend_from_slice(&sc.bytes);
                b.extend(filler(3, 15 + 32));
                input = pkt(3, &b);
                let mut s = vec![2u8, 7, 2, 0];
                s.extend(filler(4, 32 + 48));
                input.extend(pkt(18, &s));
            }
            let refused = sc.refused;
            ctx.case(10, &|| format!("v{ver} SKESK with {} + SEIPD, Message::decrypt_with_password; input {}", sc.name, hexs(&input)), input.len(), sc.extra, guard, &mut || {
                let outcome = match Message::from_bytes(&input[..]) {
                    Err(e) => format!("from_bytes Err: {}", short(&e.to_string())),
                    Ok(m) => match m.decrypt_with_password(&pw) {
                        Err(e) => format!("decrypt_with_password Err: {}", short(&e.to_string())),
                        Ok(m) => drain_message(m),
                    },
                };
                let violation = if refused && outcome.contains("to the end") { Some("(cap) a message was decrypted with S2K parameters documented as refused".to_string()) } else { None };
                Extra { outcome, violation, ..Default::default() }
            });
        }
        // (c) secret key packets: usage 253 (v4, v6) and 254 (v4), unlock with a password
        for (v6, usage) in [(false, 253u8), (true, 253), (false, 254)] {
            let nonce_len = if usage == 253 { 15 } else { 16 };
            let mut f = vec![];
            match (usage, v6) {
                (253, false) => f.extend([253, 9, 2]),
                (253, true) => f.extend([253, (3 + sc.bytes.len() + nonce_len) as u8, 9, 2, sc.bytes.len() as u8]),
                _ => f.extend([usage, 9]),
            }
            f.extend_from_slice(&sc.bytes);
            f.extend(filler(5, nonce_len));
            f.extend_from_slice(&ct);
            let mut body = if v6 { pub_v6.to_vec() } else { pub_v4.to_vec() };
            body.extend_from_slice(&f);
            let input = pkt(5, &body);
            let refused = sc.refused || (sc.argon && usage != 253);
            let extra = if refused { 0 } else { sc.extra };
            ctx.case(10, &|| format!("unlock with a password: {} secret key, S2K usage {usage}, {}; input {}", if v6 { "v6" } else { "v4" }, sc.name, hexs(&input)), input.len(), extra, guard, &mut || unlock_run(&input, &pw, refused));
        }
    }
}

// ------------------------------------------------------------------------------------------------------------
fn gen_primary(seed: u64, typ: KeyType, version: KeyVersion) -> SignedSecretKey {
    let mut rng = ChaCha20Rng::seed_from_u64(seed);
    SecretKeyParamsBuilder::default()
        .version(version)
        .created_at(pgp::types::Timestamp::from_secs(0x6500_0000))
        .key_type(typ)
        .can_certify(true)
        .can_sign(true)
        .primary_user_id("a <a@example.org>".into())
        .build()
        .expect("params")
        .generate(&mut rng)
        .expect("generate")
}

/// `c19_bounded probe`: measurements behind the findings reported next to this unit (not part of the check)
fn probe() {
    std::env::set_var("RUST_LIB_BACKTRACE", "0");
    let measure = |name: &str, supplied: usize, f: &mut dyn FnMut() -> String| {
        let base = CUR.load(SeqCst);
        PEAK.store(base, SeqCst);
        MAXREQ.store(0, SeqCst);
        let t0 = Instant::now();
        let o = f();
        let ms = t0.elapsed().as_millis();
        println!("PROBE {name}: supplied {supplied}, {ms} ms, largest request {}, peak {} ({:.1} x supplied) => {}", MAXREQ.load(SeqCst), PEAK.load(SeqCst) - base, (PEAK.load(SeqCst) - base) as f64 / supplied.max(1) as f64, short(&o));
    };
    for (pat, kib) in [("a\n", 64usize), ("a\n", 128), ("a\n", 256), ("a\n", 512), ("\n", 256)] {
        let mut t = String::from("-----BEGIN PGP SIGNED MESSAGE-----\nHash: SHA256\n\n");
        while t.len() < kib * 1024 {
            t.push_str(pat);
        }
        measure(&format!("cleartext text of {kib} KiB made of {pat:?} lines, from_string"), t.len(), &mut || match CleartextSignedMessage::from_string(&t) {
            Ok(_) => "Ok".into(),
            Err(e) => e.to_string(),
        });
    }
    for (pat, kib, chunk) in [("a:\n", 256usize, 8192usize), ("a: b\n", 256, 8192), ("a", 1024, 512), ("a", 4096, 512), ("a", 4096, 8192)] {
        let total = kib * 1024;
        measure(&format!("armor: BEGIN line + {pat:?} repeated, {kib} KiB, default options, BufReader {chunk}"), total, &mut || {
            let prefix: &[u8] = if pat == "a" { b"" } else { b"-----BEGIN PGP MESSAGE-----\n" };
            let (src, _d) = Source::new(prefix, pat.as_bytes(), total, false);
            dearmor_drain(Dearmor::new(BufReader::with_capacity(chunk, src)))
        });
    }
}

fn main() {
    let args: Vec<String> = std::env::args().collect();
    if args.get(1).map(|s| s == "probe").unwrap_or(false) {
        probe();
        return;
    }
    let n: usize = args.get(1).and_then(|s| s.parse().ok()).unwrap_or(1).max(1);
    let replay: Option<u32> = args.get(2).and_then(|s| u32::from_str_radix(s, 16).ok());
    // backtrace capture / symbolication of error values is a debugging facility (it reads the debug info of the
    // binary: tens of MB); the measurement runs with it switched off whatever the environment says
    std::env::set_var("RUST_BACKTRACE", "0");
    std::env::set_var("RUST_LIB_BACKTRACE", "0");
    std::panic::set_hook(Box::new(|_| {}));
    start_watchdog();

    let k4 = gen_primary(1, KeyType::Ed25519Legacy, KeyVersion::V4);
    let k6 = gen_primary(2, KeyType::Ed25519, KeyVersion::V6);
    let pub_v4 = k4.primary_key.public_key().to_bytes().expect("serialize");
    let pub_v6 = k6.primary_key.public_key().to_bytes().expect("serialize");
    let mut key_prefix = pkt(6, &pub_v4);
    key_prefix.extend(pkt(13, b"a <a@example.org>"));
    // the hand-built framing of the real public key parses
    assert!(matches!(PacketParser::new(&key_prefix[..]).next(), Some(Ok(Packet::PublicKey(_)))));

    let mut ctx = Ctx { replay, printed: 0, samples: 0, stats: std::env::var("C19_STATS").is_ok(), fam_count: [0; 16], fam_worst: [(0, 0, 0); 16] };
    let only: Option<u32> = replay.map(|r| r >> 24).or_else(|| std::env::var("C19_FAMILY").ok().and_then(|s| s.parse().ok()));
    let want = |f: u32| only.map(|o| o == f).unwrap_or(true);
    if want(1) {
        fam1(&mut ctx, n, &pub_v4);
    }
    if want(2) {
        fam2(&mut ctx, n);
    }
    if want(3) {
        fam3(&mut ctx, n, &key_prefix);
    }
    if want(4) {
        fam4(&mut ctx, n);
    }
    if want(5) {
        fam5(&mut ctx, n, &pub_v4, &pub_v6);
    }
    if want(6) {
        fam6(&mut ctx, n, &key_prefix);
    }
    if want(7) || want(8) {
        fam78(&mut ctx, n);
    }
    if want(9) {
        fam9(&mut ctx, n);
    }
    if want(10) {
        fam10(&mut ctx, n, &pub_v4, &pub_v6);
    }
    if ctx.stats {
        for (f, w) in ctx.fam_worst.iter().enumerate() {
            if ctx.fam_count[f] > 0 {
                eprintln!("STAT family {f}: {} cases, worst request {} permille of the bound, worst peak {} permille, worst time {} ms", ctx.fam_count[f], w.0, w.1, w.2);
            }
        }
    }
    let t = TOTAL.load(SeqCst);
    println!("RESULT total={} nontrivial={} failures={}", t, t, FAILURES.load(SeqCst));
}
