// ---------------------------------------------------------------------------------
// lemmas/packet_wire.rs - RFC 9580 wire layouts of packet bodies as spec functions of the FIELD
// VALUES (octets and octet strings), written from the RFC sections quoted at each function, not
// from the code.  The units (U60s..U65s) define `wire(x)` of an extracted Rust type by plugging the
// fields of x into these layouts.  Pure spec/proof code: nothing is assumed here.
// Include after shims/io.rs (be16 / be32).
// ---------------------------------------------------------------------------------

// ---- scalars (RFC 9580 3.1: unsigned, big-endian) ------------------------------------------
pub open spec fn scalar32(s: Seq<u8>) -> nat
    recommends s.len() == 4
{
    (s[0] as nat) * 16777216 + (s[1] as nat) * 65536 + (s[2] as nat) * 256 + (s[3] as nat)
}
pub open spec fn scalar16(s: Seq<u8>) -> nat
    recommends s.len() == 2
{
    (s[0] as nat) * 256 + (s[1] as nat)
}
pub proof fn lemma_be32_scalar(v: u32)
    ensures be32(v).len() == 4, scalar32(be32(v)) == v
{
    let a = (v >> 24) as u8; let b = ((v >> 16) & 0xff) as u8; let c = ((v >> 8) & 0xff) as u8; let d = (v & 0xff) as u8;
    assert(v == ((v >> 24) as u8) as u32 * 16777216 + (((v >> 16) & 0xff) as u8) as u32 * 65536 + (((v >> 8) & 0xff) as u8) as u32 * 256 + ((v & 0xff) as u8) as u32) by (bit_vector);
}
pub proof fn lemma_be16_scalar(v: u16)
    ensures be16(v).len() == 2, scalar16(be16(v)) == v
{
    assert(v == ((v >> 8) as u8) as u16 * 256 + ((v & 0xff) as u8) as u16) by (bit_vector);
}
/// big-endian encodings are injective
pub proof fn lemma_be32_inj(a: u32, b: u32)
    requires be32(a) == be32(b)
    ensures a == b
{
    lemma_be32_scalar(a); lemma_be32_scalar(b);
}
pub proof fn lemma_be16_inj(a: u16, b: u16)
    requires be16(a) == be16(b)
    ensures a == b
{
    lemma_be16_scalar(a); lemma_be16_scalar(b);
}

// ---- RFC 9580 5.2.3.7: signature subpacket length ------------------------------------------
//   if the 1st octet <  192, then lengthOfLength = 1, subpacketLen = 1st_octet
//   if the 1st octet >= 192 and < 255, then lengthOfLength = 2,
//        subpacketLen = ((1st_octet - 192) << 8) + (2nd_octet) + 192
//   if the 1st octet = 255, then lengthOfLength = 5, subpacket length = [four-octet scalar starting at 2nd_octet]
// (NOT the packet-length rule of 4.2.1: there the two-octet range ends at first octet 223 / 8383
//  and 224..254 are partial lengths; here it runs to first octet 254, i.e. 16319.)
/// decoder read off the RFC: (lengthOfLength, subpacketLen), None if the octets are not all there
pub open spec fn splen_dec(s: Seq<u8>) -> Option<(int, nat)> {
    if s.len() == 0 { None }
    else if s[0] < 192 { Some((1int, s[0] as nat)) }
    else if s[0] < 255 {
        if s.len() < 2 { None } else { Some((2int, ((s[0] - 192) * 256 + s[1] + 192) as nat)) }
    } else {
        if s.len() < 5 { None } else { Some((5int, scalar32(s.subrange(1, 5)))) }
    }
}
/// which numbers a `w`-octet length can carry
pub open spec fn splen_enc_ok(w: int, n: nat) -> bool {
    (w == 1 && n < 192) || (w == 2 && 192 <= n <= 16319) || (w == 5 && n <= 0xFFFF_FFFF)
}
/// the `w`-octet encoding of n (the inverse of the rule above on its range)
pub open spec fn splen_enc(w: int, n: nat) -> Seq<u8> {
    if w == 1 { seq![n as u8] }
    else if w == 2 { seq![((n - 192) / 256 + 192) as u8, ((n - 192) % 256) as u8] }
    else { seq![255u8] + be32(n as u32) }
}
/// the shortest encoding ("a one-octet length ... two-octet ... five-octet")
pub open spec fn splen_min_width(n: nat) -> int { if n < 192 { 1 } else if n <= 16319 { 2 } else { 5 } }

pub proof fn lemma_splen_enc_len(w: int, n: nat)
    requires splen_enc_ok(w, n)
    ensures splen_enc(w, n).len() == w
{
}
/// decode(encode(w, n) ++ t) == (w, n): every encoding is read back with its width and value
pub proof fn lemma_splen_dec_enc(w: int, n: nat, t: Seq<u8>)
    requires splen_enc_ok(w, n)
    ensures splen_dec(splen_enc(w, n) + t) == Some((w, n)), (splen_enc(w, n) + t).skip(w) == t
{
    let s = splen_enc(w, n) + t;
    if w == 1 {
        assert(s[0] == n as u8);
    } else if w == 2 {
        let q = (n - 192) / 256; let r = (n - 192) % 256;
        assert(q <= 62);
        assert(s[0] == (q + 192) as u8 && s[1] == r as u8);
        assert((s[0] - 192) * 256 + s[1] + 192 == n);
    } else {
        lemma_be32_scalar(n as u32);
        assert(s[0] == 255u8);
        assert(s.subrange(1, 5) =~= be32(n as u32));
    }
    assert(s.skip(w) =~= t);
}
/// encode(decode(s)) is the prefix of s that was decoded: a length keeps its original encoding
pub proof fn lemma_splen_enc_dec(s: Seq<u8>)
    requires splen_dec(s) is Some
    ensures ({
        let (w, n) = splen_dec(s).unwrap();
        &&& splen_enc_ok(w, n) && w <= s.len()
        &&& s == splen_enc(w, n) + s.skip(w)
    })
{
    let (w, n) = splen_dec(s).unwrap();
    if w == 1 {
        assert(s =~= splen_enc(w, n) + s.skip(w));
    } else if w == 2 {
        let a = s[0] as int; let b = s[1] as int;
        assert(n == (a - 192) * 256 + b + 192);
        assert((n - 192) / 256 == a - 192 && (n - 192) % 256 == b) by (nonlinear_arith)
            requires n == (a - 192) * 256 + b + 192, 0 <= b < 256, 192 <= a < 255;
        assert(s =~= splen_enc(w, n) + s.skip(w));
    } else {
        let f = s.subrange(1, 5);
        let v = scalar32(f) as u32;
        lemma_be32_scalar(v);
        // be32(v) has the same scalar as f, and scalars of 4 octets are injective
        assert(be32(v) =~= f) by {
            let g = be32(v);
            assert(scalar32(g) == scalar32(f));
            assert(g[0] == f[0] && g[1] == f[1] && g[2] == f[2] && g[3] == f[3]) by (nonlinear_arith)
                requires (g[0] as nat) * 16777216 + (g[1] as nat) * 65536 + (g[2] as nat) * 256 + (g[3] as nat)
                    == (f[0] as nat) * 16777216 + (f[1] as nat) * 65536 + (f[2] as nat) * 256 + (f[3] as nat),
                    g[0] < 256, g[1] < 256, g[2] < 256, g[3] < 256, f[0] < 256, f[1] < 256, f[2] < 256, f[3] < 256;
        }
        assert(s =~= splen_enc(w, n) + s.skip(w));
    }
}
/// two encodings followed by anything agree only if width, value and tail agree
pub proof fn lemma_splen_unique(w1: int, n1: nat, t1: Seq<u8>, w2: int, n2: nat, t2: Seq<u8>)
    requires splen_enc_ok(w1, n1), splen_enc_ok(w2, n2), splen_enc(w1, n1) + t1 == splen_enc(w2, n2) + t2
    ensures w1 == w2, n1 == n2, t1 == t2
{
    lemma_splen_dec_enc(w1, n1, t1);
    lemma_splen_dec_enc(w2, n2, t2);
}

// ---- RFC 9580 5.2.3.7: one signature subpacket ---------------------------------------------
//   "the subpacket length (1, 2, or 5 octets), the encoded subpacket type ID (1 octet), and the
//    subpacket-specific data.  The length includes the encoded subpacket type ID octet but not this length."
//   "Bit 7 of the encoded subpacket type ID is the 'critical' bit."
pub open spec fn sp_type_octet(id: u8, critical: bool) -> u8 { if critical { (id | 0x80u8) } else { id } }
pub open spec fn subpacket_enc(w: int, type_octet: u8, body: Seq<u8>) -> Seq<u8> {
    splen_enc(w, 1 + body.len()) + seq![type_octet] + body
}

// ---- RFC 9580 5.4: One-Pass Signature packet (type ID 4) ---------------------------------------
//   A one-octet version number (3 or 6).  A one-octet signature type ID.  A one-octet hash algorithm ID.
//   A one-octet public-key algorithm ID.
//   Only for version 6: a variable-length field containing a one-octet salt size [...] and the salt.
//   Only for version 3: the eight-octet Key ID of the signer.
//   Only for version 6: the 32 octets of the fingerprint of the signing key.
//   A one-octet number holding a flag showing whether the signature is nested.
pub open spec fn ops_v3_layout(typ: u8, hash: u8, pk: u8, key_id: Seq<u8>, nested: u8) -> Seq<u8>
    recommends key_id.len() == 8
{
    seq![3u8, typ, hash, pk] + key_id + seq![nested]
}
pub open spec fn ops_v6_layout(typ: u8, hash: u8, pk: u8, salt: Seq<u8>, fingerprint: Seq<u8>, nested: u8) -> Seq<u8>
    recommends salt.len() <= 255, fingerprint.len() == 32
{
    seq![6u8, typ, hash, pk] + seq![salt.len() as u8] + salt + fingerprint + seq![nested]
}
/// a version this implementation does not know: everything between the four common octets and the
/// trailing nested flag is kept opaque
pub open spec fn ops_unknown_layout(version: u8, typ: u8, hash: u8, pk: u8, data: Seq<u8>, nested: u8) -> Seq<u8> {
    seq![version, typ, hash, pk] + data + seq![nested]
}

// ---- RFC 9580 5.3: Symmetric-Key Encrypted Session Key packet (type ID 3) -----------------------
// 5.3.1 version 4:  A one-octet version number with value 4.  A one-octet number describing the symmetric
//   algorithm used.  An S2K Specifier.  Optionally, the encrypted session key itself.
pub open spec fn skesk_v4_layout(sym: u8, s2k: Seq<u8>, esk: Seq<u8>) -> Seq<u8> {
    seq![4u8, sym] + s2k + esk
}
// 5.3.2 version 6:  A one-octet version number with value 6.  A one-octet scalar octet count for the 5 fields
//   following this octet.  A one-octet symmetric cipher algorithm ID.  A one-octet AEAD algorithm identifier.
//   A one-octet scalar octet count of the following field.  An S2K Specifier.  A starting initialization vector
//   of size specified by the AEAD algorithm.  The encrypted session key itself.  An authentication tag.
/// the general shape with the two count octets as they stand on the wire
pub open spec fn skesk_v6_shape(count: u8, sym: u8, aead: u8, s2k_len: u8, s2k: Seq<u8>, iv: Seq<u8>, esk: Seq<u8>) -> Seq<u8> {
    seq![6u8, count, sym, aead, s2k_len] + s2k + iv + esk
}
/// "octet count for the 5 fields following": sym (1) + aead (1) + S2K length octet (1) + S2K + IV
pub open spec fn skesk_v6_count(s2k: Seq<u8>, iv: Seq<u8>) -> int { 3 + s2k.len() as int + iv.len() as int }
/// both counts fit their octet
pub open spec fn skesk_v6_ok(s2k: Seq<u8>, iv: Seq<u8>) -> bool { skesk_v6_count(s2k, iv) <= 255 }
/// the canonical packet: both counts are the true counts
pub open spec fn skesk_v6_layout(sym: u8, aead: u8, s2k: Seq<u8>, iv: Seq<u8>, esk: Seq<u8>) -> Seq<u8> {
    skesk_v6_shape(skesk_v6_count(s2k, iv) as u8, sym, aead, s2k.len() as u8, s2k, iv, esk)
}
// LibrePGP (GnuPG) version 5: version 5, cipher algorithm, AEAD mode, S2K specifier, IV, encrypted key + tag
pub open spec fn skesk_v5_layout(sym: u8, aead: u8, s2k: Seq<u8>, iv: Seq<u8>, esk: Seq<u8>) -> Seq<u8> {
    seq![5u8, sym, aead] + s2k + iv + esk
}
/// a version this implementation does not know: the body after the version octet is kept opaque
pub open spec fn skesk_other_layout(version: u8, data: Seq<u8>) -> Seq<u8> { seq![version] + data }
/// RFC 9580 5.13.2-5.13.4 (Table 25): AEAD algorithm ids and nonce ("IV") sizes: EAX 1 / 16, OCB 2 / 15, GCM 3 / 12
pub open spec fn aead_iv_len(id: u8) -> int { if id == 1 { 16 } else if id == 2 { 15 } else if id == 3 { 12 } else { 0 } }

// ---- RFC 9580 5.1: Public-Key Encrypted Session Key packet (type ID 1) ---------------------------
// 5.1.1 version 3:  A one-octet version number with value 3.  An eight-octet number that gives the Key ID of the
//   public key to which the session key is encrypted.  A one-octet number giving the public-key algorithm used.
//   A series of values comprising the encrypted session key (algorithm-specific).
pub open spec fn pkesk_v3_layout(key_id: Seq<u8>, alg: u8, values: Seq<u8>) -> Seq<u8>
    recommends key_id.len() == 8
{
    seq![3u8] + key_id + seq![alg] + values
}
// 5.1.2 version 6:  A one-octet version number with value 6.  A one-octet size of the following two fields (may be
//   zero for an anonymous recipient).  A one-octet key version number.  The fingerprint of the public key.
//   A one-octet number giving the public-key algorithm used.  The algorithm-specific values.
/// `recipient` = key version octet ++ fingerprint, or empty for an anonymous recipient
pub open spec fn pkesk_v6_layout(recipient: Seq<u8>, alg: u8, values: Seq<u8>) -> Seq<u8>
    recommends recipient.len() <= 255
{
    seq![6u8, recipient.len() as u8] + recipient + seq![alg] + values
}
/// a version this implementation does not know: the body after the version octet is kept opaque
pub open spec fn pkesk_other_layout(version: u8, data: Seq<u8>) -> Seq<u8> { seq![version] + data }
// 5.1.5 ECDH:  MPI of an EC point.  A one-octet size, followed by a symmetric key encoded using the method of 11.5.
pub open spec fn pkesk_ecdh_layout(point_mpi: Seq<u8>, esk: Seq<u8>) -> Seq<u8>
    recommends esk.len() <= 255
{
    point_mpi + seq![esk.len() as u8] + esk
}
// 5.1.6 X25519 / 5.1.7 X448:  32 / 56 octets representing an ephemeral public key.  A one-octet size of the following
//   fields.  The one-octet algorithm identifier, if it was passed (in the case of a v3 PKESK packet).  The encrypted
//   session key.   (draft-ietf-openpgp-pqc ML-KEM composites: the same, with the ML-KEM ciphertext after the ECDH one:
//   `kem` is that extra fixed-length field, empty for X25519 / X448.)
pub open spec fn pkesk_x_size(sym: Option<u8>, esk: Seq<u8>) -> int { esk.len() + (if sym is Some { 1int } else { 0int }) }
pub open spec fn pkesk_x_layout(ephemeral: Seq<u8>, kem: Seq<u8>, sym: Option<u8>, esk: Seq<u8>) -> Seq<u8>
    recommends pkesk_x_size(sym, esk) <= 255
{
    ephemeral + kem + seq![pkesk_x_size(sym, esk) as u8] + (match sym { Some(a) => seq![a], None => Seq::<u8>::empty() }) + esk
}

// ---- RFC 9580 5.9: Literal Data packet (type ID 11) ----------------------------------------------
//   A one-octet field that describes how the data is formatted ('b', 't', 'u').  File name as a string (one-octet
//   length, followed by a file name).  A four-octet number that indicates a date associated with the literal data.
//   The remainder of the packet is literal data.
pub open spec fn literal_header_layout(mode: u8, file_name: Seq<u8>, date: Seq<u8>) -> Seq<u8>
    recommends file_name.len() <= 255, date.len() == 4
{
    seq![mode, file_name.len() as u8] + file_name + date
}
// ---- RFC 9580 5.8: Marker packet (type ID 10): the three octets 0x50, 0x47, 0x50 ("PGP") --------
pub open spec fn marker_layout() -> Seq<u8> { seq![0x50u8, 0x47u8, 0x50u8] }
// ---- RFC 9580 5.11 User ID (the body is the UTF-8 text), 5.14 Padding (the body is random octets), 5.13.1 the
//      20-octet SHA-1 of the deprecated Modification Detection Code packet: the body is the field itself

// ---- RFC 9580 5.2: Signature packet (type ID 2) --------------------------------------------------
// 5.2.2 version 3:  One-octet version number (3).  One-octet length of the following hashed material; it MUST be 5:
//   one-octet signature type ID, four-octet creation time.  Eight-octet Key ID of the signer.  One-octet public-key
//   algorithm ID.  One-octet hash algorithm ID.  Two-octet field holding left 16 bits of the signed hash value.
//   One or more MPIs comprising the signature.           (version 2 has the same layout with version octet 2)
pub open spec fn sig_v3_layout(version: u8, typ: u8, created: Seq<u8>, key_id: Seq<u8>, pk: u8, hash: u8, hash16: Seq<u8>, sig: Seq<u8>) -> Seq<u8>
    recommends created.len() == 4, key_id.len() == 8, hash16.len() == 2
{
    seq![version, 5u8, typ] + created + key_id + seq![pk, hash] + hash16 + sig
}
// 5.2.3 versions 4 and 6:  One-octet version number.  One-octet signature type ID.  One-octet public-key algorithm ID.
//   One-octet hash algorithm ID.  A scalar octet count for the hashed subpacket data that follows this field: two
//   octets for version 4, four octets for version 6.  Hashed subpacket data set.  A scalar octet count for the
//   following unhashed subpacket data (two / four octets).  Unhashed subpacket data set.  Two-octet field holding the
//   left 16 bits of the signed hash value.  Only for version 6: a one-octet salt size and the salt.  One or more MPIs
//   (or native octets) comprising the signature.
pub open spec fn sig_v4_layout(typ: u8, pk: u8, hash: u8, hashed: Seq<u8>, unhashed: Seq<u8>, hash16: Seq<u8>, sig: Seq<u8>) -> Seq<u8>
    recommends hashed.len() <= 0xFFFF, unhashed.len() <= 0xFFFF, hash16.len() == 2
{
    seq![4u8, typ, pk, hash] + be16(hashed.len() as u16) + hashed + be16(unhashed.len() as u16) + unhashed + hash16 + sig
}
pub open spec fn sig_v6_layout(typ: u8, pk: u8, hash: u8, hashed: Seq<u8>, unhashed: Seq<u8>, hash16: Seq<u8>, salt: Seq<u8>, sig: Seq<u8>) -> Seq<u8>
    recommends hashed.len() <= 0xFFFF_FFFF, unhashed.len() <= 0xFFFF_FFFF, hash16.len() == 2, salt.len() <= 255
{
    seq![6u8, typ, pk, hash] + be32(hashed.len() as u32) + hashed + be32(unhashed.len() as u32) + unhashed + hash16
        + seq![salt.len() as u8] + salt + sig
}
/// a version this implementation does not know: the body after the version octet is kept opaque
pub open spec fn sig_unknown_layout(version: u8, data: Seq<u8>) -> Seq<u8> { seq![version] + data }
/// RFC 9580 9.5 (Table 23): salt size of a version 6 signature per hash algorithm id (SHA2-256 16, SHA2-384 24,
/// SHA2-512 32, SHA2-224 16, SHA3-256 16, SHA3-512 32), none for the other hash algorithms
pub open spec fn sig_salt_len(hash_id: u8) -> Option<int> {
    if hash_id == 8 { Some(16int) } else if hash_id == 9 { Some(24int) } else if hash_id == 10 { Some(32int) }
    else if hash_id == 11 { Some(16int) } else if hash_id == 12 { Some(16int) } else if hash_id == 14 { Some(32int) } else { None }
}
