// ---------------------------------------------------------------------------------
// lemmas/sigdigest.rs - the signature pre-image of RFC 9580 section 5.2.4 ("Computing
// Signatures"), transcribed from the RFC text, NOT from the repository code, plus the
// injectivity facts that turn "a hashed field changed" into "the pre-image changed".
// Pure spec + proof; no repository code.  Needs be16/be32 (shims/io.rs) in scope.
//
// RFC 9580 5.2.4, for v4 and v6 signatures (after the salt (v6) and the signed content):
//   "the hash context is given the following from the Signature packet: the signature version
//    (0x04 or 0x06), the signature type, the public-key algorithm, the hash algorithm, the hashed
//    subpacket length [2 octets for v4, 4 octets for v6], and the hashed subpacket body."
//   "A trailer is then hashed: the packet version (0x04 / 0x06), 0xFF, and a four-octet big-endian
//    number that is the amount of the Signature packet that is hashed in octets [i.e. the length of
//    sig_fields], modulo 2**32."
// for v3: "the signature type, followed by the four-octet signature [creation] time"; no trailer.
// ---------------------------------------------------------------------------------

/// width in octets of the hashed-area length field: 2 for v4, 4 for v6
pub open spec fn area_len_width(ver: u8) -> nat { if ver == 6u8 { 4 } else { 2 } }

/// the hashed area fits its length field (v4: 16 bits, v6: 32 bits)
pub open spec fn area_fits(ver: u8, n: nat) -> bool {
    if ver == 6u8 { n <= 0xffff_ffff } else { n <= 0xffff }
}

/// big-endian length field of the hashed area
pub open spec fn area_len_octets(ver: u8, n: nat) -> Seq<u8> {
    if ver == 6u8 { be32(n as u32) } else { be16(n as u16) }
}

/// hashed signature fields of a v4 (ver == 4) / v6 (ver == 6) signature
pub open spec fn sig_fields(ver: u8, typ: u8, pk: u8, hash: u8, area: Seq<u8>) -> Seq<u8> {
    seq![ver, typ, pk, hash] + area_len_octets(ver, area.len()) + area
}

/// trailer of a v4 / v6 signature; n = number of octets of sig_fields
pub open spec fn trailer(ver: u8, n: nat) -> Seq<u8> {
    seq![ver, 0xFFu8] + be32((n % 0x1_0000_0000) as u32)
}

/// hashed signature fields of a v3 signature (no trailer)
pub open spec fn sig_fields_v3(typ: u8, created: u32) -> Seq<u8> {
    seq![typ] + be32(created)
}

/// everything that follows the signed content in the hash, by version
pub open spec fn sig_tail(ver: u8, typ: u8, pk: u8, hash: u8, area: Seq<u8>, created: u32) -> Seq<u8> {
    if ver == 4u8 || ver == 6u8 {
        sig_fields(ver, typ, pk, hash, area) + trailer(ver, sig_fields(ver, typ, pk, hash, area).len())
    } else {
        sig_fields_v3(typ, created)
    }
}

/// THE pre-image: salt (v6 only) ++ signed content ++ signature fields ++ trailer
pub open spec fn sig_preimage(ver: u8, salt: Seq<u8>, content: Seq<u8>, typ: u8, pk: u8, hash: u8,
                              area: Seq<u8>, created: u32) -> Seq<u8> {
    (if ver == 6u8 { salt } else { Seq::<u8>::empty() }) + content + sig_tail(ver, typ, pk, hash, area, created)
}

pub proof fn lemma_sig_fields_len(ver: u8, typ: u8, pk: u8, hash: u8, area: Seq<u8>)
    ensures sig_fields(ver, typ, pk, hash, area).len() == 4 + area_len_width(ver) + area.len(),
{
}

pub proof fn lemma_be16_inj(a: u16, b: u16)
    requires be16(a) == be16(b)
    ensures a == b
{
    assert(be16(a)[0] == be16(b)[0]);
    assert(be16(a)[1] == be16(b)[1]);
    assert(a == b) by (bit_vector)
        requires (a >> 8) as u8 == (b >> 8) as u8, (a & 0xff) as u8 == (b & 0xff) as u8;
}

pub proof fn lemma_be32_inj(a: u32, b: u32)
    requires be32(a) == be32(b)
    ensures a == b
{
    assert(be32(a)[0] == be32(b)[0]);
    assert(be32(a)[1] == be32(b)[1]);
    assert(be32(a)[2] == be32(b)[2]);
    assert(be32(a)[3] == be32(b)[3]);
    assert(a == b) by (bit_vector)
        requires (a >> 24) as u8 == (b >> 24) as u8, ((a >> 16) & 0xff) as u8 == ((b >> 16) & 0xff) as u8,
                 ((a >> 8) & 0xff) as u8 == ((b >> 8) & 0xff) as u8, (a & 0xff) as u8 == (b & 0xff) as u8;
}

/// For a fixed version the hashed fields determine (type, pk algorithm, hash algorithm, hashed area):
/// changing any of them changes the pre-image.  No bound on the area is needed: the total length
/// already fixes |area|, and the area is the suffix.
pub proof fn lemma_sig_fields_injective(ver: u8, t1: u8, p1: u8, h1: u8, a1: Seq<u8>, t2: u8, p2: u8, h2: u8, a2: Seq<u8>)
    requires sig_fields(ver, t1, p1, h1, a1) == sig_fields(ver, t2, p2, h2, a2)
    ensures t1 == t2, p1 == p2, h1 == h2, a1 == a2
{
    let s1 = sig_fields(ver, t1, p1, h1, a1);
    let s2 = sig_fields(ver, t2, p2, h2, a2);
    let w = area_len_width(ver) as int;
    lemma_sig_fields_len(ver, t1, p1, h1, a1);
    lemma_sig_fields_len(ver, t2, p2, h2, a2);
    assert(a1.len() == a2.len());
    assert(s1[1] == t1 && s1[2] == p1 && s1[3] == h1);
    assert(s2[1] == t2 && s2[2] == p2 && s2[3] == h2);
    assert forall|i: int| 0 <= i < a1.len() implies a1[i] == a2[i] by {
        assert(s1[4 + w + i] == a1[i]);
        assert(s2[4 + w + i] == a2[i]);
    }
    assert(a1 =~= a2);
}

/// The version octet is part of the fields too: fields of different versions never collide.
pub proof fn lemma_sig_fields_version(v1: u8, t1: u8, p1: u8, h1: u8, a1: Seq<u8>, v2: u8, t2: u8, p2: u8, h2: u8, a2: Seq<u8>)
    requires sig_fields(v1, t1, p1, h1, a1) == sig_fields(v2, t2, p2, h2, a2)
    ensures v1 == v2
{
    assert(sig_fields(v1, t1, p1, h1, a1)[0] == v1);
    assert(sig_fields(v2, t2, p2, h2, a2)[0] == v2);
}

/// The whole v4/v6 pre-image is uniquely decodable from its END (that is the purpose of the
/// trailer): equal pre-images of the same version imply equal signed content (incl. salt prefix)
/// AND equal hashed fields, provided the field block is shorter than 2^32 octets.
pub proof fn lemma_preimage_injective(ver: u8, c1: Seq<u8>, t1: u8, p1: u8, h1: u8, a1: Seq<u8>,
                                      c2: Seq<u8>, t2: u8, p2: u8, h2: u8, a2: Seq<u8>)
    requires
        ver == 4u8 || ver == 6u8,
        sig_fields(ver, t1, p1, h1, a1).len() <= 0xffff_ffff,
        sig_fields(ver, t2, p2, h2, a2).len() <= 0xffff_ffff,
        c1 + sig_tail(ver, t1, p1, h1, a1, 0) == c2 + sig_tail(ver, t2, p2, h2, a2, 0),
    ensures c1 == c2, t1 == t2, p1 == p2, h1 == h2, a1 == a2
{
    let f1 = sig_fields(ver, t1, p1, h1, a1);
    let f2 = sig_fields(ver, t2, p2, h2, a2);
    let tr1 = trailer(ver, f1.len());
    let tr2 = trailer(ver, f2.len());
    let x1 = c1 + (f1 + tr1);
    let x2 = c2 + (f2 + tr2);
    assert(x1 == x2);
    assert(tr1.len() == 6 && tr2.len() == 6);
    let n = x1.len() as int;
    // the last four octets are be32(|fields|)
    let l1 = be32((f1.len() % 0x1_0000_0000) as u32);
    let l2 = be32((f2.len() % 0x1_0000_0000) as u32);
    assert forall|i: int| 0 <= i < 4 implies l1[i] == l2[i] by {
        assert(x1[n - 4 + i] == tr1[2 + i]);
        assert(x2[n - 4 + i] == tr2[2 + i]);
        assert(tr1[2 + i] == l1[i]);
        assert(tr2[2 + i] == l2[i]);
    }
    assert(l1 =~= l2);
    lemma_be32_inj((f1.len() % 0x1_0000_0000) as u32, (f2.len() % 0x1_0000_0000) as u32);
    assert(f1.len() == f2.len());
    assert(c1.len() == c2.len());
    assert forall|i: int| 0 <= i < c1.len() implies c1[i] == c2[i] by {
        assert(x1[i] == c1[i]);
        assert(x2[i] == c2[i]);
    }
    assert(c1 =~= c2);
    assert forall|i: int| 0 <= i < f1.len() implies f1[i] == f2[i] by {
        assert(x1[c1.len() + i] == f1[i]);
        assert(x2[c2.len() + i] == f2[i]);
    }
    assert(f1 =~= f2);
    lemma_sig_fields_injective(ver, t1, p1, h1, a1, t2, p2, h2, a2);
}
