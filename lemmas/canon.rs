// ---------------------------------------------------------------------------------
// lemmas/canon.rs - THE canonicalisation function of property C14, transcribed from the
// property statement ("every LF not preceded by CR becomes CRLF, everything else is
// unchanged"), plus the chunking law L4.  Pure spec + proof; no repository code.
// ---------------------------------------------------------------------------------
pub open spec fn CR() -> u8 { 13u8 }
pub open spec fn LF() -> u8 { 10u8 }

/// canon(s, prev_cr): canonical form of s given whether the byte before s was a CR.
pub open spec fn canon(s: Seq<u8>, prev_cr: bool) -> Seq<u8>
    decreases s.len()
{
    if s.len() == 0 {
        Seq::<u8>::empty()
    } else {
        let c = s[0];
        let head = if c == 10u8 && !prev_cr { seq![13u8, 10u8] } else { seq![c] };
        head + canon(s.skip(1), c == 13u8)
    }
}

/// does the stream end in CR after s (given the state before s)?
pub open spec fn end_cr(s: Seq<u8>, prev_cr: bool) -> bool {
    if s.len() == 0 { prev_cr } else { s.last() == 13u8 }
}

pub open spec fn no_eol(s: Seq<u8>) -> bool {
    forall|i: int| 0 <= i < s.len() ==> s[i] != 13u8 && s[i] != 10u8
}

pub open spec fn no_lf(s: Seq<u8>) -> bool {
    forall|i: int| 0 <= i < s.len() ==> s[i] != 10u8
}

/// L4: canonicalisation commutes with chunking, carrying one bit of state.
pub proof fn lemma_canon_concat(a: Seq<u8>, b: Seq<u8>, p: bool)
    ensures canon(a + b, p) == canon(a, p) + canon(b, end_cr(a, p)),
            end_cr(a + b, p) == end_cr(b, end_cr(a, p)),
    decreases a.len()
{
    if a.len() == 0 {
        assert(a + b == b);
        assert(canon(a, p) == Seq::<u8>::empty());
        assert(Seq::<u8>::empty() + canon(b, p) == canon(b, p));
    } else {
        let c = a[0];
        assert((a + b)[0] == c);
        assert((a + b).skip(1) == a.skip(1) + b);
        lemma_canon_concat(a.skip(1), b, c == 13u8);
        let head = if c == 10u8 && !p { seq![13u8, 10u8] } else { seq![c] };
        assert(canon(a + b, p) == head + canon(a.skip(1) + b, c == 13u8));
        assert(end_cr(a.skip(1), c == 13u8) == end_cr(a, p)) by {
            if a.len() == 1 { assert(a.skip(1).len() == 0); assert(a.last() == c); }
            else { assert(a.skip(1).last() == a.last()); }
        }
        assert(head + (canon(a.skip(1), c == 13u8) + canon(b, end_cr(a, p)))
            == (head + canon(a.skip(1), c == 13u8)) + canon(b, end_cr(a, p)));
        if b.len() == 0 { assert(a + b == a); } else { assert((a + b).last() == b.last()); }
    }
}

/// bytes without LF are left alone, whatever the state
pub proof fn lemma_canon_no_lf(s: Seq<u8>, p: bool)
    requires no_lf(s),
    ensures canon(s, p) == s,
    decreases s.len()
{
    if s.len() == 0 {
    } else {
        assert(s[0] != 10u8);
        assert(no_lf(s.skip(1))) by {
            assert forall|i: int| 0 <= i < s.skip(1).len() implies s.skip(1)[i] != 10u8 by {
                assert(s.skip(1)[i] == s[i + 1]);
            }
        }
        lemma_canon_no_lf(s.skip(1), s[0] == 13u8);
        assert(seq![s[0]] + s.skip(1) == s);
    }
}

/// the state only matters when the first byte is LF
pub proof fn lemma_canon_state_irrelevant(s: Seq<u8>, p: bool, q: bool)
    requires s.len() == 0 || s[0] != 10u8,
    ensures canon(s, p) == canon(s, q),
{
    if s.len() > 0 {
        assert(canon(s, p) == seq![s[0]] + canon(s.skip(1), s[0] == 13u8));
        assert(canon(s, q) == seq![s[0]] + canon(s.skip(1), s[0] == 13u8));
    }
}

pub proof fn lemma_canon_single(c: u8, p: bool)
    ensures canon(seq![c], p) == (if c == 10u8 && !p { seq![13u8, 10u8] } else { seq![c] }),
{
    let s = seq![c];
    assert(s.skip(1).len() == 0);
    assert(canon(s.skip(1), c == 13u8) == Seq::<u8>::empty());
    let head = if c == 10u8 && !p { seq![13u8, 10u8] } else { seq![c] };
    assert(head + Seq::<u8>::empty() == head);
}

/// canon is idempotent: canonical text is a fixed point
pub proof fn lemma_canon_idempotent(s: Seq<u8>, p: bool)
    ensures canon(canon(s, p), p) == canon(s, p),
            end_cr(canon(s, p), p) == end_cr(s, p),
    decreases s.len()
{
    if s.len() == 0 {
    } else {
        let c = s[0];
        let head = if c == 10u8 && !p { seq![13u8, 10u8] } else { seq![c] };
        let tail = canon(s.skip(1), c == 13u8);
        lemma_canon_idempotent(s.skip(1), c == 13u8);
        lemma_canon_concat(head, tail, p);
        // canon(head, p) == head
        if c == 10u8 && !p {
            lemma_canon_concat(seq![13u8], seq![10u8], p);
            lemma_canon_single(13u8, p);
            lemma_canon_single(10u8, true);
            assert(seq![13u8] + seq![10u8] == seq![13u8, 10u8]);
            assert(end_cr(seq![13u8], p));
            assert(end_cr(head, p) == false);
            assert(head.last() == 10u8);
        } else {
            lemma_canon_single(c, p);
            assert(end_cr(head, p) == (c == 13u8));
        }
        assert(canon(head, p) == head);
        assert(end_cr(head, p) == (c == 13u8));
        // end_cr part
        lemma_canon_concat(seq![c], s.skip(1), p);
        assert(seq![c] + s.skip(1) == s);
        assert(end_cr(seq![c], p) == (c == 13u8));
    }
}
