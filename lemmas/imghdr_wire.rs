// ---------------------------------------------------------------------------------
// lemmas/imghdr_wire.rs - RFC 9580 5.12.1 (Image Attribute subpacket: the image header) as spec
// functions, first on field values, then on the EXTRACTED types ImageHeader, ImageHeaderV1.  Pure
// spec/proof code: nothing is assumed here.  Include after shims/io.rs, shims/bytes.rs, shims/le16.rs,
// shims/codec_take.rs (min_nat) and after extracting the two types.
// ---------------------------------------------------------------------------------

// ---- RFC 9580 5.12.1 --------------------------------------------------------------------------
//   "The Image Attribute subpacket begins with an image header.  The first two octets of the image header contain
//    the length of the image header.  Note that unlike other multi-octet numerical values in this document, due to a
//    historical accident this value is encoded as a little-endian number.  The image header length is followed by a
//    single octet for the image header version.  The only currently defined version of the image header is 1, which
//    is a 16-octet image header.  The first three octets of a version 1 image header are thus 0x10, 0x00, 0x01.
//    The fourth octet of a version 1 image header designates the encoding format of the image.  The only currently
//    defined encoding format is the value 1 to indicate JPEG. [...]  The rest of the version 1 image header is made
//    up of 12 reserved octets, all of which MUST be set to 0.  The rest of the image subpacket contains the image itself."
/// version 1, JPEG: 10 00 01 01 and the 12 reserved octets
pub open spec fn imghdr_jpeg_layout(reserved: Seq<u8>) -> Seq<u8>
    recommends reserved.len() == 12
{
    seq![0x10u8, 0x00u8, 0x01u8, 0x01u8] + reserved
}
/// version 1, any format: the length field counts the whole header, itself included
pub open spec fn imghdr_v1_layout(format: u8, data: Seq<u8>) -> Seq<u8>
    recommends 4 + data.len() <= 0xFFFF
{
    le16((4 + data.len()) as u16) + seq![1u8, format] + data
}
/// a version this implementation does not know: length (counting itself), version, the rest of the header
pub open spec fn imghdr_other_layout(version: u8, data: Seq<u8>) -> Seq<u8>
    recommends 3 + data.len() <= 0xFFFF
{
    le16((3 + data.len()) as u16) + seq![version] + data
}
/// the 16-octet JPEG header IS the general version 1 layout
pub proof fn lemma_imghdr_jpeg_is_v1(reserved: Seq<u8>)
    requires reserved.len() == 12
    ensures imghdr_jpeg_layout(reserved) == imghdr_v1_layout(1, reserved), imghdr_jpeg_layout(reserved).len() == 16
{
    assert(imghdr_jpeg_layout(reserved) =~= imghdr_v1_layout(1, reserved));
}

// ---- on the extracted types ---------------------------------------------------------------------
pub open spec fn imghdr_wire(h: ImageHeader) -> Seq<u8> {
    match h {
        ImageHeader::V1(ImageHeaderV1::Jpeg { data }) => imghdr_jpeg_layout(data@),
        ImageHeader::V1(ImageHeaderV1::Unknown { format, data }) => imghdr_v1_layout(format, data@),
        ImageHeader::Unknown { version, data } => imghdr_other_layout(version, data@),
    }
}
/// the header length fits its two-octet field
pub open spec fn imghdr_fits(h: ImageHeader) -> bool {
    match h {
        ImageHeader::V1(ImageHeaderV1::Jpeg { data }) => true,
        ImageHeader::V1(ImageHeaderV1::Unknown { format, data }) => 4 + data@.len() <= 0xFFFF,
        ImageHeader::Unknown { version, data } => 3 + data@.len() <= 0xFFFF,
    }
}
/// a header value that is the only reading of its own octets: the catch-all variants do not shadow a known one
pub open spec fn imghdr_canon(h: ImageHeader) -> bool {
    &&& imghdr_fits(h)
    &&& match h {
        ImageHeader::V1(ImageHeaderV1::Jpeg { data }) => true,
        ImageHeader::V1(ImageHeaderV1::Unknown { format, data }) => format != 1,
        ImageHeader::Unknown { version, data } => version != 1,
    }
}
pub open spec fn imghdr_eq(a: ImageHeader, b: ImageHeader) -> bool {
    match (a, b) {
        (ImageHeader::V1(ImageHeaderV1::Jpeg { data: d1 }), ImageHeader::V1(ImageHeaderV1::Jpeg { data: d2 })) => d1@ == d2@,
        (ImageHeader::V1(ImageHeaderV1::Unknown { format: f1, data: d1 }), ImageHeader::V1(ImageHeaderV1::Unknown { format: f2, data: d2 })) => f1 == f2 && d1@ == d2@,
        (ImageHeader::Unknown { version: v1, data: d1 }, ImageHeader::Unknown { version: v2, data: d2 }) => v1 == v2 && d1@ == d2@,
        _ => false,
    }
}

// ---- what the parsers guarantee -----------------------------------------------------------------
/// ImageHeader::try_from_reader returned Ok(h) on the stream `hin` and left `hrest`:  the header occupies the octets
/// its length field announces, EXCEPT that (observations, non-canonical input) a JPEG header only has to announce
/// at least 16 octets (16 are consumed whatever it says) and a version 1 header of another format may be cut short
/// by the end of the enclosing subpacket
pub open spec fn imghdr_parse_post(h: ImageHeader, hin: Seq<u8>, hrest: Seq<u8>) -> bool {
    &&& hin.len() >= 3
    &&& le16_val(hin) >= 4
    &&& ({
        let hl = le16_val(hin) as int;
        if hin[2] == 1 {
            &&& hin.len() >= 4
            &&& if hin[3] == 1 {
                &&& hl >= 16 && hin.len() >= 16
                &&& h matches ImageHeader::V1(ImageHeaderV1::Jpeg { data }) && data@ == hin.subrange(4, 16)
                &&& hrest == hin.skip(16)
            } else {
                let m = min_nat((hl - 4) as nat, (hin.len() - 4) as nat) as int;
                &&& h matches ImageHeader::V1(ImageHeaderV1::Unknown { format, data }) && format == hin[3] && data@ == hin.subrange(4, 4 + m)
                &&& hrest == hin.skip(4 + m)
            }
        } else {
            &&& hin.len() >= hl
            &&& h matches ImageHeader::Unknown { version, data } && version == hin[2] && data@ == hin.subrange(3, hl)
            &&& hrest == hin.skip(hl)
        }
    })
}
/// the header on the stream is in the one form 5.12.1 defines for its version: the length field is the true length
pub open spec fn imghdr_found_canonical(hin: Seq<u8>) -> bool {
    hin.len() >= 4 && hin[2] == 1 ==> (if hin[3] == 1 { le16_val(hin) == 16 } else { le16_val(hin) <= hin.len() })
}
proof fn lemma_le16_of_val(s: Seq<u8>)
    requires s.len() >= 2
    ensures le16(le16_val(s) as u16) == s.subrange(0, 2)
{
    assert(le16(le16_val(s) as u16) =~= s.subrange(0, 2));
}

/// C05 (length): the header parsed from a stream serialises to exactly as many octets as were consumed
#[verifier::spinoff_prover]
pub proof fn lemma_imghdr_parse_len(h: ImageHeader, hin: Seq<u8>, hrest: Seq<u8>)
    requires imghdr_parse_post(h, hin, hrest)
    ensures hin.len() == imghdr_wire(h).len() + hrest.len(), imghdr_fits(h), imghdr_wire(h).len() >= 3
{
}
/// C05 (identical octets): a header in the defined form is the wire form of the value parsed from it
#[verifier::spinoff_prover]
pub proof fn lemma_imghdr_parse_canonical(h: ImageHeader, hin: Seq<u8>, hrest: Seq<u8>)
    requires imghdr_parse_post(h, hin, hrest), imghdr_found_canonical(hin)
    ensures hin == imghdr_wire(h) + hrest
{
    lemma_le16_of_val(hin);
    let hl = le16_val(hin) as int;
    if hin[2] == 1 {
        if hin[3] == 1 {
            assert(hin =~= imghdr_wire(h) + hrest);
        } else {
            assert(hin =~= imghdr_wire(h) + hrest);
        }
    } else {
        assert(hin =~= imghdr_wire(h) + hrest);
    }
}
/// C05: parse(serialise(h) ++ t) == h for every canonical header value, leaving t
#[verifier::spinoff_prover]
pub proof fn lemma_imghdr_round_trip(h: ImageHeader, t: Seq<u8>, h2: ImageHeader, hrest: Seq<u8>)
    requires imghdr_canon(h), imghdr_parse_post(h2, imghdr_wire(h) + t, hrest)
    ensures imghdr_eq(h2, h), hrest == t
{
    let hin = imghdr_wire(h) + t;
    match h {
        ImageHeader::V1(ImageHeaderV1::Jpeg { data }) => {
            assert(hin[0] == 0x10 && hin[1] == 0 && hin[2] == 1 && hin[3] == 1);
            assert(hin.subrange(4, 16) =~= data@);
            assert(hin.skip(16) =~= t);
        }
        ImageHeader::V1(ImageHeaderV1::Unknown { format, data }) => {
            let n = (4 + data@.len()) as u16;
            lemma_le16_val(n);
            assert(hin[0] == le16(n)[0] && hin[1] == le16(n)[1] && hin[2] == 1 && hin[3] == format);
            assert(le16_val(hin) == n);
            assert(hin.subrange(4, 4 + data@.len() as int) =~= data@);
            assert(hin.skip(4 + data@.len() as int) =~= t);
        }
        ImageHeader::Unknown { version, data } => {
            let n = (3 + data@.len()) as u16;
            lemma_le16_val(n);
            assert(hin[0] == le16(n)[0] && hin[1] == le16(n)[1] && hin[2] == version);
            assert(le16_val(hin) == n);
            assert(hin.subrange(3, 3 + data@.len() as int) =~= data@);
            assert(hin.skip(3 + data@.len() as int) =~= t);
        }
    }
}

