// ---------------------------------------------------------------------------------
// lemmas/packet_split.rs - RFC 9580 4.2: the packet at the head of a stream (header ++ framed body), written
// with the oracles of lemmas/framing.rs (dec_hdr) and lemmas/partial.rs (deframe, first_len_legal).
// Pure spec/proof text.  Include after those two, shims/io_pkterr.rs and shims/packet_parsers.rs.
// ---------------------------------------------------------------------------------
/// Some((header, body, total octets)) iff the stream starts with a complete packet: a header (dec_hdr), whose first
/// length is legal for its packet type (no partial length on a non-data packet, first partial chunk >= 512), followed
/// by a complete framed body (deframe: no chunk shorter than announced, a final non-partial length)
pub open spec fn packet_split(s: Seq<u8>) -> Option<(Hdr, Seq<u8>, nat)> {
    match dec_hdr(s) {
        Some((hv, k)) =>
            if !first_len_legal(hdr_tag(hv), hdr_len(hv)) { None } else {
                match deframe(hdr_len(hv), s.skip(k as int)) {
                    Some((body, used)) => Some((hv, body, k + used)),
                    None => None,
                }
            },
        None => None,
    }
}
/// s2 is s with exactly its first packet removed
pub open spec fn behind_first_packet(s: Seq<u8>, s2: Seq<u8>) -> bool {
    packet_split(s) is Some && s2 == s.skip(packet_split(s)->Some_0.2 as int)
}
/// pk is what the body parser selected by the first packet's header made of exactly that packet's body
pub open spec fn parsed_first_packet(s: Seq<u8>, pk: Packet) -> bool {
    packet_split(s) is Some && exists|h: PacketHeader| h.hv() == packet_split(s)->Some_0.0
        && #[trigger] pkt_ok(h, packet_split(s)->Some_0.1, pk, packet_split(s)->Some_0.1.len())
}
pub open spec fn body_class(e: errors::Error) -> bool { e is PacketTooLarge || e is PacketIncomplete || e is InvalidPacketContent }

pub proof fn lemma_avail_len(c: Chunk, s: Seq<u8>)
    ensures avail_c(c, s).len() <= s.len()
    decreases s.len()
{
    match c {
        Chunk::Partial(n) => {
            if s.len() >= n {
                match dec_len(s.skip(n as int)) {
                    Some((l, k)) => {
                        if !(l is Indeterminate || k < 1 || s.len() < n + k) {
                            lemma_avail_len(chunk_of(l), s.skip((n + k) as int));
                        }
                    }
                    None => {}
                }
            }
        }
        _ => {}
    }
}

