// ---------------------------------------------------------------------------------
// lemmas/s2k_wire.rs - RFC 9580 3.7.1 wire form of a String-to-Key specifier as a spec
// function on the EXTRACTED enum StringToKey (include after extracting it and after
// shims/secret_algos.rs), and the parse/serialize round-trip theorem that follows from the
// contracts proved in units/U13_s2k_codec.vu.  Pure spec/proof code: nothing is assumed here.
// ---------------------------------------------------------------------------------
// ---- RFC 9580 3.7.1: wire form of a String-to-Key specifier -------------------------------
pub open spec fn s2k_wire(s: StringToKey) -> Seq<u8> {
    match s {
        StringToKey::Simple { hash_alg } => seq![0u8, hash_to_u8(hash_alg)],
        StringToKey::Salted { hash_alg, salt } => seq![1u8, hash_to_u8(hash_alg)] + salt@,
        StringToKey::Reserved { unknown } => seq![2u8] + unknown@,
        StringToKey::IteratedAndSalted { hash_alg, salt, count } => seq![3u8, hash_to_u8(hash_alg)] + salt@ + seq![count],
        StringToKey::Argon2 { salt, t, p, m_enc } => seq![4u8] + salt@ + seq![t, p, m_enc],
        StringToKey::Private { typ, unknown } => seq![typ] + unknown@,
        StringToKey::Other { typ, unknown } => seq![typ] + unknown@,
    }
}
/// the specifier types whose length is fixed by the type octet (the ones `len()` knows)
pub open spec fn s2k_sized(s: StringToKey) -> bool {
    s is Simple || s is Salted || s is IteratedAndSalted || s is Argon2
}
/// what the parser guarantees about its result: the variant agrees with the type octet and the
/// hash id is the canonical decoding of its octet
pub open spec fn s2k_wf(s: StringToKey) -> bool {
    match s {
        StringToKey::Simple { hash_alg } => hash_from_u8(hash_to_u8(hash_alg)) == hash_alg,
        StringToKey::Salted { hash_alg, salt } => hash_from_u8(hash_to_u8(hash_alg)) == hash_alg,
        StringToKey::IteratedAndSalted { hash_alg, salt, count } => hash_from_u8(hash_to_u8(hash_alg)) == hash_alg,
        StringToKey::Private { typ, unknown } => 100 <= typ <= 110,
        StringToKey::Other { typ, unknown } => typ > 4 && !(100 <= typ <= 110),
        _ => true,
    }
}
/// value equality as derive(PartialEq) computes it (arrays and Bytes compare by content)
pub open spec fn s2k_eq(a: StringToKey, b: StringToKey) -> bool {
    match (a, b) {
        (StringToKey::Simple { hash_alg: h1 }, StringToKey::Simple { hash_alg: h2 }) => h1 == h2,
        (StringToKey::Salted { hash_alg: h1, salt: s1 }, StringToKey::Salted { hash_alg: h2, salt: s2 }) => h1 == h2 && s1@ == s2@,
        (StringToKey::Reserved { unknown: u1 }, StringToKey::Reserved { unknown: u2 }) => u1@ == u2@,
        (StringToKey::IteratedAndSalted { hash_alg: h1, salt: s1, count: c1 }, StringToKey::IteratedAndSalted { hash_alg: h2, salt: s2, count: c2 }) => h1 == h2 && s1@ == s2@ && c1 == c2,
        (StringToKey::Argon2 { salt: s1, t: t1, p: p1, m_enc: m1 }, StringToKey::Argon2 { salt: s2, t: t2, p: p2, m_enc: m2 }) => s1@ == s2@ && t1 == t2 && p1 == p2 && m1 == m2,
        (StringToKey::Private { typ: t1, unknown: u1 }, StringToKey::Private { typ: t2, unknown: u2 }) => t1 == t2 && u1@ == u2@,
        (StringToKey::Other { typ: t1, unknown: u1 }, StringToKey::Other { typ: t2, unknown: u2 }) => t1 == t2 && u1@ == u2@,
        _ => false,
    }
}

// ---- C05 round trip, derived from the two contracts above ---------------------------------
/// If the parser is run on serialize(s) ++ t and returns s2 leaving rest2 (its contract:
/// wire(s2) ++ rest2 == input, sink variants leave nothing), then s2 == s and rest2 == t,
/// i.e. exactly write_len() bytes were consumed - for the sized types with ANY tail, for the
/// tail-swallowing types (2, 100..110, unknown) only when nothing follows.
pub proof fn s2k_round_trip(s: StringToKey, t: Seq<u8>, s2: StringToKey, rest2: Seq<u8>)
    requires
        s2k_wf(s), s2k_wf(s2),
        s2k_wire(s) + t == s2k_wire(s2) + rest2,
        !s2k_sized(s2) ==> rest2.len() == 0,
        s2k_sized(s) || t.len() == 0,
    ensures
        s2k_eq(s2, s), rest2 == t,
{
    let inp = s2k_wire(s) + t;
    let w1 = s2k_wire(s);
    let w2 = s2k_wire(s2);
    assert(inp[0] == w1[0]);
    assert(inp[0] == w2[0]);
    assert(w1.len() + t.len() == w2.len() + rest2.len());
    // same type octet => same variant => same fixed length / same sink behaviour
    assert(w1.len() == w2.len());
    assert(w1 =~= inp.subrange(0, w1.len() as int));
    assert(w2 =~= inp.subrange(0, w2.len() as int));
    assert(rest2 =~= inp.subrange(w2.len() as int, inp.len() as int));
    assert(t =~= inp.subrange(w1.len() as int, inp.len() as int));
    match (s, s2) {
        (StringToKey::Simple { hash_alg: h1 }, StringToKey::Simple { hash_alg: h2 }) => {
            assert(w1[1] == w2[1]);
        }
        (StringToKey::Salted { hash_alg: h1, salt: s1 }, StringToKey::Salted { hash_alg: h2, salt: sb }) => {
            assert(w1[1] == w2[1]);
            assert(s1@ =~= w1.subrange(2, 10));
            assert(sb@ =~= w2.subrange(2, 10));
        }
        (StringToKey::Reserved { unknown: u1 }, StringToKey::Reserved { unknown: u2 }) => {
            assert(u1@ =~= w1.subrange(1, w1.len() as int));
            assert(u2@ =~= w2.subrange(1, w2.len() as int));
        }
        (StringToKey::IteratedAndSalted { hash_alg: h1, salt: s1, count: c1 }, StringToKey::IteratedAndSalted { hash_alg: h2, salt: sb, count: c2 }) => {
            assert(w1[1] == w2[1]);
            assert(w1[10] == w2[10]);
            assert(s1@ =~= w1.subrange(2, 10));
            assert(sb@ =~= w2.subrange(2, 10));
        }
        (StringToKey::Argon2 { salt: s1, t: t1, p: p1, m_enc: m1 }, StringToKey::Argon2 { salt: sb, t: t2, p: p2, m_enc: m2 }) => {
            assert(w1[17] == w2[17]); assert(w1[18] == w2[18]); assert(w1[19] == w2[19]);
            assert(s1@ =~= w1.subrange(1, 17));
            assert(sb@ =~= w2.subrange(1, 17));
        }
        (StringToKey::Private { typ: ty1, unknown: u1 }, StringToKey::Private { typ: ty2, unknown: u2 }) => {
            assert(u1@ =~= w1.subrange(1, w1.len() as int));
            assert(u2@ =~= w2.subrange(1, w2.len() as int));
        }
        (StringToKey::Other { typ: ty1, unknown: u1 }, StringToKey::Other { typ: ty2, unknown: u2 }) => {
            assert(u1@ =~= w1.subrange(1, w1.len() as int));
            assert(u2@ =~= w2.subrange(1, w2.len() as int));
        }
        _ => { assert(false); }
    }
}

