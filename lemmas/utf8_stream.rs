// ---------------------------------------------------------------------------------
// lemmas/utf8_stream.rs - well-formedness of a UTF-8 stream delivered in chunks with an "overhang" (the bytes behind
// the longest well-formed prefix carried to the next chunk), as literal_data.rs Utf8CheckReader does.
// Needs is_mvp (shims/utf8_err.rs).  Uses vstd::utf8 (definitions and lemmas of the Verus standard library);
// nothing is axiomatised here.
// ---------------------------------------------------------------------------------

/// the outcome of looking at `data` (= overhang ++ new chunk): None = definitely not UTF-8 (4 or more bytes behind the
/// longest well-formed prefix); Some(c) = fine so far, c = the overhang to carry (at most 3 bytes)
pub open spec fn check_outcome(data: Seq<u8>, out: Option<Seq<u8>>) -> bool {
    exists|k: int| #[trigger] is_mvp(data, k) && (match out {
        Some(c) => data.len() - k <= 3 && c =~= data.skip(k),
        None => data.len() - k >= 4,
    })
}
/// a stream delivered as a sequence of chunks
pub open spec fn cat_chunks(chunks: Seq<Seq<u8>>) -> Seq<u8>
    decreases chunks.len()
{
    if chunks.len() == 0 { Seq::<u8>::empty() } else { chunks[0] + cat_chunks(chunks.skip(1)) }
}
/// the run of the checker over a chunking, starting with overhang c: every chunk is accepted, the overhang being carried
/// from chunk to chunk, and the final Ok(0) is given only without overhang
pub open spec fn utf8_run_ok(chunks: Seq<Seq<u8>>, c: Seq<u8>) -> bool
    decreases chunks.len()
{
    if chunks.len() == 0 { c.len() == 0 }
    else { exists|c2: Seq<u8>| #[trigger] check_outcome(c + chunks[0], Some(c2)) && utf8_run_ok(chunks.skip(1), c2) }
}
/// an overhang: no non-empty prefix of it is well-formed (it starts right behind a LONGEST well-formed prefix)
pub open spec fn no_valid_prefix(c: Seq<u8>) -> bool {
    forall|j: int| 0 < j <= c.len() ==> !vstd::utf8::valid_utf8(#[trigger] c.subrange(0, j))
}

/// the first scalar of a well-formed non-empty string: 1..4 bytes, inside the string, itself well-formed
pub proof fn lemma_first_scalar(x: Seq<u8>)
    requires vstd::utf8::valid_utf8(x), x.len() > 0
    ensures 1 <= vstd::utf8::length_of_first_scalar(x) <= 4, vstd::utf8::length_of_first_scalar(x) <= x.len(),
        vstd::utf8::pop_first_scalar(x) == x.skip(vstd::utf8::length_of_first_scalar(x)), vstd::utf8::valid_utf8(vstd::utf8::pop_first_scalar(x)),
        vstd::utf8::valid_utf8(x.subrange(0, vstd::utf8::length_of_first_scalar(x))),
{
    use vstd::utf8::*;
    let w = length_of_first_scalar(x);
    let y = x.subrange(0, w);
    assert(valid_first_scalar(x));
    assert(1 <= w <= 4);
    assert(w <= x.len());
    assert(pop_first_scalar(x) =~= x.skip(w));
    assert(y.len() == w);
    assert(forall|i: int| 0 <= i < w ==> y[i] == x[i]);
    assert(length_of_first_scalar(y) == w);
    assert(valid_first_scalar(y));
    assert(pop_first_scalar(y) =~= Seq::<u8>::empty());
    assert(valid_utf8(Seq::<u8>::empty()));
}

/// a well-formed prefix can be cancelled: what follows it in a well-formed string is well-formed
pub proof fn lemma_valid_cancel(a: Seq<u8>, b: Seq<u8>)
    requires vstd::utf8::valid_utf8(a), vstd::utf8::valid_utf8(a + b)
    ensures vstd::utf8::valid_utf8(b)
    decreases a.len()
{
    use vstd::utf8::*;
    if a.len() == 0 {
        assert(a + b =~= b);
    } else {
        lemma_first_scalar(a);
        lemma_first_scalar(a + b);
        let w = length_of_first_scalar(a);
        assert((a + b)[0] == a[0]);
        assert(length_of_first_scalar(a + b) == w);
        assert((a + b).skip(w) =~= a.skip(w) + b);
        lemma_valid_cancel(a.skip(w), b);
    }
}

/// every byte string has a longest well-formed prefix
pub proof fn lemma_mvp_exists(s: Seq<u8>)
    ensures exists|k: int| #[trigger] is_mvp(s, k)
    decreases s.len()
{
    use vstd::utf8::*;
    if valid_utf8(s) {
        assert(s.subrange(0, s.len() as int) =~= s);
        assert(is_mvp(s, s.len() as int));
    } else {
        assert(s.len() > 0) by { if s.len() == 0 { assert(s =~= Seq::<u8>::empty()); assert(valid_utf8(Seq::<u8>::empty())); } }
        let p = s.drop_last();
        lemma_mvp_exists(p);
        let k = choose|k: int| #[trigger] is_mvp(p, k);
        assert(p.subrange(0, k) =~= s.subrange(0, k));
        assert forall|j: int| k < j <= s.len() implies !valid_utf8(#[trigger] s.subrange(0, j)) by {
            if j == s.len() { assert(s.subrange(0, j) =~= s); } else { assert(p.subrange(0, j) =~= s.subrange(0, j)); }
        }
        assert(is_mvp(s, k));
    }
}

/// the overhang of a prefix s of a well-formed string s ++ t: at most 3 bytes, what follows the longest well-formed prefix
/// is again the start of a well-formed string, and it is an overhang (no well-formed prefix of its own)
pub proof fn lemma_overhang_of_prefix(s: Seq<u8>, t: Seq<u8>, k: int)
    requires vstd::utf8::valid_utf8(s + t), is_mvp(s, k)
    ensures s.len() - k <= 3, vstd::utf8::valid_utf8(s.skip(k) + t), no_valid_prefix(s.skip(k))
{
    use vstd::utf8::*;
    let v = s.subrange(0, k);
    let r = s.skip(k);
    assert(s + t =~= v + (r + t));
    lemma_valid_cancel(v, r + t);
    assert forall|j: int| 0 < j <= r.len() implies !valid_utf8(#[trigger] r.subrange(0, j)) by {
        if valid_utf8(r.subrange(0, j)) {
            valid_utf8_concat(v, r.subrange(0, j));
            assert(v + r.subrange(0, j) =~= s.subrange(0, k + j));
        }
    }
    if r.len() > 0 {
        let x = r + t;
        lemma_first_scalar(x);
        let w = length_of_first_scalar(x);
        if r.len() >= w {
            assert(x.subrange(0, w) =~= r.subrange(0, w));
            assert(!valid_utf8(r.subrange(0, w)));
        }
        assert(r.len() < w);
    }
}

/// SOUNDNESS of the checker's verdict for every chunking: if every chunk is accepted and the end is clean, then what was
/// delivered (behind a well-formed part v and the initial overhang c) is well-formed UTF-8
pub proof fn lemma_utf8_run_sound(chunks: Seq<Seq<u8>>, c: Seq<u8>, v: Seq<u8>)
    requires vstd::utf8::valid_utf8(v), utf8_run_ok(chunks, c)
    ensures vstd::utf8::valid_utf8(v + c + cat_chunks(chunks))
    decreases chunks.len()
{
    use vstd::utf8::*;
    if chunks.len() == 0 {
        assert(v + c + cat_chunks(chunks) =~= v);
    } else {
        let c2 = choose|c2: Seq<u8>| #[trigger] check_outcome(c + chunks[0], Some(c2)) && utf8_run_ok(chunks.skip(1), c2);
        let d = c + chunks[0];
        let k = choose|k: int| #[trigger] is_mvp(d, k) && d.len() - k <= 3 && c2 =~= d.skip(k);
        valid_utf8_concat(v, d.subrange(0, k));
        lemma_utf8_run_sound(chunks.skip(1), c2, v + d.subrange(0, k));
        assert(v + d.subrange(0, k) + c2 + cat_chunks(chunks.skip(1)) =~= v + c + cat_chunks(chunks));
    }
}

/// COMPLETENESS for every chunking: a well-formed stream is never rejected, wherever the chunk boundaries fall
pub proof fn lemma_utf8_run_complete(chunks: Seq<Seq<u8>>, c: Seq<u8>)
    requires vstd::utf8::valid_utf8(c + cat_chunks(chunks)), no_valid_prefix(c)
    ensures utf8_run_ok(chunks, c)
    decreases chunks.len()
{
    use vstd::utf8::*;
    if chunks.len() == 0 {
        assert(c + cat_chunks(chunks) =~= c);
        if c.len() > 0 { assert(c.subrange(0, c.len() as int) =~= c); }
    } else {
        let d = c + chunks[0];
        let t = cat_chunks(chunks.skip(1));
        assert(c + cat_chunks(chunks) =~= d + t);
        lemma_mvp_exists(d);
        let k = choose|k: int| #[trigger] is_mvp(d, k);
        lemma_overhang_of_prefix(d, t, k);
        let c2 = d.skip(k);
        assert(check_outcome(d, Some(c2)));
        lemma_utf8_run_complete(chunks.skip(1), c2);
    }
}

/// C14/C09: whatever the short-read schedule of the source (any chunking), the checker accepts the stream as a whole iff
/// the stream is well-formed UTF-8
pub proof fn utf8_check_stream(chunks: Seq<Seq<u8>>)
    ensures utf8_run_ok(chunks, Seq::<u8>::empty()) <==> vstd::utf8::valid_utf8(cat_chunks(chunks)),
{
    use vstd::utf8::*;
    let e = Seq::<u8>::empty();
    assert(valid_utf8(e));
    assert(e + cat_chunks(chunks) =~= cat_chunks(chunks));
    assert(e + e + cat_chunks(chunks) =~= cat_chunks(chunks));
    if utf8_run_ok(chunks, e) { lemma_utf8_run_sound(chunks, e, e); }
    if valid_utf8(cat_chunks(chunks)) { lemma_utf8_run_complete(chunks, e); }
}
