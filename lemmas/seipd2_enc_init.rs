// ---------------------------------------------------------------------------------
// lemmas/seipd2_enc_init.rs - the initial state of aead::StreamEncryptor, as one predicate shared by
// the unit that checks the constructor (U20b) and the unit that checks the reader (U21).
// Include AFTER lemmas/seipd2.rs, in a unit that extracts `struct StreamEncryptor`.
// ---------------------------------------------------------------------------------
impl<R: io::Read> StreamEncryptor<R> {
    /// `self` is what `StreamEncryptor::new(sym_alg, aead, chunk_size, session_key, salt, source)` must build
    pub closed spec fn is_initial(&self, sym_alg: SymmetricKeyAlgorithm, aead: AeadAlgorithm, chunk_size: ChunkSize, salt: Seq<u8>, key: Seq<u8>, source: R) -> bool {
        let p = Seipd2::derive(sym_alg, aead, chunk_octet(chunk_size), salt, key);
        &&& self.sym_alg == sym_alg && self.aead == aead
        &&& self.chunk_size_expanded as nat == p.chunk
        &&& self.bytes_read == 0 && self.chunk_index == 0
        &&& self.nonce@ == p.nonce(0) && self.info@ == p.info
        &&& self.message_key.0@ == p.key
        &&& self.source == source && !self.is_source_done
        &&& self.buffer@ == Seq::<u8>::empty() && self.buffer.requested() == p.chunk
    }
}
