// ---------------------------------------------------------------------------------
// lemmas/partial.rs - RFC 9580 section 4.2.1.4 (Partial Body Lengths) as an executable-free
// oracle: how a packet body is cut into chunks on the wire (`frame`) and how the chunks are
// put together again (`deframe`), written from the RFC text, not from rpgp's code.
//
// Include AFTER lemmas/framing.rs (needs PacketLength, dec_len, enc_len, new_len_ok, pow2).
//
//   "A Partial Body Length header is one octet long and encodes the length of only part of the
//    data packet. This length is a power of 2, from 1 to 1,073,741,824 (2 to the 30th power). [..]
//    Each Partial Body Length header is followed by a portion of the packet body data; the
//    Partial Body Length header specifies this portion's length. Another length header (one-octet,
//    two-octet, five-octet, or partial) follows that portion. The last length header in the packet
//    MUST NOT be a Partial Body Length header. [..] The first partial length MUST be at least 512
//    octets long. Partial Body Lengths MUST NOT be used for any other packet types [than data
//    packets: literal, compressed, encrypted]."
//
// Contents:
//   Chunk, chunk_of, deframe_c / deframe (reading side, Option), avail_c (total: body octets before the first
//   framing fault), deframe_stream / avail_stream (stream that starts with a length header),
//   lemma_deframe_avail, lemma_chunk_advance (reading m octets of the current chunk is invisible),
//   lemma_partial_step / lemma_partial_done, first_len_legal (512 / data-packet rules),
//   frame_from / frame (writing side), L1 = lemma_deframe_frame: deframe_stream(frame(body) ++ tail) == Some(body, |frame|),
//   packet_stream, chunk_len, lemma_gen_step (one step of a streaming emitter).
//
// A *chunk descriptor* says how the octets at the head of the stream are to be read:
//   Fixed(n)       n body octets, then the packet is over
//   Indeterminate  (legacy format) everything up to the end of the stream is body
//   Partial(n)     n body octets, then a new-format length (dec_len) that describes the next chunk
// The counts are `nat` (not u32) because a reader in the middle of a chunk is described by the
// same datatype with the count of octets still to come.
// ---------------------------------------------------------------------------------

pub enum Chunk {
    Fixed(nat),
    Indeterminate,
    Partial(nat),
}

pub open spec fn chunk_of(l: PacketLength) -> Chunk {
    match l {
        PacketLength::Fixed(n) => Chunk::Fixed(n as nat),
        PacketLength::Indeterminate => Chunk::Indeterminate,
        PacketLength::Partial(n) => Chunk::Partial(n as nat),
    }
}

/// `deframe_c(c, s)`: the stream `s` (what follows the first length header) holds a complete packet body
/// whose first chunk is described by `c`: Some((body, number of octets of s that belong to the packet)).
/// None: the stream ends before the packet does (a chunk shorter than announced, or a missing /
/// truncated length header after a partial chunk).  Never a shorter body instead.
pub open spec fn deframe_c(c: Chunk, s: Seq<u8>) -> Option<(Seq<u8>, nat)>
    decreases s.len()
{
    match c {
        Chunk::Fixed(n) => if n <= s.len() { Some((s.subrange(0, n as int), n)) } else { None },
        Chunk::Indeterminate => Some((s, s.len())),
        Chunk::Partial(n) =>
            if s.len() < n { None } else {
                match dec_len(s.skip(n as int)) {
                    None => None,
                    Some((l, k)) =>
                        // dec_len never yields Indeterminate nor k == 0 (lemma_dec_len_ok); the guard is for termination
                        if l is Indeterminate || k < 1 || s.len() < n + k { None } else {
                            match deframe_c(chunk_of(l), s.skip((n + k) as int)) {
                                None => None,
                                Some((b, used)) => Some((s.subrange(0, n as int) + b, n + k + used)),
                            }
                        },
                }
            },
    }
}

/// RFC 9580 4.2.1.4, reading side, with the first length taken from the packet header.
pub open spec fn deframe(first_len: PacketLength, stream: Seq<u8>) -> Option<(Seq<u8>, nat)> {
    deframe_c(chunk_of(first_len), stream)
}

/// The body octets that precede the first framing fault (all of the body if there is none): what a
/// streaming reader may hand out before it must fail.  Total; equals the body of deframe_c when that is Some.
pub open spec fn avail_c(c: Chunk, s: Seq<u8>) -> Seq<u8>
    decreases s.len()
{
    match c {
        Chunk::Fixed(n) => if n <= s.len() { s.subrange(0, n as int) } else { s },
        Chunk::Indeterminate => s,
        Chunk::Partial(n) =>
            if s.len() < n { s } else {
                match dec_len(s.skip(n as int)) {
                    None => s.subrange(0, n as int),
                    Some((l, k)) =>
                        if l is Indeterminate || k < 1 || s.len() < n + k { s.subrange(0, n as int) } else {
                            s.subrange(0, n as int) + avail_c(chunk_of(l), s.skip((n + k) as int))
                        },
                }
            },
    }
}

pub proof fn lemma_deframe_avail(c: Chunk, s: Seq<u8>)
    ensures match deframe_c(c, s) {
        Some((b, used)) => avail_c(c, s) == b && used <= s.len() && b.len() <= used,
        None => true }
    decreases s.len()
{
    match c {
        Chunk::Partial(n) => {
            if s.len() >= n {
                match dec_len(s.skip(n as int)) {
                    Some((l, k)) => {
                        if !(l is Indeterminate || k < 1 || s.len() < n + k) {
                            lemma_deframe_avail(chunk_of(l), s.skip((n + k) as int));
                        }
                    }
                    None => {}
                }
            }
        }
        _ => {}
    }
}

/// descriptor of the same chunk after m of its octets were taken
pub open spec fn chunk_after(c: Chunk, m: nat) -> Chunk {
    match c {
        Chunk::Fixed(n) => Chunk::Fixed((n - m) as nat),
        Chunk::Indeterminate => Chunk::Indeterminate,
        Chunk::Partial(n) => Chunk::Partial((n - m) as nat),
    }
}

/// octets of the current chunk that the stream can still deliver
pub open spec fn chunk_rest(c: Chunk, s: Seq<u8>) -> Seq<u8> {
    match c {
        Chunk::Fixed(n) => if n <= s.len() { s.subrange(0, n as int) } else { s },
        Chunk::Indeterminate => s,
        Chunk::Partial(n) => if n <= s.len() { s.subrange(0, n as int) } else { s },
    }
}

pub open spec fn shift_deframe(pre: Seq<u8>, r: Option<(Seq<u8>, nat)>) -> Option<(Seq<u8>, nat)> {
    match r {
        Some((b, used)) => Some((pre + b, pre.len() + used)),
        None => None,
    }
}

/// a stream that starts with a new-format length header, followed by the packet body in chunks
pub open spec fn deframe_stream(s: Seq<u8>) -> Option<(Seq<u8>, nat)> {
    match dec_len(s) {
        Some((l, k)) => if l is Indeterminate || k < 1 || s.len() < k { None } else {
            match deframe_c(chunk_of(l), s.skip(k as int)) {
                Some((b, used)) => Some((b, k + used)),
                None => None,
            }
        },
        None => None,
    }
}

pub open spec fn avail_stream(s: Seq<u8>) -> Seq<u8> {
    match dec_len(s) {
        Some((l, k)) => if l is Indeterminate || k < 1 || s.len() < k { Seq::<u8>::empty() } else { avail_c(chunk_of(l), s.skip(k as int)) },
        None => Seq::<u8>::empty(),
    }
}

/// A partial chunk with n octets to go, followed by a length header and the remaining chunks.
pub proof fn lemma_partial_step(n: nat, s: Seq<u8>)
    requires n <= s.len()
    ensures
        deframe_c(Chunk::Partial(n), s) == shift_deframe(s.subrange(0, n as int), deframe_stream(s.skip(n as int))),
        avail_c(Chunk::Partial(n), s) == s.subrange(0, n as int) + avail_stream(s.skip(n as int)),
{
    let t = s.skip(n as int);
    let pre = s.subrange(0, n as int);
    match dec_len(t) {
        Some((l, k)) => {
            if !(l is Indeterminate || k < 1 || t.len() < k) {
                assert(t.skip(k as int) =~= s.skip((n + k) as int));
            } else {
                assert(pre + Seq::<u8>::empty() =~= pre);
            }
        }
        None => { assert(pre + Seq::<u8>::empty() =~= pre); }
    }
}

proof fn lemma_chunk_advance_partial(n: nat, s: Seq<u8>, m: nat)
    requires m <= n, m <= s.len()
    ensures
        deframe_c(Chunk::Partial(n), s) == shift_deframe(s.subrange(0, m as int), deframe_c(Chunk::Partial((n - m) as nat), s.skip(m as int))),
        avail_c(Chunk::Partial(n), s) == s.subrange(0, m as int) + avail_c(Chunk::Partial((n - m) as nat), s.skip(m as int)),
{
    let pre = s.subrange(0, m as int);
    let t = s.skip(m as int);
    let n2 = (n - m) as nat;
    if n <= s.len() {
        lemma_partial_step(n, s);
        lemma_partial_step(n2, t);
        assert(t.skip(n2 as int) =~= s.skip(n as int));
        let mid = t.subrange(0, n2 as int);
        assert(s.subrange(0, n as int) =~= pre + mid);
        match deframe_stream(s.skip(n as int)) {
            Some((b, used)) => { assert((pre + mid) + b =~= pre + (mid + b)); }
            None => {}
        }
        let av = avail_stream(s.skip(n as int));
        assert((pre + mid) + av =~= pre + (mid + av));
    } else {
        assert(s =~= pre + t);
    }
}

/// Reading m octets out of the current chunk is invisible: the same body is deframed from
/// (those m octets) ++ (the rest read with the decremented descriptor).  This is the step lemma of
/// every streaming reader, for every short-read schedule.
pub proof fn lemma_chunk_advance(c: Chunk, s: Seq<u8>, m: nat)
    requires m <= chunk_rest(c, s).len()
    ensures
        deframe_c(c, s) == shift_deframe(s.subrange(0, m as int), deframe_c(chunk_after(c, m), s.skip(m as int))),
        avail_c(c, s) == s.subrange(0, m as int) + avail_c(chunk_after(c, m), s.skip(m as int)),
        chunk_rest(c, s) == s.subrange(0, m as int) + chunk_rest(chunk_after(c, m), s.skip(m as int)),
{
    let pre = s.subrange(0, m as int);
    let t = s.skip(m as int);
    match c {
        Chunk::Fixed(n) => {
            if n <= s.len() {
                assert(s.subrange(0, n as int) =~= pre + t.subrange(0, (n - m) as int));
            } else {
                assert(s =~= pre + t);
            }
        }
        Chunk::Indeterminate => {
            assert(s =~= pre + t);
        }
        Chunk::Partial(n) => {
            lemma_chunk_advance_partial(n, s, m);
            if n <= s.len() {
                assert(s.subrange(0, n as int) =~= pre + t.subrange(0, (n - m) as int));
            } else {
                assert(s =~= pre + t);
            }
        }
    }
}

/// A partial chunk that has been read completely: the next thing in the stream is a length header.
pub proof fn lemma_partial_done(s: Seq<u8>)
    ensures
        deframe_c(Chunk::Partial(0), s) == deframe_stream(s),
        avail_c(Chunk::Partial(0), s) == avail_stream(s),
{
    lemma_partial_step(0, s);
    assert(s.skip(0) =~= s);
    assert(s.subrange(0, 0) =~= Seq::<u8>::empty());
    match deframe_stream(s) {
        Some((b, used)) => { assert(Seq::<u8>::empty() + b =~= b); }
        None => {}
    }
    assert(Seq::<u8>::empty() + avail_stream(s) =~= avail_stream(s));
}

// ---- legality of the first length (RFC 9580 4.2.1.4, last two paragraphs) ----------------------
/// the data packet types: Literal (11), Compressed (8), SED (9), SEIPD (18) and GnuPG's OCB packet (20)
pub open spec fn data_tag_id(t: u8) -> bool { t == 8 || t == 9 || t == 11 || t == 18 || t == 20 }

/// may a packet of type `tag_id` start with length `first`?
pub open spec fn first_len_legal(tag_id: u8, first: PacketLength) -> bool {
    match first {
        PacketLength::Partial(n) => data_tag_id(tag_id) && n >= 512,
        _ => true,
    }
}

// ---- writing side ---------------------------------------------------------------------------
/// `frame_from(body, cur, cs)`: length header + chunk, repeated: while at least `cur` octets are left a
/// Partial(cur) chunk is written (then `cs` is the size of all later partial chunks); the remainder
/// (fewer than cur octets, possibly none) goes out as the final Fixed chunk.
pub open spec fn frame_from(body: Seq<u8>, cur: nat, cs: nat) -> Seq<u8>
    decreases body.len()
{
    if cur == 0 || body.len() < cur {
        enc_len(PacketLength::Fixed(body.len() as u32)) + body
    } else {
        enc_len(PacketLength::Partial(cur as u32)) + body.subrange(0, cur as int) + frame_from(body.skip(cur as int), cs, cs)
    }
}

/// the wire form of a packet body: first partial chunk of `first` octets, later ones of `cs` octets,
/// final fixed chunk r < cs (empty when the body ends on a chunk boundary)
pub open spec fn frame(body: Seq<u8>, first: nat, cs: nat) -> Seq<u8> { frame_from(body, first, cs) }

pub open spec fn is_partial_size(n: nat) -> bool { exists|k: nat| k <= 30 && n == #[trigger] pow2(k) }

/// the final chunk: Fixed(|body|) ++ body
pub proof fn lemma_deframe_final(body: Seq<u8>, tail: Seq<u8>)
    requires body.len() <= u32::MAX
    ensures deframe_stream(enc_len(PacketLength::Fixed(body.len() as u32)) + body + tail)
        == Some((body, enc_len(PacketLength::Fixed(body.len() as u32)).len() + body.len()))
{
    let l = PacketLength::Fixed(body.len() as u32);
    let e = enc_len(l);
    let s = e + body + tail;
    lemma_len_roundtrip(l, body + tail);
    assert(s =~= e + (body + tail));
    assert(s.skip(e.len() as int) =~= body + tail);
    assert((body + tail).subrange(0, body.len() as int) =~= body);
}

/// one partial chunk in front of a stream that deframes to (b, u)
pub proof fn lemma_deframe_partial_chunk(k: nat, head: Seq<u8>, t: Seq<u8>, b: Seq<u8>, u: nat)
    requires k <= 30, head.len() == pow2(k), deframe_stream(t) == Some((b, u))
    ensures deframe_stream(enc_len(PacketLength::Partial(pow2(k) as u32)) + head + t) == Some((head + b, 1 + head.len() + u))
{
    let l = PacketLength::Partial(pow2(k) as u32);
    let e = enc_len(l);
    let s = e + head + t;
    lemma_pow2_u32(k);
    lemma_len_roundtrip_partial(k, head + t);
    assert(s =~= e + (head + t));
    let s1 = head + t;
    assert(s.skip(1) =~= s1);
    assert(s1.skip(head.len() as int) =~= t);
    assert(s1.subrange(0, head.len() as int) =~= head);
    lemma_partial_step(head.len(), s1);
    assert(chunk_of(l) == Chunk::Partial(head.len()));
}

proof fn lemma_frame_step(body: Seq<u8>, kc: nat, cs: nat, tail: Seq<u8>)
    requires kc <= 30, pow2(kc) <= body.len(),
        deframe_stream(frame_from(body.skip(pow2(kc) as int), cs, cs) + tail)
            == Some((body.skip(pow2(kc) as int), frame_from(body.skip(pow2(kc) as int), cs, cs).len()))
    ensures deframe_stream(frame_from(body, pow2(kc), cs) + tail) == Some((body, frame_from(body, pow2(kc), cs).len()))
{
    let cur = pow2(kc);
    lemma_pow2_u32(kc);
    let head = body.subrange(0, cur as int);
    let rest = body.skip(cur as int);
    let fr = frame_from(rest, cs, cs);
    let e = enc_len(PacketLength::Partial(cur as u32));
    assert(frame_from(body, cur, cs) == e + head + fr);
    lemma_deframe_partial_chunk(kc, head, fr + tail, rest, fr.len());
    lemma_len_roundtrip_partial(kc, head);
    assert(e.len() == 1);
    assert(e + head + (fr + tail) =~= (e + head + fr) + tail);
    assert(head + rest =~= body);
}

/// L1 with the chunk sizes given by their exponents
pub proof fn lemma_deframe_frame_exp(body: Seq<u8>, kc: nat, ks: nat, tail: Seq<u8>)
    requires kc <= 30, ks <= 30
    ensures deframe_stream(frame_from(body, pow2(kc), pow2(ks)) + tail) == Some((body, frame_from(body, pow2(kc), pow2(ks)).len()))
    decreases body.len()
{
    let cur = pow2(kc);
    let cs = pow2(ks);
    lemma_pow2_u32(kc);
    if body.len() < cur {
        lemma_deframe_final(body, tail);
    } else {
        lemma_deframe_frame_exp(body.skip(cur as int), ks, ks, tail);
        lemma_frame_step(body, kc, cs, tail);
    }
}

/// L1 (pairing): whatever follows on the wire, reading back a framed body yields exactly the body and
/// stops exactly at the end of the frame.
pub proof fn lemma_deframe_frame(body: Seq<u8>, cur: nat, cs: nat, tail: Seq<u8>)
    requires is_partial_size(cur), is_partial_size(cs)
    ensures deframe_stream(frame_from(body, cur, cs) + tail) == Some((body, frame_from(body, cur, cs).len()))
{
    let kc = choose|k: nat| k <= 30 && cur == #[trigger] pow2(k);
    let ks = choose|k: nat| k <= 30 && cs == #[trigger] pow2(k);
    lemma_deframe_frame_exp(body, kc, ks, tail);
}

// ---- one step of a streaming emitter -------------------------------------------------------
pub open spec fn pmin(a: int, b: int) -> int { if a <= b { a } else { b } }

pub proof fn lemma_frame_last(body: Seq<u8>, cs: nat)
    requires cs > 0, body.len() < cs
    ensures frame_from(body, cs, cs) == enc_len(PacketLength::Fixed(body.len() as u32)) + body
{}
pub proof fn lemma_frame_more(body: Seq<u8>, cs: nat)
    requires cs > 0, body.len() >= cs
    ensures frame_from(body, cs, cs) == enc_len(PacketLength::Partial(cs as u32)) + body.subrange(0, cs as int) + frame_from(body.skip(cs as int), cs, cs)
{}

/// what a generator that has not yet written the packet's first octet still has to emit
pub open spec fn packet_stream(tag: u8, header: Seq<u8>, payload: Seq<u8>, cs: nat) -> Seq<u8> {
    seq![(192 + tag) as u8] + frame(header + payload, cs, cs)
}

/// the length header the RFC prescribes for a chunk of n payload octets when at most `chunk` fit:
/// Partial(cs) if the chunk is full, else the final Fixed length (which on the first chunk counts the header)
pub open spec fn chunk_len(first: bool, hl: nat, cs: nat, chunk: nat, n: nat) -> PacketLength {
    if n < chunk { PacketLength::Fixed((n + (if first { hl } else { 0 })) as u32) } else { PacketLength::Partial(cs as u32) }
}

/// One step of a partial-body generator: having read n == min(chunk, |S|) payload octets it emits `pkt`;
/// that is exactly the head of the RFC framing of what was still to be written.
pub proof fn lemma_gen_step(tag: u8, h: Seq<u8>, s: Seq<u8>, cs: nat, first: bool, n: nat, pkt: Seq<u8>)
    requires
        tag < 64, 0 < cs <= 0x8000_0000, h.len() < cs,
        n == pmin((if first { cs - h.len() } else { cs as int }), s.len() as int),
        pkt == (if first { enc_hdr(Hdr::New { tag, len: chunk_len(first, h.len(), cs, (cs - h.len()) as nat, n) }) + h }
                else { enc_len(chunk_len(first, h.len(), cs, cs, n)) }) + s.subrange(0, n as int),
    ensures
        (if first { packet_stream(tag, h, s, cs) } else { frame_from(s, cs, cs) })
            == pkt + (if n < (if first { cs - h.len() } else { cs as int }) { Seq::<u8>::empty() } else { frame_from(s.skip(n as int), cs, cs) }),
        // the length written exists in the new format (for a full chunk: provided cs is a legal partial body length)
        is_partial_size(cs) || n < (if first { cs - h.len() } else { cs as int })
            ==> new_len_ok(chunk_len(first, h.len(), cs, (if first { (cs - h.len()) as nat } else { cs }), n)),
{
    let chunk: nat = if first { (cs - h.len()) as nat } else { cs };
    let body = if first { h + s } else { s };
    let hl: nat = if first { h.len() } else { 0 };
    let l = chunk_len(first, h.len(), cs, chunk, n);
    if is_partial_size(cs) {
        let k = choose|k: nat| k <= 30 && cs == #[trigger] pow2(k);
        lemma_pow2_u32(k);
        assert(partial_ok(cs as u32)) by { assert(cs as u32 as nat == pow2(k)); }
    }
    assert(body.len() == hl + s.len());
    if n < chunk {
        // the stream ended inside this chunk: final Fixed chunk
        assert(s.subrange(0, n as int) =~= s);
        lemma_frame_last(body, cs);
        assert(l == PacketLength::Fixed(body.len() as u32));
        if first {
            assert(enc_hdr(Hdr::New { tag, len: l }) =~= seq![(192 + tag) as u8] + enc_len(l));
            assert(seq![(192 + tag) as u8] + (enc_len(l) + (h + s)) =~= (seq![(192 + tag) as u8] + enc_len(l) + h) + s);
        }
        assert(pkt + Seq::<u8>::empty() =~= pkt);
    } else {
        lemma_frame_more(body, cs);
        assert(l == PacketLength::Partial(cs as u32));
        let fr = frame_from(s.skip(n as int), cs, cs);
        if first {
            assert(body.subrange(0, cs as int) =~= h + s.subrange(0, n as int));
            assert(body.skip(cs as int) =~= s.skip(n as int));
            assert(enc_hdr(Hdr::New { tag, len: l }) =~= seq![(192 + tag) as u8] + enc_len(l));
            assert(seq![(192 + tag) as u8] + (enc_len(l) + (h + s.subrange(0, n as int)) + fr)
                =~= (seq![(192 + tag) as u8] + enc_len(l) + h + s.subrange(0, n as int)) + fr);
        } else {
            assert(enc_len(l) + s.subrange(0, n as int) + fr =~= (enc_len(l) + s.subrange(0, n as int)) + fr);
        }
    }
}
