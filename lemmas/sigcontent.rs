// ---------------------------------------------------------------------------------
// lemmas/sigcontent.rs - what a DATA signature signs, shared by the verify side (U31) and the sign side
// (U32) so that both are stated against the SAME spec function (C06): cfg_preimage(config, content).
// Needs lemmas/canon.rs, lemmas/sigdigest.rs, lemmas/sigspec.rs and the extracted SignatureConfig in scope.
// ---------------------------------------------------------------------------------
/// RFC 9580 Table 23 (hash algorithm registry): v6 signature salt size by hash algorithm id
pub open spec fn rfc_salt_len(hash_id: u8) -> Option<usize> {
    if hash_id == 8 { Some(16usize) }        // SHA2-256
    else if hash_id == 9 { Some(24usize) }   // SHA2-384
    else if hash_id == 10 { Some(32usize) }  // SHA2-512
    else if hash_id == 11 { Some(16usize) }  // SHA2-224
    else if hash_id == 12 { Some(16usize) }  // SHA3-256
    else if hash_id == 14 { Some(32usize) }  // SHA3-512
    else { None }
}
pub open spec fn salt_of(vs: SignatureVersionSpecific) -> Seq<u8> {
    match vs { SignatureVersionSpecific::V6 { salt } => salt@, _ => Seq::<u8>::empty() }
}
/// the complete RFC 9580 5.2.4 pre-image of a signature with config `c` over signed content `content`
pub open spec fn cfg_preimage(c: SignatureConfig, content: Seq<u8>) -> Seq<u8> {
    sig_preimage(ver_of(c.version_specific).id(), salt_of(c.version_specific), content, c.typ.id(), c.pub_alg.id(),
                 c.hash_alg.id(), ser_all(c.hashed_subpackets@), created_of(c.version_specific))
}
/// RFC 9580 5.2.4 / 5.2.1: what a data signature of type `typ` over the message `msg` signs.
/// binary (0x00): the document; text (0x01): the document with line endings canonicalised to CR LF;
/// standalone (0x02): "calculated identically to a signature over a zero-length binary document".
pub open spec fn rfc_content_ok(typ: SignatureType, msg: Seq<u8>, content: Seq<u8>) -> bool {
    &&& typ is Binary ==> content == msg
    &&& typ is Text ==> content == canon(msg, false)
}
pub open spec fn rfc_standalone_content_ok(typ: SignatureType, content: Seq<u8>) -> bool {
    typ is Standalone ==> content == Seq::<u8>::empty()
}
