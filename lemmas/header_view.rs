// ---------------------------------------------------------------------------------
// lemmas/header_view.rs - the RFC view (lemmas/framing.rs `Hdr`) of rpgp's PacketHeader value and the
// representation invariant every constructor establishes.  Pure spec/proof text.  Include after
// lemmas/framing.rs, shims/packet_header_bits.rs and the extracted enums PacketHeaderVersion, PacketHeader.
// ---------------------------------------------------------------------------------
/// the RFC view of a header for a body of `len` octets as write_header/header_len build it
pub open spec fn hdr_of(v: PacketHeaderVersion, tag: u8, len: u32) -> Hdr {
    match v {
        PacketHeaderVersion::Old => Hdr::Old { tag, lt: old_canon_lt(PacketLength::Fixed(len)), len: PacketLength::Fixed(len) },
        PacketHeaderVersion::New => Hdr::New { tag, len: PacketLength::Fixed(len) },
    }
}
pub open spec fn tag_fits(v: PacketHeaderVersion, tag: u8) -> bool {
    match v { PacketHeaderVersion::Old => tag < 16, PacketHeaderVersion::New => tag < 64 }
}

impl PacketHeader {
    /// the header as the RFC sees it
    pub open spec fn hv(self) -> Hdr {
        match self {
            PacketHeader::New { header, length } => Hdr::New { tag: (header.bits % 64) as u8, len: length },
            PacketHeader::Old { header, length } => Hdr::Old { tag: ((header.bits / 4) % 16) as u8, lt: (header.bits % 4) as u8, len: length },
        }
    }
    /// bit 7 set, bit 6 = format
    pub open spec fn bits_ok(self) -> bool {
        match self {
            PacketHeader::New { header, length } => header.bits >= 192,
            PacketHeader::Old { header, length } => 128 <= header.bits < 192,
        }
    }
    /// what every constructor (try_from_reader, from_parts, new_fixed) establishes
    pub open spec fn inv(self) -> bool { self.bits_ok() && hdr_ok(self.hv()) }
    /// legacy headers only: the length-type is the minimal one for the length (always true after from_parts;
    /// NOT implied by try_from_reader: the wire may carry e.g. a 4-octet length-type for length 5)
    pub open spec fn lt_canonical(self) -> bool {
        match self {
            PacketHeader::New { header, length } => true,
            PacketHeader::Old { header, length } => (header.bits % 4) as u8 == old_canon_lt(length),
        }
    }
    /// number of octets of the header with the minimal length-type
    pub open spec fn canon_len(self) -> nat {
        match self {
            PacketHeader::New { header, length } => 1 + enc_len(length).len(),
            PacketHeader::Old { header, length } => match length {
                PacketLength::Fixed(n) => if n < 256 { 2nat } else if n < 65536 { 3nat } else { 5nat },
                _ => 1nat,
            },
        }
    }

}

/// the bit fields of a stored header octet, arithmetically
pub proof fn lemma_hdr_bits(h: PacketHeader)
    requires h.inv()
    ensures match h {
        PacketHeader::New { header, length } => header.bits == 192 + header.bits % 64,
        PacketHeader::Old { header, length } => header.bits == 128 + ((header.bits / 4) % 16) * 4 + header.bits % 4,
    }
{}

/// hv is injective on well-formed headers: equal RFC views mean equal values
pub proof fn lemma_hv_injective(a: PacketHeader, b: PacketHeader)
    requires a.bits_ok(), b.bits_ok(), a.hv() == b.hv()
    ensures a == b
{
    match (a, b) {
        (PacketHeader::New { header: ha, length: la }, PacketHeader::New { header: hb, length: lb }) => {
            assert(ha.bits == 192 + ha.bits % 64 && hb.bits == 192 + hb.bits % 64);
        }
        (PacketHeader::Old { header: ha, length: la }, PacketHeader::Old { header: hb, length: lb }) => {
            assert(ha.bits == 128 + ((ha.bits / 4) % 16) * 4 + ha.bits % 4);
            assert(hb.bits == 128 + ((hb.bits / 4) % 16) * 4 + hb.bits % 4);
        }
        _ => {}
    }
}

