// ---------------------------------------------------------------------------------
// lemmas/keygen_selfsig.rs - specification vocabulary of the self-signatures made during key generation (units U95c, U95d):
// what a subkey binding, a User ID self-certification and a direct-key signature owe, and "the requested flags / features / preferences
// are published".  Pure specification + proofs, no assumptions.  Include after shims/keygen_users.rs and after the extraction of
// the REAL composed KeyDetails struct and of SignedKeyDetails, inside verus!{}.
// ---------------------------------------------------------------------------------
/// what a subkey binding signature made during key generation owes (RFC 9580 5.2.1.8, 5.2.3.34, 10.1): type 0x18 by the primary key over
/// (primary, subkey); hashed area: the key flags handed in, the issuer fingerprint of the primary; the back signature - if one was handed in -
/// as Embedded Signature subpacket in the HASHED area, and no Embedded Signature subpacket otherwise
pub open spec fn binding_made(sig: Signature, primary_fp: Fingerprint, primary_ver: KeyVersion, primary_kid: KeyId, primary: Seq<u8>, subkey: Seq<u8>, flags: KeyFlags, embedded: Option<Signature>) -> bool {
    let c = sig.cfg();
    &&& c.typ is SubkeyBinding
    &&& subkey_binding_by(sig, primary_fp, primary, subkey)
    &&& has(c.hashed_subpackets@, SubpacketData::KeyFlags(flags))
    &&& forall|i: int| 0 <= i < c.hashed_subpackets@.len() && (#[trigger] sp_data(c.hashed_subpackets@[i])) is KeyFlags ==> sp_data(c.hashed_subpackets@[i]) == SubpacketData::KeyFlags(flags)
    &&& has(c.hashed_subpackets@, SubpacketData::IssuerFingerprint(primary_fp))
    &&& exists|i: int| 0 <= i < c.hashed_subpackets@.len() && (#[trigger] sp_data(c.hashed_subpackets@[i])) is SignatureCreationTime
    &&& match embedded {
            Some(e) => has(c.hashed_subpackets@, SubpacketData::EmbeddedSignature(Box::new(e))),
            None => forall|i: int| 0 <= i < c.hashed_subpackets@.len() ==> !((#[trigger] sp_data(c.hashed_subpackets@[i])) is EmbeddedSignature),
        }
    &&& forall|i: int| 0 <= i < c.hashed_subpackets@.len() && (#[trigger] sp_data(c.hashed_subpackets@[i])) is EmbeddedSignature ==> embedded is Some && sp_data(c.hashed_subpackets@[i]) == SubpacketData::EmbeddedSignature(Box::new(embedded->Some_0))
    // the unhashed area holds nothing but the issuer key id (keys up to v4), in particular no Embedded Signature
    &&& forall|i: int| 0 <= i < c.unhashed_subpackets@.len() ==> key_version_rank(primary_ver) <= 2 && (#[trigger] sp_data(c.unhashed_subpackets@[i])) == SubpacketData::IssuerKeyId(primary_kid)
    &&& forall|i: int| 0 <= i < c.hashed_subpackets@.len() ==> !sp_critical(#[trigger] c.hashed_subpackets@[i])
}

impl KeyDetails {
    pub closed spec fn primary(&self) -> Option<UserId> { self.primary_user_id }
    pub closed spec fn others(&self) -> Seq<UserId> { self.non_primary_user_ids@ }
    pub closed spec fn attrs(&self) -> Seq<UserAttribute> { self.user_attributes@ }
    pub closed spec fn flags(&self) -> KeyFlags { self.keyflags }
    pub closed spec fn feats(&self) -> Features { self.features }
    pub closed spec fn pref_sym(&self) -> SmallVec<[SymmetricKeyAlgorithm; 8]> { self.preferred_symmetric_algorithms }
    pub closed spec fn pref_hash(&self) -> SmallVec<[HashAlgorithm; 8]> { self.preferred_hash_algorithms }
    pub closed spec fn pref_comp(&self) -> SmallVec<[CompressionAlgorithm; 8]> { self.preferred_compression_algorithms }
    pub closed spec fn pref_aead(&self) -> SmallVec<[(SymmetricKeyAlgorithm, AeadAlgorithm); 4]> { self.preferred_aead_algorithms }
}
/// the six kinds of subpackets that publish what the key holder asked for (RFC 9580 5.2.3.29 key flags, 5.2.3.32 features, 5.2.3.14/.16/.17/.15 preferences)
pub open spec fn is_metadata(x: SubpacketData) -> bool {
    x is KeyFlags || x is Features || x is PreferredSymmetricAlgorithms || x is PreferredHashAlgorithms || x is PreferredCompressionAlgorithms || x is PreferredAeadAlgorithms
}
pub open spec fn wanted(d: KeyDetails, x: SubpacketData) -> bool {
    ||| x == SubpacketData::KeyFlags(d.flags())
    ||| x == SubpacketData::Features(d.feats())
    ||| x == SubpacketData::PreferredSymmetricAlgorithms(d.pref_sym())
    ||| x == SubpacketData::PreferredHashAlgorithms(d.pref_hash())
    ||| x == SubpacketData::PreferredCompressionAlgorithms(d.pref_comp())
    ||| x == SubpacketData::PreferredAeadAlgorithms(d.pref_aead())
}
/// the area publishes exactly the requested key flags, features and preference lists (each list as a whole, i.e. in the requested order): all six
/// are present, and no subpacket of these kinds says anything else
pub open spec fn publishes(area: Seq<Subpacket>, d: KeyDetails) -> bool {
    &&& has(area, SubpacketData::KeyFlags(d.flags()))
    &&& has(area, SubpacketData::Features(d.feats()))
    &&& has(area, SubpacketData::PreferredSymmetricAlgorithms(d.pref_sym()))
    &&& has(area, SubpacketData::PreferredHashAlgorithms(d.pref_hash()))
    &&& has(area, SubpacketData::PreferredCompressionAlgorithms(d.pref_comp()))
    &&& has(area, SubpacketData::PreferredAeadAlgorithms(d.pref_aead()))
    &&& forall|i: int| 0 <= i < area.len() && is_metadata(#[trigger] sp_data(area[i])) ==> wanted(d, sp_data(area[i]))
}
/// a self-signature names its maker: Issuer Fingerprint (hashed) and, for keys up to v4, Issuer Key ID (unhashed; RFC 9580 5.2.3.12: not for v6), a creation time, nothing critical
pub open spec fn names_issuer(c: SignatureConfig, fp: Fingerprint, ver: KeyVersion, kid: KeyId) -> bool {
    &&& has(c.hashed_subpackets@, SubpacketData::IssuerFingerprint(fp))
    &&& exists|i: int| 0 <= i < c.hashed_subpackets@.len() && (#[trigger] sp_data(c.hashed_subpackets@[i])) is SignatureCreationTime
    &&& key_version_rank(ver) <= 2 ==> has(c.unhashed_subpackets@, SubpacketData::IssuerKeyId(kid))
    &&& forall|i: int| 0 <= i < c.unhashed_subpackets@.len() ==> key_version_rank(ver) <= 2 && (#[trigger] sp_data(c.unhashed_subpackets@[i])) == SubpacketData::IssuerKeyId(kid)
}
/// the subpacket lists the two closures of KeyDetails::sign build (positions are an internal matter; the postconditions speak of has / publishes)
pub open spec fn meta_vec(v: Seq<Subpacket>, fp: Fingerprint, d: KeyDetails) -> bool {
    meta_vec6(v, fp, &d.flags(), &d.feats(), &d.pref_sym(), &d.pref_hash(), &d.pref_comp(), &d.pref_aead())
}
pub open spec fn meta_vec6(v: Seq<Subpacket>, fp: Fingerprint, kf: &KeyFlags, ft: &Features, ps: &SmallVec<[SymmetricKeyAlgorithm; 8]>, ph: &SmallVec<[HashAlgorithm; 8]>,
    pc: &SmallVec<[CompressionAlgorithm; 8]>, pa: &SmallVec<[(SymmetricKeyAlgorithm, AeadAlgorithm); 4]>) -> bool {
    &&& v.len() == 8
    &&& sp_data(v[0]) is SignatureCreationTime
    &&& sp_data(v[1]) == SubpacketData::IssuerFingerprint(fp)
    &&& sp_data(v[2]) == SubpacketData::KeyFlags(*kf)
    &&& sp_data(v[3]) == SubpacketData::Features(*ft)
    &&& sp_data(v[4]) == SubpacketData::PreferredSymmetricAlgorithms(*ps)
    &&& sp_data(v[5]) == SubpacketData::PreferredHashAlgorithms(*ph)
    &&& sp_data(v[6]) == SubpacketData::PreferredCompressionAlgorithms(*pc)
    &&& sp_data(v[7]) == SubpacketData::PreferredAeadAlgorithms(*pa)
}
pub open spec fn basic_vec(v: Seq<Subpacket>, fp: Fingerprint) -> bool {
    &&& v.len() == 2
    &&& sp_data(v[0]) is SignatureCreationTime
    &&& sp_data(v[1]) == SubpacketData::IssuerFingerprint(fp)
}
pub proof fn lemma_meta_vec(v: Seq<Subpacket>, fp: Fingerprint, d: KeyDetails)
    requires meta_vec(v, fp, d)
    ensures publishes(v, d), has(v, SubpacketData::IssuerFingerprint(fp)),
        forall|i: int| 0 <= i < v.len() ==> !((#[trigger] sp_data(v[i])) is IsPrimary),
{
    lemma_has_at(v, 1, SubpacketData::IssuerFingerprint(fp));
    lemma_has_at(v, 2, SubpacketData::KeyFlags(d.flags()));
    lemma_has_at(v, 3, SubpacketData::Features(d.feats()));
    lemma_has_at(v, 4, SubpacketData::PreferredSymmetricAlgorithms(d.pref_sym()));
    lemma_has_at(v, 5, SubpacketData::PreferredHashAlgorithms(d.pref_hash()));
    lemma_has_at(v, 6, SubpacketData::PreferredCompressionAlgorithms(d.pref_comp()));
    lemma_has_at(v, 7, SubpacketData::PreferredAeadAlgorithms(d.pref_aead()));
}
pub proof fn lemma_has_push(v: Seq<Subpacket>, p: Subpacket, x: SubpacketData)
    requires has(v, x)
    ensures has(v.push(p), x)
{
    let i = choose|i: int| 0 <= i < v.len() && #[trigger] sp_data(v[i]) == x;
    assert(sp_data(v.push(p)[i]) == x);
}
pub proof fn lemma_publishes_push(v: Seq<Subpacket>, p: Subpacket, d: KeyDetails)
    requires publishes(v, d), !is_metadata(sp_data(p))
    ensures publishes(v.push(p), d)
{
    lemma_has_push(v, p, SubpacketData::KeyFlags(d.flags()));
    lemma_has_push(v, p, SubpacketData::Features(d.feats()));
    lemma_has_push(v, p, SubpacketData::PreferredSymmetricAlgorithms(d.pref_sym()));
    lemma_has_push(v, p, SubpacketData::PreferredHashAlgorithms(d.pref_hash()));
    lemma_has_push(v, p, SubpacketData::PreferredCompressionAlgorithms(d.pref_comp()));
    lemma_has_push(v, p, SubpacketData::PreferredAeadAlgorithms(d.pref_aead()));
    let w = v.push(p);
    assert forall|i: int| 0 <= i < w.len() && is_metadata(#[trigger] sp_data(w[i])) implies wanted(d, sp_data(w[i])) by {
        if i < v.len() { assert(w[i] == v[i]); }
    }
}
/// what the self-certification of one User ID owes: exactly one signature, a positive certification (0x13) by the key over (key, this User ID), naming
/// its maker; marked primary exactly if `primary`
pub open spec fn user_certified(u: SignedUser, signer: Fingerprint, ver: KeyVersion, kid: KeyId, key: Seq<u8>, primary: bool) -> bool {
    &&& u.signatures@.len() == 1
    &&& u.signatures@[0].cfg().typ is CertPositive
    &&& certification_by(u.signatures@[0], signer, key, u.id.spec_tag(), u.id.ser())
    &&& names_issuer(u.signatures@[0].cfg(), signer, ver, kid)
    &&& primary ==> has(u.signatures@[0].cfg().hashed_subpackets@, SubpacketData::IsPrimary(true))
    &&& !primary ==> forall|i: int| 0 <= i < u.signatures@[0].cfg().hashed_subpackets@.len() ==> !((#[trigger] sp_data(u.signatures@[0].cfg().hashed_subpackets@[i])) is IsPrimary)
    &&& forall|i: int| 0 <= i < u.signatures@[0].cfg().unhashed_subpackets@.len() ==> !((#[trigger] sp_data(u.signatures@[0].cfg().unhashed_subpackets@[i])) is IsPrimary)
}
pub open spec fn uid_offset(d: KeyDetails) -> int { if d.primary() is Some { 1 } else { 0 } }
/// "whose flags and preferences are those requested": there is a self-signature that publishes them - the direct-key signature of a v6 key
/// (RFC 9580 10.1.1), the User ID self-certifications of a v4 key (10.1.3: the first one being that of the primary User ID when there is one)
pub open spec fn metadata_published(out: SignedKeyDetails, d: KeyDetails, ver: KeyVersion) -> bool {
    if ver is V6 {
        out.direct_signatures@.len() == 1 && publishes(out.direct_signatures@[0].cfg().hashed_subpackets@, d)
    } else {
        out.users@.len() > 0 && out.users@[0].signatures@.len() == 1 && publishes(out.users@[0].signatures@[0].cfg().hashed_subpackets@, d)
    }
}


/// everything composed KeyDetails::sign is proved to establish in U95c (clauses (a)-(d), (f) there), as one predicate for its callers:
/// `out` are the self-signatures of the key (fingerprint fp, version ver, key id kid, serialisation ks) over the details d
pub open spec fn details_signed(out: SignedKeyDetails, d: KeyDetails, fp: Fingerprint, ver: KeyVersion, kid: KeyId, ks: Seq<u8>) -> bool {
    &&& ver is V6 ==> out.direct_signatures@.len() == 1 && out.direct_signatures@[0].cfg().typ is Key
            && key_signature_by(out.direct_signatures@[0], fp, ks)
            && publishes(out.direct_signatures@[0].cfg().hashed_subpackets@, d)
            && names_issuer(out.direct_signatures@[0].cfg(), fp, ver, kid)
    &&& !(ver is V6) ==> out.direct_signatures@.len() == 0
    &&& out.users@.len() == uid_offset(d) + d.others().len()
    &&& d.primary() matches Some(p) ==> out.users@[0].id == p
    &&& forall|j: int| 0 <= j < d.others().len() ==> (#[trigger] out.users@[uid_offset(d) + j]).id == d.others()[j]
    &&& forall|i: int| 0 <= i < out.users@.len() ==> user_certified(#[trigger] out.users@[i], fp, ver, kid, ks, i == 0 && d.primary() is Some)
    &&& !(ver is V6) ==> forall|i: int| 0 <= i < out.users@.len() ==> publishes((#[trigger] out.users@[i]).signatures@[0].cfg().hashed_subpackets@, d)
    &&& out.user_attributes@.len() == d.attrs().len()
    &&& forall|i: int| 0 <= i < d.attrs().len() ==> attribute_signed(#[trigger] out.user_attributes@[i], d.attrs()[i], fp, ks)
    &&& out.revocation_signatures@.len() == 0
}
