// ---------------------------------------------------------------------------------
// lemmas/signature_wire.rs - RFC 9580 5.2 wire form of a Signature packet body on the EXTRACTED types Signature
// (with `inner` made pub), InnerSignature, SignatureConfig, SignatureVersionSpecific, SignatureBytes, Subpacket...
// Include after extracting them, after shims/codec_sigtypes.rs, shims/codec_mpi.rs, lemmas/packet_wire.rs and
// lemmas/subpacket_wire.rs.  Pure spec code: nothing is assumed here.
// ---------------------------------------------------------------------------------
pub open spec fn mpis_wire(s: Seq<Mpi>) -> Seq<u8>
    decreases s.len()
{
    if s.len() == 0 { Seq::<u8>::empty() } else { mpis_wire(s.drop_last()) + mpi_wire(s.last().mv()) }
}
pub open spec fn sigbytes_wire(s: SignatureBytes) -> Seq<u8> {
    match s { SignatureBytes::Mpis(v) => mpis_wire(v@), SignatureBytes::Native(b) => b@ }
}
pub open spec fn cfg_is_v3(c: SignatureConfig) -> bool { c.version_specific is V2 || c.version_specific is V3 }
/// 5.2.2: [5, type, created(4), key id(8), pk, hash] (between the version octet and the hash16 field)
pub open spec fn cfg_wire_v3(c: SignatureConfig) -> Seq<u8> {
    match c.version_specific {
        SignatureVersionSpecific::V2 { created, issuer_key_id } => seq![5u8, sigtype_to_u8(c.typ)] + be32(created.0) + issuer_key_id.0@ + seq![pk_to_u8(c.pub_alg), hash_to_u8(c.hash_alg)],
        SignatureVersionSpecific::V3 { created, issuer_key_id } => seq![5u8, sigtype_to_u8(c.typ)] + be32(created.0) + issuer_key_id.0@ + seq![pk_to_u8(c.pub_alg), hash_to_u8(c.hash_alg)],
        _ => Seq::<u8>::empty(),
    }
}
/// 5.2.3: [type, pk, hash, count, hashed area, count, unhashed area] with two-octet counts for v4, four-octet for v6
pub open spec fn cfg_wire_v4_v6(c: SignatureConfig) -> Seq<u8> {
    let h = area_wire(c.hashed_subpackets@); let u = area_wire(c.unhashed_subpackets@);
    let head = seq![sigtype_to_u8(c.typ), pk_to_u8(c.pub_alg), hash_to_u8(c.hash_alg)];
    if c.version_specific is V6 { head + be32(h.len() as u32) + h + be32(u.len() as u32) + u }
    else { head + be16(h.len() as u16) + h + be16(u.len() as u16) + u }
}
/// all subpacket length fields right, and both areas fit their count field
pub open spec fn cfg_areas_ok(c: SignatureConfig) -> bool {
    &&& forall|k: int| 0 <= k < c.hashed_subpackets@.len() ==> sp_len_ok(#[trigger] c.hashed_subpackets@[k])
    &&& forall|k: int| 0 <= k < c.unhashed_subpackets@.len() ==> sp_len_ok(#[trigger] c.unhashed_subpackets@[k])
    &&& (c.version_specific is V4 ==> area_wire(c.hashed_subpackets@).len() <= 0xFFFF && area_wire(c.unhashed_subpackets@).len() <= 0xFFFF)
    &&& (c.version_specific is V6 ==> area_wire(c.hashed_subpackets@).len() <= 0xFFFF_FFFF && area_wire(c.unhashed_subpackets@).len() <= 0xFFFF_FFFF)
}
/// type invariant needed for panic freedom: well-formed length fields (SubpacketLength::to_writer) and announced lengths that can be summed
pub open spec fn cfg_wr_inv(c: SignatureConfig) -> bool {
    &&& forall|k: int| 0 <= k < c.hashed_subpackets@.len() ==> splen_wf((#[trigger] c.hashed_subpackets@[k]).len)
    &&& forall|k: int| 0 <= k < c.unhashed_subpackets@.len() ==> splen_wf((#[trigger] c.unhashed_subpackets@[k]).len)
    &&& area_announced(c.hashed_subpackets@) < 0x0100_0000_0000_0000 && area_announced(c.unhashed_subpackets@) < 0x0100_0000_0000_0000
}
pub open spec fn svs_version(v: SignatureVersionSpecific) -> SignatureVersion {
    match v {
        SignatureVersionSpecific::V2 { .. } => SignatureVersion::V2, SignatureVersionSpecific::V3 { .. } => SignatureVersion::V3,
        SignatureVersionSpecific::V4 => SignatureVersion::V4, SignatureVersionSpecific::V6 { .. } => SignatureVersion::V6,
    }
}
pub open spec fn sig_wire(s: Signature) -> Seq<u8> {
    match s.inner {
        InnerSignature::Known { config, signed_hash_value, signature } => match config.version_specific {
            SignatureVersionSpecific::V2 { created, issuer_key_id } => sig_v3_layout(2, sigtype_to_u8(config.typ), be32(created.0), issuer_key_id.0@, pk_to_u8(config.pub_alg), hash_to_u8(config.hash_alg), signed_hash_value@, sigbytes_wire(signature)),
            SignatureVersionSpecific::V3 { created, issuer_key_id } => sig_v3_layout(3, sigtype_to_u8(config.typ), be32(created.0), issuer_key_id.0@, pk_to_u8(config.pub_alg), hash_to_u8(config.hash_alg), signed_hash_value@, sigbytes_wire(signature)),
            SignatureVersionSpecific::V4 => sig_v4_layout(sigtype_to_u8(config.typ), pk_to_u8(config.pub_alg), hash_to_u8(config.hash_alg), area_wire(config.hashed_subpackets@), area_wire(config.unhashed_subpackets@), signed_hash_value@, sigbytes_wire(signature)),
            SignatureVersionSpecific::V6 { salt } => sig_v6_layout(sigtype_to_u8(config.typ), pk_to_u8(config.pub_alg), hash_to_u8(config.hash_alg), area_wire(config.hashed_subpackets@), area_wire(config.unhashed_subpackets@), signed_hash_value@, salt@, sigbytes_wire(signature)),
        },
        InnerSignature::Unknown { version, data } => sig_unknown_layout(sigver_to_u8(version), data@),
    }
}
/// every length field can hold its length
pub open spec fn sig_inv(s: Signature) -> bool {
    match s.inner {
        InnerSignature::Known { config, signed_hash_value, signature } => match config.version_specific {
            // (a v2/v3 signature has no subpacket areas: whatever the pub fields hashed_/unhashed_subpackets hold is not written)
            SignatureVersionSpecific::V2 { .. } => true,
            SignatureVersionSpecific::V3 { .. } => true,
            SignatureVersionSpecific::V4 => cfg_areas_ok(config),
            SignatureVersionSpecific::V6 { salt } => cfg_areas_ok(config) && salt@.len() <= 255,
        },
        InnerSignature::Unknown { version, data } => true,
    }
}
pub open spec fn sig_wr_inv(s: Signature) -> bool {
    match s.inner {
        InnerSignature::Known { config, signed_hash_value, signature } => cfg_wr_inv(config),
        InnerSignature::Unknown { version, data } => true,
    }
}
/// `c` are the octets `actual_signature` consumed for the signature material `s`
pub open spec fn mpis_parsed(v: Seq<Mpi>, c: Seq<u8>) -> bool
    decreases v.len()
{
    if v.len() == 0 { c.len() == 0 }
    else { c.len() >= 2 && mpi_span(c) <= c.len() && mpi_parsed(v[0].mv(), c.subrange(0, mpi_span(c))) && mpis_parsed(v.skip(1), c.skip(mpi_span(c))) }
}
pub open spec fn sigbytes_parsed(s: SignatureBytes, c: Seq<u8>) -> bool {
    match s { SignatureBytes::Mpis(v) => mpis_parsed(v@, c), SignatureBytes::Native(b) => c == b@ }
}
/// the algorithm / type ids of a parsed signature are the canonical decodings of their octets
pub open spec fn cfg_ids_canon(c: SignatureConfig) -> bool {
    sigtype_from_u8(sigtype_to_u8(c.typ)) == c.typ && pk_from_u8(pk_to_u8(c.pub_alg)) == c.pub_alg && hash_from_u8(hash_to_u8(c.hash_alg)) == c.hash_alg
}
/// what the parsers guarantee about a known-version signature parsed from `inp`, leaving `rest`: the input is the RFC
/// layout whose subpacket areas hold, per subpacket, length ++ type ++ body octets (bh / bu: the bodies found), whose
/// count fields are the true octet counts of the areas, and whose signature material is the octets `sc`
pub open spec fn sig_post_common(c: SignatureConfig) -> bool {
    &&& cfg_ids_canon(c)
    &&& forall|k: int| 0 <= k < c.hashed_subpackets@.len() ==> sp_wf(#[trigger] c.hashed_subpackets@[k])
    &&& forall|k: int| 0 <= k < c.unhashed_subpackets@.len() ==> sp_wf(#[trigger] c.unhashed_subpackets@[k])
}
pub open spec fn sig_post_v3(c: SignatureConfig, ver: u8, created: Timestamp, issuer_key_id: KeyId, shv: [u8; 2], sig: SignatureBytes, inp: Seq<u8>, rest: Seq<u8>) -> bool {
    &&& sig_post_common(c)
    &&& c.hashed_subpackets@.len() == 0 && c.unhashed_subpackets@.len() == 0
    &&& exists|sc: Seq<u8>| sigbytes_parsed(sig, sc)
            && inp == #[trigger] sig_v3_layout(ver, sigtype_to_u8(c.typ), be32(created.0), issuer_key_id.0@, pk_to_u8(c.pub_alg), hash_to_u8(c.hash_alg), shv@, sc) + rest
}
pub open spec fn sig_post_v4(c: SignatureConfig, shv: [u8; 2], sig: SignatureBytes, inp: Seq<u8>, rest: Seq<u8>) -> bool {
    let hs = c.hashed_subpackets@; let us = c.unhashed_subpackets@;
    &&& sig_post_common(c)
    &&& exists|bh: Seq<Seq<u8>>, bu: Seq<Seq<u8>>, sc: Seq<u8>|
            bodies_ok(hs, bh) && bodies_ok(us, bu) && sigbytes_parsed(sig, sc)
            && area_wire_with(hs, bh).len() <= 0xFFFF && area_wire_with(us, bu).len() <= 0xFFFF
            && inp == #[trigger] sig_v4_layout(sigtype_to_u8(c.typ), pk_to_u8(c.pub_alg), hash_to_u8(c.hash_alg), area_wire_with(hs, bh), area_wire_with(us, bu), shv@, sc) + rest
}
pub open spec fn sig_post_v6(c: SignatureConfig, salt: Seq<u8>, shv: [u8; 2], sig: SignatureBytes, inp: Seq<u8>, rest: Seq<u8>) -> bool {
    let hs = c.hashed_subpackets@; let us = c.unhashed_subpackets@;
    &&& sig_post_common(c)
    // "The value MUST match the value defined for the hash algorithm"
    &&& sig_salt_len(hash_to_u8(c.hash_alg)) == Some(salt.len() as int)
    &&& exists|bh: Seq<Seq<u8>>, bu: Seq<Seq<u8>>, sc: Seq<u8>|
            bodies_ok(hs, bh) && bodies_ok(us, bu) && sigbytes_parsed(sig, sc)
            && area_wire_with(hs, bh).len() <= 0xFFFF_FFFF && area_wire_with(us, bu).len() <= 0xFFFF_FFFF
            && inp == #[trigger] sig_v6_layout(sigtype_to_u8(c.typ), pk_to_u8(c.pub_alg), hash_to_u8(c.hash_alg), area_wire_with(hs, bh), area_wire_with(us, bu), shv@, salt, sc) + rest
}
pub open spec fn sig_known_post(c: SignatureConfig, shv: [u8; 2], sig: SignatureBytes, inp: Seq<u8>, rest: Seq<u8>) -> bool {
    match c.version_specific {
        SignatureVersionSpecific::V2 { created, issuer_key_id } => sig_post_v3(c, 2, created, issuer_key_id, shv, sig, inp, rest),
        SignatureVersionSpecific::V3 { created, issuer_key_id } => sig_post_v3(c, 3, created, issuer_key_id, shv, sig, inp, rest),
        SignatureVersionSpecific::V4 => sig_post_v4(c, shv, sig, inp, rest),
        SignatureVersionSpecific::V6 { salt } => sig_post_v6(c, salt@, shv, sig, inp, rest),
    }
}
/// what Signature::try_from_reader guarantees about Ok(s) for the packet body `inp`, `rest` being what it leaves unread
pub open spec fn sig_parse_post(s: Signature, inp: Seq<u8>, rest: Seq<u8>) -> bool {
    match s.inner {
        InnerSignature::Known { config, signed_hash_value, signature } => sig_known_post(config, signed_hash_value, signature, inp, rest),
        InnerSignature::Unknown { version, data } => !(version is V2 || version is V3 || version is V4 || version is V6)
            && sigver_from_u8(sigver_to_u8(version)) == version && inp == sig_unknown_layout(sigver_to_u8(version), data@) && rest.len() == 0,
    }
}
