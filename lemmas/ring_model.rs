// ---------------------------------------------------------------------------------
// lemmas/ring_model.rs - the search discipline of property C18 as pure functions of the inputs of
// TheRing::find_session_key, and what it implies (proved lemmas, no assumptions).
//
//   "search ESKs by identity match, try primary then subkeys, stop at first success per key;
//    session-key consistency check across PKESK / SKESK / explicit keys"
//
// Include inside verus!{} after shims/ring_env.rs and after the extraction of the real data types.
// ---------------------------------------------------------------------------------

pub open spec fn derefs<T>(s: Seq<&T>) -> Seq<T> { s.map_values(|x: &T| *x) }
pub open spec fn snd(s: Seq<(usize, PlainSessionKey)>) -> Seq<PlainSessionKey> { s.map_values(|x: (usize, PlainSessionKey)| x.1) }
pub open spec fn opt_seq<T>(o: Option<T>) -> Seq<T> { match o { Some(x) => seq![x], None => Seq::<T>::empty() } }
pub open spec fn ok_ok(r: errors::Result<errors::Result<PlainSessionKey>>) -> Option<PlainSessionKey> {
    match r { Ok(Ok(sk)) => Some(sk), _ => None }
}

// ------------------------------------------------------------------ grouping of the ESK packets
pub open spec fn skesk_alg(s: SymKeyEncryptedSessionKey) -> Option<SymmetricKeyAlgorithm> {
    match s {
        SymKeyEncryptedSessionKey::V4 { sym_algorithm, .. } => Some(sym_algorithm),
        SymKeyEncryptedSessionKey::V5 { sym_algorithm, .. } => Some(sym_algorithm),
        SymKeyEncryptedSessionKey::V6 { sym_algorithm, .. } => Some(sym_algorithm),
        SymKeyEncryptedSessionKey::Other { .. } => None,
    }
}
pub open spec fn skesk_ver(s: SymKeyEncryptedSessionKey) -> SkeskVersion {
    match s {
        SymKeyEncryptedSessionKey::V4 { .. } => SkeskVersion::V4,
        SymKeyEncryptedSessionKey::V5 { .. } => SkeskVersion::V5,
        SymKeyEncryptedSessionKey::V6 { .. } => SkeskVersion::V6,
        SymKeyEncryptedSessionKey::Other { version, .. } => SkeskVersion::Other(version),
    }
}
/// the PKESK packets among the first n ESKs, in order
pub open spec fn group_pk(es: Seq<Esk>, n: int) -> Seq<PublicKeyEncryptedSessionKey>
    decreases n
{
    if n <= 0 { Seq::empty() } else {
        match es[n - 1] {
            Esk::PublicKeyEncryptedSessionKey(p) => group_pk(es, n - 1).push(p),
            Esk::SymKeyEncryptedSessionKey(_) => group_pk(es, n - 1),
        }
    }
}
/// the SKESK packets of a known version (v4, v5, v6) among the first n ESKs, in order
pub open spec fn group_sk(es: Seq<Esk>, n: int) -> Seq<SymKeyEncryptedSessionKey>
    decreases n
{
    if n <= 0 { Seq::empty() } else {
        match es[n - 1] {
            Esk::SymKeyEncryptedSessionKey(s) => if skesk_alg(s) is Some { group_sk(es, n - 1).push(s) } else { group_sk(es, n - 1) },
            Esk::PublicKeyEncryptedSessionKey(_) => group_sk(es, n - 1),
        }
    }
}
pub open spec fn is_plaintext_skesk(e: Esk) -> bool {
    match e { Esk::SymKeyEncryptedSessionKey(s) => skesk_alg(s) == Some(SymmetricKeyAlgorithm::Plaintext), Esk::PublicKeyEncryptedSessionKey(_) => false }
}
/// one of the first n ESKs is an SKESK that names cipher 0 ("plaintext"): RFC 9580 9.3 / 5.3 - not a cipher a session key can be protected with
pub open spec fn plaintext_skesk(es: Seq<Esk>, n: int) -> bool {
    exists|i: int| 0 <= i < n && is_plaintext_skesk(#[trigger] es[i])
}

// ------------------------------------------------------------------ one component key on one PKESK
/// RFC 9580 5.1.1 / 5.1.2 / 5.1.8: the recipient a PKESK names - v3: an eight-octet key id, all zero = anonymous ("wildcard");
/// v6: key version ++ fingerprint, or nothing = anonymous (same definition as in U14, where match_identity is proved against it)
pub open spec fn pkesk_names(p: PublicKeyEncryptedSessionKey, kid: KeyId, fp: Fingerprint) -> bool {
    match p {
        PublicKeyEncryptedSessionKey::V3 { id, .. } => kid_bytes(id) == zeros8() || kid_bytes(id) == kid_bytes(kid),
        PublicKeyEncryptedSessionKey::V6 { fingerprint, .. } => fingerprint is None || fingerprint == Some(fp),
        PublicKeyEncryptedSessionKey::Other { .. } => false,
    }
}
pub open spec fn pkesk_typ(p: PublicKeyEncryptedSessionKey) -> Option<EskType> {
    match p {
        PublicKeyEncryptedSessionKey::V3 { .. } => Some(EskType::V3_4),
        PublicKeyEncryptedSessionKey::V6 { .. } => Some(EskType::V6),
        PublicKeyEncryptedSessionKey::Other { .. } => None,
    }
}
pub open spec fn pkesk_values(p: PublicKeyEncryptedSessionKey) -> PkeskBytes {
    match p {
        PublicKeyEncryptedSessionKey::V3 { values, .. } => values,
        PublicKeyEncryptedSessionKey::V6 { values, .. } => values,
        PublicKeyEncryptedSessionKey::Other { .. } => arbitrary(),
    }
}
/// index of the first presented key password that unlocks key material `id` (pws.len() if none does), searching from `from`
pub open spec fn first_unlock(id: DkId, pws: Seq<&Password>, values: PkeskBytes, typ: EskType, from: int) -> int
    decreases pws.len() - from
{
    if from < 0 || from >= pws.len() { pws.len() as int }
    else if dk_decrypt(id, *pws[from], values, typ) is Ok { from }
    else { first_unlock(id, pws, values, typ, from + 1) }
}
/// the session key that key material `id` yields for the PKESK values, given the presented key passwords:
/// an unlocked key decrypts as it is; a locked key is unlocked with the first presented password that fits (a wrong password is skipped, not fatal)
pub open spec fn try_spec(id: DkId, pws: Seq<&Password>, values: PkeskBytes, typ: EskType, locked: bool) -> Option<PlainSessionKey> {
    if !locked { ok_ok(dk_decrypt(id, pw_empty(), values, typ)) }
    else {
        let j = first_unlock(id, pws, values, typ, 0);
        if j < pws.len() { ok_ok(dk_decrypt(id, *pws[j], values, typ)) } else { None }
    }
}
/// the per-key status reported next to it
pub open spec fn try_flag(id: DkId, pws: Seq<&Password>, values: PkeskBytes, typ: EskType, locked: bool) -> InnerRingResult {
    if try_spec(id, pws, values, typ, locked) is Some { InnerRingResult::Ok }
    else if !locked { InnerRingResult::Invalid }
    else if first_unlock(id, pws, values, typ, 0) < pws.len() { InnerRingResult::Invalid }
    else if pws.len() == 0 { InnerRingResult::Unchecked }
    else { InnerRingResult::InvalidPassword }
}
pub proof fn lemma_first_unlock_hit(id: DkId, pws: Seq<&Password>, values: PkeskBytes, typ: EskType, from: int, j: int)
    requires
        0 <= from <= j < pws.len(),
        forall|i: int| from <= i < j ==> dk_decrypt(id, *#[trigger] pws[i], values, typ) is Err,
        dk_decrypt(id, *pws[j], values, typ) is Ok,
    ensures first_unlock(id, pws, values, typ, from) == j
    decreases j - from
{
    if from < j { lemma_first_unlock_hit(id, pws, values, typ, from + 1, j); }
}
pub proof fn lemma_first_unlock_none(id: DkId, pws: Seq<&Password>, values: PkeskBytes, typ: EskType, from: int)
    requires
        0 <= from <= pws.len(),
        forall|i: int| from <= i < pws.len() ==> dk_decrypt(id, *#[trigger] pws[i], values, typ) is Err,
    ensures first_unlock(id, pws, values, typ, from) == pws.len()
    decreases pws.len() - from
{
    if from < pws.len() { lemma_first_unlock_none(id, pws, values, typ, from + 1); }
}
pub proof fn lemma_first_unlock_props(id: DkId, pws: Seq<&Password>, values: PkeskBytes, typ: EskType, from: int)
    requires 0 <= from <= pws.len()
    ensures ({
        let j = first_unlock(id, pws, values, typ, from);
        &&& from <= j <= pws.len()
        &&& forall|i: int| from <= i < j ==> dk_decrypt(id, *#[trigger] pws[i], values, typ) is Err
        &&& j < pws.len() ==> dk_decrypt(id, *pws[j], values, typ) is Ok
    })
    decreases pws.len() - from
{
    if from < pws.len() && !(dk_decrypt(id, *pws[from], values, typ) is Ok) { lemma_first_unlock_props(id, pws, values, typ, from + 1); }
}
/// [C18] a session key accepted for a key is a decryption of THESE values with THAT key material, unlocked by a presented key password (or none for an unlocked key)
pub proof fn lemma_try_spec_sound(id: DkId, pws: Seq<&Password>, values: PkeskBytes, typ: EskType, locked: bool)
    ensures try_spec(id, pws, values, typ, locked) matches Some(sk) ==>
        (!locked && dk_decrypt(id, pw_empty(), values, typ) == Ok::<errors::Result<PlainSessionKey>, errors::Error>(Ok(sk)))
        || (locked && exists|j: int| 0 <= j < pws.len() && dk_decrypt(id, *#[trigger] pws[j], values, typ) == Ok::<errors::Result<PlainSessionKey>, errors::Error>(Ok(sk)))
{
    if locked { lemma_first_unlock_props(id, pws, values, typ, 0); }
}
/// [C18] a locked recipient key decrypts whenever one of the presented key passwords unlocks it; passwords that do not fit, presented before it, are skipped
pub proof fn lemma_try_spec_locked_complete(id: DkId, pws: Seq<&Password>, values: PkeskBytes, typ: EskType, j: int, sk: PlainSessionKey)
    requires
        0 <= j < pws.len(),
        forall|i: int| 0 <= i < j ==> dk_decrypt(id, *#[trigger] pws[i], values, typ) is Err,
        dk_decrypt(id, *pws[j], values, typ) == Ok::<errors::Result<PlainSessionKey>, errors::Error>(Ok(sk)),
    ensures try_spec(id, pws, values, typ, true) == Some(sk)
{
    lemma_first_unlock_hit(id, pws, values, typ, 0, j);
}

// ------------------------------------------------------------------ one certificate on one PKESK: primary first, then subkeys, first success wins
/// the primary key is tried only if the PKESK names it (its key id / fingerprint, or the wildcard)
pub open spec fn primary_try(p: PublicKeyEncryptedSessionKey, c: SignedSecretKey, pws: Seq<&Password>) -> Option<PlainSessionKey> {
    if pkesk_typ(p) is Some && pkesk_names(p, c.primary_key.spec_public().spec_key_id(), c.primary_key.spec_public().spec_fingerprint()) {
        try_spec(c.primary_key.spec_did(), pws, pkesk_values(p), pkesk_typ(p)->Some_0, c.primary_key.spec_params() is Encrypted)
    } else { None }
}
/// a subkey is tried only if the PKESK names it; a forwardee subkey (draft-wussler-openpgp-forwarding) only when forwarding is enabled
pub open spec fn sub_tried(p: PublicKeyEncryptedSessionKey, s: SignedSecretSubKey, fwd: bool) -> bool {
    pkesk_typ(p) is Some && pkesk_names(p, s.key.spec_public().spec_key_id(), s.key.spec_public().spec_fingerprint())
        && (fwd || !s.key.spec_public().spec_forwardee())
}
pub open spec fn sub_try(p: PublicKeyEncryptedSessionKey, s: SignedSecretSubKey, pws: Seq<&Password>, fwd: bool) -> Option<PlainSessionKey> {
    if sub_tried(p, s, fwd) {
        try_spec(s.key.spec_did(), pws, pkesk_values(p), pkesk_typ(p)->Some_0, s.key.spec_params() is Encrypted)
    } else { None }
}
/// the first subkey from index `from` on that yields a session key
pub open spec fn subs_first(p: PublicKeyEncryptedSessionKey, subs: Seq<SignedSecretSubKey>, from: int, pws: Seq<&Password>, fwd: bool) -> Option<PlainSessionKey>
    decreases subs.len() - from
{
    if from < 0 || from >= subs.len() { None }
    else { match sub_try(p, subs[from], pws, fwd) { Some(sk) => Some(sk), None => subs_first(p, subs, from + 1, pws, fwd) } }
}
/// what one presented certificate yields on one PKESK
pub open spec fn cert_try(p: PublicKeyEncryptedSessionKey, c: SignedSecretKey, pws: Seq<&Password>, fwd: bool) -> Option<PlainSessionKey> {
    if pkesk_typ(p) is None { None }   // a PKESK of an unknown version is not put to any key
    else { match primary_try(p, c, pws) { Some(sk) => Some(sk), None => subs_first(p, c.secret_subkeys@, 0, pws, fwd) } }
}
/// what the first n presented certificates yield on one PKESK: (index of the certificate, session key), in order
pub open spec fn certs_on(p: PublicKeyEncryptedSessionKey, certs: Seq<&SignedSecretKey>, n: int, pws: Seq<&Password>, fwd: bool) -> Seq<(usize, PlainSessionKey)>
    decreases n
{
    if n <= 0 { Seq::empty() } else {
        match cert_try(p, *certs[n - 1], pws, fwd) {
            Some(sk) => certs_on(p, certs, n - 1, pws, fwd).push(((n - 1) as usize, sk)),
            None => certs_on(p, certs, n - 1, pws, fwd),
        }
    }
}
/// the session keys obtained from the first m PKESKs: every PKESK is put to every presented certificate (a PKESK nobody can decrypt - a decoy, or one for
/// another recipient - contributes nothing and stops nothing)
pub open spec fn pk_obtained(pks: Seq<PublicKeyEncryptedSessionKey>, m: int, certs: Seq<&SignedSecretKey>, pws: Seq<&Password>, fwd: bool) -> Seq<(usize, PlainSessionKey)>
    decreases m
{
    if m <= 0 { Seq::empty() } else { pk_obtained(pks, m - 1, certs, pws, fwd) + certs_on(pks[m - 1], certs, certs.len() as int, pws, fwd) }
}

// ------------------------------------------------------------------ one SKESK against the presented message passwords
/// what the presented passwords from index `from` on yield on one SKESK: (index of the password, session key), in order.
/// A password that yields Err is skipped, not fatal.  With abort_early the first password that yields a key wins and the rest is not tried;
/// without it EVERY presented password is tried, so that every key a password yields enters the comparison.
/// A v5 SKESK (GnuPG, LibrePGP) is only looked at when gnupg_aead is enabled
pub open spec fn pws_on(s: SymKeyEncryptedSessionKey, mpws: Seq<&Password>, from: int, gnupg: bool, abort_early: bool) -> Seq<(usize, PlainSessionKey)>
    decreases mpws.len() - from
{
    if from < 0 || from >= mpws.len() { Seq::empty() }
    else if !gnupg && skesk_ver(s) == SkeskVersion::V5 { Seq::empty() }
    else { match skesk_pw_decrypt(s, *mpws[from]) {
        Ok(sk) => if abort_early { seq![(from as usize, sk)] } else { seq![(from as usize, sk)] + pws_on(s, mpws, from + 1, gnupg, abort_early) },
        Err(_) => pws_on(s, mpws, from + 1, gnupg, abort_early),
    } }
}
pub open spec fn sk_obtained(sks: Seq<SymKeyEncryptedSessionKey>, m: int, mpws: Seq<&Password>, gnupg: bool, abort_early: bool) -> Seq<(usize, PlainSessionKey)>
    decreases m
{
    if m <= 0 { Seq::empty() } else { sk_obtained(sks, m - 1, mpws, gnupg, abort_early) + pws_on(sks[m - 1], mpws, 0, gnupg, abort_early) }
}

// ------------------------------------------------------------------ consistency
/// all session keys of the sequence have the same value
pub open spec fn all_same(s: Seq<PlainSessionKey>) -> bool {
    forall|i: int, j: int| 0 <= i < s.len() && 0 <= j < s.len() ==> sk_val(#[trigger] s[i]) == sk_val(#[trigger] s[j])
}
/// all of the first n session keys have the value of k
pub open spec fn all_eq_to(s: Seq<PlainSessionKey>, k: PlainSessionKey, n: int) -> bool {
    forall|j: int| 0 <= j < n ==> sk_val(#[trigger] s[j]) == sk_val(k)
}
/// the key the search settles on: PKESK results first, then SKESK results, then explicitly given session keys
pub open spec fn first_of(p: Seq<PlainSessionKey>, s: Seq<PlainSessionKey>, x: Seq<PlainSessionKey>) -> Option<PlainSessionKey> {
    if p.len() > 0 { Some(p[0]) } else if s.len() > 0 { Some(s[0]) } else if x.len() > 0 { Some(x[0]) } else { None }
}
pub proof fn lemma_all_same_from_first(s: Seq<PlainSessionKey>)
    requires s.len() > 0
    ensures all_same(s) == all_eq_to(s, s[0], s.len() as int)
{
    if all_eq_to(s, s[0], s.len() as int) {
        assert forall|i: int, j: int| 0 <= i < s.len() && 0 <= j < s.len() implies sk_val(#[trigger] s[i]) == sk_val(#[trigger] s[j]) by {}
    }
    if all_same(s) {
        assert forall|j: int| 0 <= j < s.len() implies sk_val(#[trigger] s[j]) == sk_val(s[0]) by {}
    }
}

/// P ++ S ++ X: every session key the search obtained (from the PKESKs, from the SKESKs, given explicitly)
pub open spec fn all_obtained(p: Seq<(usize, PlainSessionKey)>, s: Seq<(usize, PlainSessionKey)>, x: Seq<PlainSessionKey>) -> Seq<PlainSessionKey> { snd(p) + snd(s) + x }
/// a disagreement inside one kind is a disagreement among all obtained keys
pub proof fn lemma_conflict_within_kind_is_conflict(p: Seq<(usize, PlainSessionKey)>, s: Seq<(usize, PlainSessionKey)>, x: Seq<PlainSessionKey>)
    ensures (!all_same(snd(p)) || !all_same(snd(s)) || !all_same(x)) ==> !all_same(all_obtained(p, s, x))
{
    let all = all_obtained(p, s, x);
    if !all_same(snd(p)) {
        let (i, j) = choose|i: int, j: int| 0 <= i < snd(p).len() && 0 <= j < snd(p).len() && sk_val(#[trigger] snd(p)[i]) != sk_val(#[trigger] snd(p)[j]);
        assert(all[i] == snd(p)[i] && all[j] == snd(p)[j]);
    }
    if !all_same(snd(s)) {
        let (i, j) = choose|i: int, j: int| 0 <= i < snd(s).len() && 0 <= j < snd(s).len() && sk_val(#[trigger] snd(s)[i]) != sk_val(#[trigger] snd(s)[j]);
        assert(all[snd(p).len() + i] == snd(s)[i] && all[snd(p).len() + j] == snd(s)[j]);
    }
    if !all_same(x) {
        let (i, j) = choose|i: int, j: int| 0 <= i < x.len() && 0 <= j < x.len() && sk_val(#[trigger] x[i]) != sk_val(#[trigger] x[j]);
        assert(all[snd(p).len() + snd(s).len() + i] == x[i] && all[snd(p).len() + snd(s).len() + j] == x[j]);
    }
}
/// first representatives of two kinds that differ are a disagreement among all obtained keys
pub proof fn lemma_heads_differ_is_conflict(p: Seq<(usize, PlainSessionKey)>, s: Seq<(usize, PlainSessionKey)>, x: Seq<PlainSessionKey>)
    ensures ((p.len() > 0 && s.len() > 0 && sk_val(p[0].1) != sk_val(s[0].1))
        || (p.len() > 0 && x.len() > 0 && sk_val(p[0].1) != sk_val(x[0]))
        || (s.len() > 0 && x.len() > 0 && sk_val(s[0].1) != sk_val(x[0]))) ==> !all_same(all_obtained(p, s, x))
{
    let all = all_obtained(p, s, x);
    let np = snd(p).len() as int; let ns = snd(s).len() as int;
    if p.len() > 0 { assert(all[0] == p[0].1); }
    if s.len() > 0 { assert(all[np] == s[0].1); }
    if x.len() > 0 { assert(all[np + ns] == x[0]); }
}
/// the key the search settles on is the first of all obtained keys
pub proof fn lemma_first_of_is_first(p: Seq<(usize, PlainSessionKey)>, s: Seq<(usize, PlainSessionKey)>, x: Seq<PlainSessionKey>)
    ensures
        all_obtained(p, s, x).len() == p.len() + s.len() + x.len(),
        first_of(snd(p), snd(s), x) == (if all_obtained(p, s, x).len() > 0 { Some(all_obtained(p, s, x)[0]) } else { None }),
{
    let all = all_obtained(p, s, x);
    if p.len() > 0 { assert(all[0] == snd(p)[0]); }
    else if s.len() > 0 { assert(all[0] == snd(s)[0]); }
    else if x.len() > 0 { assert(all[0] == x[0]); }
}
/// C18: every presented password that yields a session key on an SKESK of the message yields a key of value `sk`
pub open spec fn passwords_agree_with(sks: Seq<SymKeyEncryptedSessionKey>, mpws: Seq<&Password>, gnupg: bool, sk: PlainSessionKey) -> bool {
    forall|e: int, j: int| (0 <= e < sks.len() && 0 <= j < mpws.len() && (gnupg || skesk_ver(sks[e]) != SkeskVersion::V5) && (#[trigger] skesk_pw_decrypt(sks[e], *mpws[j])) is Ok)
        ==> sk_val(skesk_pw_decrypt(sks[e], *mpws[j])->Ok_0) == sk_val(sk)
}
/// [C18] without abort_early: if all obtained keys agree, every presented password that yields a key on an SKESK yields the key that is used
pub proof fn lemma_passwords_agree(p: Seq<(usize, PlainSessionKey)>, sks: Seq<SymKeyEncryptedSessionKey>, mpws: Seq<&Password>, gnupg: bool, x: Seq<PlainSessionKey>)
    requires all_same(all_obtained(p, sk_obtained(sks, sks.len() as int, mpws, gnupg, false), x)), all_obtained(p, sk_obtained(sks, sks.len() as int, mpws, gnupg, false), x).len() > 0
    ensures passwords_agree_with(sks, mpws, gnupg, all_obtained(p, sk_obtained(sks, sks.len() as int, mpws, gnupg, false), x)[0])
{
    let so = sk_obtained(sks, sks.len() as int, mpws, gnupg, false);
    let all = all_obtained(p, so, x);
    assert forall|e: int, j: int| (0 <= e < sks.len() && 0 <= j < mpws.len() && (gnupg || skesk_ver(sks[e]) != SkeskVersion::V5) && (#[trigger] skesk_pw_decrypt(sks[e], *mpws[j])) is Ok)
        implies sk_val(skesk_pw_decrypt(sks[e], *mpws[j])->Ok_0) == sk_val(all[0]) by {
        lemma_sk_obtained_complete(sks, sks.len() as int, mpws, gnupg, e, j);
        let k = choose|k: int| 0 <= k < so.len() && #[trigger] so[k] == (j as usize, skesk_pw_decrypt(sks[e], *mpws[j])->Ok_0);
        assert(all[snd(p).len() + k] == snd(so)[k]);
        assert(snd(so)[k] == so[k].1);
    }
}
/// keys that agree inside each kind, and whose first representatives agree pairwise across the kinds, all agree
pub proof fn lemma_all_same_from_kinds(p: Seq<(usize, PlainSessionKey)>, s: Seq<(usize, PlainSessionKey)>, x: Seq<PlainSessionKey>)
    ensures (all_same(snd(p)) && all_same(snd(s)) && all_same(x)
        && (p.len() > 0 && s.len() > 0 ==> sk_val(p[0].1) == sk_val(s[0].1))
        && (p.len() > 0 && x.len() > 0 ==> sk_val(p[0].1) == sk_val(x[0]))
        && (s.len() > 0 && x.len() > 0 ==> sk_val(s[0].1) == sk_val(x[0]))) ==> all_same(all_obtained(p, s, x))
{
    let all = all_obtained(p, s, x);
    let np = snd(p).len() as int; let ns = snd(s).len() as int;
    if all_same(snd(p)) && all_same(snd(s)) && all_same(x)
        && (p.len() > 0 && s.len() > 0 ==> sk_val(p[0].1) == sk_val(s[0].1))
        && (p.len() > 0 && x.len() > 0 ==> sk_val(p[0].1) == sk_val(x[0]))
        && (s.len() > 0 && x.len() > 0 ==> sk_val(s[0].1) == sk_val(x[0])) {
        // every element has the value of the first element of its kind
        assert forall|i: int| 0 <= i < all.len() implies
            (i < np ==> sk_val(#[trigger] all[i]) == sk_val(snd(p)[0]))
            && (np <= i < np + ns ==> sk_val(all[i]) == sk_val(snd(s)[0]))
            && (np + ns <= i ==> sk_val(all[i]) == sk_val(x[0])) by {
            if i < np { assert(all[i] == snd(p)[i]); }
            else if i < np + ns { assert(all[i] == snd(s)[i - np]); }
            else { assert(all[i] == x[i - np - ns]); }
        }
        if np > 0 { assert(snd(p)[0] == p[0].1); }
        if ns > 0 { assert(snd(s)[0] == s[0].1); }
        assert forall|i: int, j: int| 0 <= i < all.len() && 0 <= j < all.len() implies sk_val(#[trigger] all[i]) == sk_val(#[trigger] all[j]) by {}
    }
}
/// the comparison the code makes: every later key against the first one
pub proof fn lemma_all_same_tail(s: Seq<PlainSessionKey>)
    requires s.len() >= 1
    ensures all_eq_to(s.skip(1), s[0], s.len() - 1) == all_same(s)
{
    if all_eq_to(s.skip(1), s[0], s.len() - 1) {
        assert forall|i: int, j: int| 0 <= i < s.len() && 0 <= j < s.len() implies sk_val(#[trigger] s[i]) == sk_val(#[trigger] s[j]) by {
            if i > 0 { assert(s.skip(1)[i - 1] == s[i]); }
            if j > 0 { assert(s.skip(1)[j - 1] == s[j]); }
        }
    }
    if all_same(s) {
        assert forall|j: int| 0 <= j < s.len() - 1 implies sk_val(#[trigger] s.skip(1)[j]) == sk_val(s[0]) by {
            assert(s.skip(1)[j] == s[j + 1]);
        }
    }
}

// ------------------------------------------------------------------ what the discipline implies (property C18, proved)
/// [C18] every intended recipient finds its session key: if certificate i yields sk on PKESK m, then (i, sk) is among the obtained keys,
/// whatever the other PKESKs (decoys, other recipients) and the other presented certificates (unrelated keys) are
pub proof fn lemma_pk_obtained_complete(pks: Seq<PublicKeyEncryptedSessionKey>, certs: Seq<&SignedSecretKey>, pws: Seq<&Password>, fwd: bool, m: int, i: int)
    requires 0 <= m < pks.len(), 0 <= i < certs.len(), i <= usize::MAX, cert_try(pks[m], *certs[i], pws, fwd) is Some
    ensures exists|k: int| 0 <= k < pk_obtained(pks, pks.len() as int, certs, pws, fwd).len()
        && #[trigger] pk_obtained(pks, pks.len() as int, certs, pws, fwd)[k] == (i as usize, cert_try(pks[m], *certs[i], pws, fwd)->Some_0)
{
    lemma_certs_on_complete(pks[m], certs, certs.len() as int, pws, fwd, i);
    let k0 = choose|k: int| 0 <= k < certs_on(pks[m], certs, certs.len() as int, pws, fwd).len()
        && #[trigger] certs_on(pks[m], certs, certs.len() as int, pws, fwd)[k] == (i as usize, cert_try(pks[m], *certs[i], pws, fwd)->Some_0);
    lemma_pk_obtained_contains(pks, pks.len() as int, certs, pws, fwd, m, k0);
}
pub proof fn lemma_certs_on_complete(p: PublicKeyEncryptedSessionKey, certs: Seq<&SignedSecretKey>, n: int, pws: Seq<&Password>, fwd: bool, i: int)
    requires 0 <= i < n <= certs.len(), cert_try(p, *certs[i], pws, fwd) is Some
    ensures exists|k: int| 0 <= k < certs_on(p, certs, n, pws, fwd).len() && #[trigger] certs_on(p, certs, n, pws, fwd)[k] == (i as usize, cert_try(p, *certs[i], pws, fwd)->Some_0)
    decreases n
{
    if i == n - 1 {
        let k = certs_on(p, certs, n - 1, pws, fwd).len() as int;
        assert(certs_on(p, certs, n, pws, fwd)[k] == (i as usize, cert_try(p, *certs[i], pws, fwd)->Some_0));
    } else {
        lemma_certs_on_complete(p, certs, n - 1, pws, fwd, i);
        let k = choose|k: int| 0 <= k < certs_on(p, certs, n - 1, pws, fwd).len() && #[trigger] certs_on(p, certs, n - 1, pws, fwd)[k] == (i as usize, cert_try(p, *certs[i], pws, fwd)->Some_0);
        assert(certs_on(p, certs, n, pws, fwd)[k] == certs_on(p, certs, n - 1, pws, fwd)[k]);
    }
}
pub proof fn lemma_pk_obtained_contains(pks: Seq<PublicKeyEncryptedSessionKey>, n: int, certs: Seq<&SignedSecretKey>, pws: Seq<&Password>, fwd: bool, m: int, k0: int)
    requires 0 <= m < n <= pks.len(), 0 <= k0 < certs_on(pks[m], certs, certs.len() as int, pws, fwd).len()
    ensures exists|k: int| 0 <= k < pk_obtained(pks, n, certs, pws, fwd).len() && #[trigger] pk_obtained(pks, n, certs, pws, fwd)[k] == certs_on(pks[m], certs, certs.len() as int, pws, fwd)[k0]
    decreases n
{
    let prev = pk_obtained(pks, n - 1, certs, pws, fwd);
    if m == n - 1 {
        assert(pk_obtained(pks, n, certs, pws, fwd)[prev.len() + k0] == certs_on(pks[m], certs, certs.len() as int, pws, fwd)[k0]);
    } else {
        lemma_pk_obtained_contains(pks, n - 1, certs, pws, fwd, m, k0);
        let k = choose|k: int| 0 <= k < prev.len() && #[trigger] prev[k] == certs_on(pks[m], certs, certs.len() as int, pws, fwd)[k0];
        assert(pk_obtained(pks, n, certs, pws, fwd)[k] == prev[k]);
    }
}
/// [C18] nobody else: every session key obtained from the PKESKs is what a PRESENTED certificate yields on a PKESK OF THE MESSAGE
pub proof fn lemma_pk_obtained_sound(pks: Seq<PublicKeyEncryptedSessionKey>, n: int, certs: Seq<&SignedSecretKey>, pws: Seq<&Password>, fwd: bool, k: int)
    requires 0 <= n <= pks.len(), 0 <= k < pk_obtained(pks, n, certs, pws, fwd).len()
    ensures exists|m: int, i: int| 0 <= m < n && 0 <= i < certs.len()
        && pk_obtained(pks, n, certs, pws, fwd)[k] == (i as usize, (#[trigger] cert_try(pks[m], *certs[i], pws, fwd))->Some_0) && cert_try(pks[m], *certs[i], pws, fwd) is Some
    decreases n
{
    let prev = pk_obtained(pks, n - 1, certs, pws, fwd);
    if n > 0 {
        if k < prev.len() {
            lemma_pk_obtained_sound(pks, n - 1, certs, pws, fwd, k);
            let (m, i) = choose|m: int, i: int| 0 <= m < n - 1 && 0 <= i < certs.len()
                && prev[k] == (i as usize, (#[trigger] cert_try(pks[m], *certs[i], pws, fwd))->Some_0) && cert_try(pks[m], *certs[i], pws, fwd) is Some;
            assert(cert_try(pks[m], *certs[i], pws, fwd) is Some);
        } else {
            lemma_certs_on_sound(pks[n - 1], certs, certs.len() as int, pws, fwd, k - prev.len());
            let i = choose|i: int| 0 <= i < certs.len()
                && certs_on(pks[n - 1], certs, certs.len() as int, pws, fwd)[k - prev.len()] == (i as usize, (#[trigger] cert_try(pks[n - 1], *certs[i], pws, fwd))->Some_0) && cert_try(pks[n - 1], *certs[i], pws, fwd) is Some;
            assert(cert_try(pks[n - 1], *certs[i], pws, fwd) is Some);
        }
    }
}
pub proof fn lemma_certs_on_sound(p: PublicKeyEncryptedSessionKey, certs: Seq<&SignedSecretKey>, n: int, pws: Seq<&Password>, fwd: bool, k: int)
    requires 0 <= n <= certs.len(), 0 <= k < certs_on(p, certs, n, pws, fwd).len()
    ensures exists|i: int| 0 <= i < n && certs_on(p, certs, n, pws, fwd)[k] == (i as usize, (#[trigger] cert_try(p, *certs[i], pws, fwd))->Some_0) && cert_try(p, *certs[i], pws, fwd) is Some
    decreases n
{
    if n > 0 {
        let prev = certs_on(p, certs, n - 1, pws, fwd);
        if k < prev.len() {
            lemma_certs_on_sound(p, certs, n - 1, pws, fwd, k);
            let i = choose|i: int| 0 <= i < n - 1 && prev[k] == (i as usize, (#[trigger] cert_try(p, *certs[i], pws, fwd))->Some_0) && cert_try(p, *certs[i], pws, fwd) is Some;
            assert(cert_try(p, *certs[i], pws, fwd) is Some);
        } else {
            assert(cert_try(p, *certs[n - 1], pws, fwd) is Some);
        }
    }
}
/// [C18] a key is tried on a PKESK only if the PKESK names it: what a certificate yields is the decryption by its primary key, named by the PKESK,
/// or - the primary key yielding nothing - by its first subkey that is named by the PKESK and yields a session key
pub proof fn lemma_cert_try_sound(p: PublicKeyEncryptedSessionKey, c: SignedSecretKey, pws: Seq<&Password>, fwd: bool)
    ensures cert_try(p, c, pws, fwd) matches Some(sk) ==> pkesk_typ(p) is Some && (
        (pkesk_names(p, c.primary_key.spec_public().spec_key_id(), c.primary_key.spec_public().spec_fingerprint())
            && try_spec(c.primary_key.spec_did(), pws, pkesk_values(p), pkesk_typ(p)->Some_0, c.primary_key.spec_params() is Encrypted) == Some(sk))
        || (primary_try(p, c, pws) is None && exists|j: int| 0 <= j < c.secret_subkeys@.len() && sub_tried(p, #[trigger] c.secret_subkeys@[j], fwd)
            && try_spec(c.secret_subkeys@[j].key.spec_did(), pws, pkesk_values(p), pkesk_typ(p)->Some_0, c.secret_subkeys@[j].key.spec_params() is Encrypted) == Some(sk)
            && forall|i: int| 0 <= i < j ==> sub_try(p, #[trigger] c.secret_subkeys@[i], pws, fwd) is None))
{
    if primary_try(p, c, pws) is None && cert_try(p, c, pws, fwd) is Some {
        lemma_subs_first_sound(p, c.secret_subkeys@, 0, pws, fwd);
    }
}
pub proof fn lemma_subs_first_sound(p: PublicKeyEncryptedSessionKey, subs: Seq<SignedSecretSubKey>, from: int, pws: Seq<&Password>, fwd: bool)
    requires 0 <= from <= subs.len()
    ensures subs_first(p, subs, from, pws, fwd) matches Some(sk) ==> exists|j: int| from <= j < subs.len() && sub_tried(p, #[trigger] subs[j], fwd)
        && sub_try(p, subs[j], pws, fwd) == Some(sk) && forall|i: int| from <= i < j ==> sub_try(p, #[trigger] subs[i], pws, fwd) is None
    decreases subs.len() - from
{
    if from < subs.len() {
        if sub_try(p, subs[from], pws, fwd) is Some {
            assert(sub_tried(p, subs[from], fwd));
        } else {
            lemma_subs_first_sound(p, subs, from + 1, pws, fwd);
            if subs_first(p, subs, from, pws, fwd) is Some {
                let sk = subs_first(p, subs, from, pws, fwd)->Some_0;
                let j = choose|j: int| from + 1 <= j < subs.len() && sub_tried(p, #[trigger] subs[j], fwd)
                    && sub_try(p, subs[j], pws, fwd) == Some(sk) && forall|i: int| from + 1 <= i < j ==> sub_try(p, #[trigger] subs[i], pws, fwd) is None;
                assert forall|i: int| from <= i < j implies sub_try(p, #[trigger] subs[i], pws, fwd) is None by {}
            }
        }
    }
}
/// [C18] abort_early: the first presented password that yields a session key on the SKESK wins; passwords that yield Err before it (wrong password on an
/// integrity-protected v6 SKESK; implausible result on a v4 SKESK) are skipped, not fatal
pub proof fn lemma_pws_on_first_wins(s: SymKeyEncryptedSessionKey, mpws: Seq<&Password>, from: int, gnupg: bool, j: int, sk: PlainSessionKey)
    requires
        0 <= from <= j < mpws.len(), j <= usize::MAX,
        gnupg || skesk_ver(s) != SkeskVersion::V5,
        forall|i: int| from <= i < j ==> skesk_pw_decrypt(s, *#[trigger] mpws[i]) is Err,
        skesk_pw_decrypt(s, *mpws[j]) == Ok::<PlainSessionKey, errors::Error>(sk),
    ensures pws_on(s, mpws, from, gnupg, true) == seq![(j as usize, sk)]
    decreases j - from
{
    if from < j { lemma_pws_on_first_wins(s, mpws, from + 1, gnupg, j, sk); }
}
/// [C18] without abort_early EVERY presented password that yields a session key on the SKESK contributes that key (so that it is compared)
pub proof fn lemma_pws_on_complete(s: SymKeyEncryptedSessionKey, mpws: Seq<&Password>, from: int, gnupg: bool, j: int)
    requires
        0 <= from <= j < mpws.len(),
        gnupg || skesk_ver(s) != SkeskVersion::V5,
        skesk_pw_decrypt(s, *mpws[j]) is Ok,
    ensures exists|k: int| 0 <= k < pws_on(s, mpws, from, gnupg, false).len() && #[trigger] pws_on(s, mpws, from, gnupg, false)[k] == (j as usize, skesk_pw_decrypt(s, *mpws[j])->Ok_0)
    decreases j - from
{
    let cur = pws_on(s, mpws, from, gnupg, false);
    if from == j {
        assert(cur[0] == (j as usize, skesk_pw_decrypt(s, *mpws[j])->Ok_0));
    } else {
        lemma_pws_on_complete(s, mpws, from + 1, gnupg, j);
        let rest = pws_on(s, mpws, from + 1, gnupg, false);
        let k = choose|k: int| 0 <= k < rest.len() && #[trigger] rest[k] == (j as usize, skesk_pw_decrypt(s, *mpws[j])->Ok_0);
        if skesk_pw_decrypt(s, *mpws[from]) is Ok { assert(cur[k + 1] == rest[k]); } else { assert(cur[k] == rest[k]); }
    }
}
/// [C18] a session key obtained from an SKESK is what THAT packet yields for a PRESENTED password
pub proof fn lemma_pws_on_sound(s: SymKeyEncryptedSessionKey, mpws: Seq<&Password>, from: int, gnupg: bool, abort_early: bool, k: int)
    requires 0 <= from <= mpws.len() <= usize::MAX, 0 <= k < pws_on(s, mpws, from, gnupg, abort_early).len()
    ensures ({
        let x = pws_on(s, mpws, from, gnupg, abort_early)[k];
        from <= x.0 < mpws.len() && skesk_pw_decrypt(s, *mpws[x.0 as int]) == Ok::<PlainSessionKey, errors::Error>(x.1) && (gnupg || skesk_ver(s) != SkeskVersion::V5)
    })
    decreases mpws.len() - from
{
    if from < mpws.len() && (gnupg || skesk_ver(s) != SkeskVersion::V5) {
        if skesk_pw_decrypt(s, *mpws[from]) is Ok {
            if !abort_early && k > 0 {
                lemma_pws_on_sound(s, mpws, from + 1, gnupg, abort_early, k - 1);
                assert(pws_on(s, mpws, from, gnupg, abort_early)[k] == pws_on(s, mpws, from + 1, gnupg, abort_early)[k - 1]);
            }
        } else {
            lemma_pws_on_sound(s, mpws, from + 1, gnupg, abort_early, k);
        }
    }
}
/// [C18] without abort_early, every presented password that yields a session key on an SKESK of the message is among the obtained keys
pub proof fn lemma_sk_obtained_complete(sks: Seq<SymKeyEncryptedSessionKey>, m: int, mpws: Seq<&Password>, gnupg: bool, e: int, j: int)
    requires
        0 <= e < m <= sks.len(), 0 <= j < mpws.len(),
        gnupg || skesk_ver(sks[e]) != SkeskVersion::V5,
        skesk_pw_decrypt(sks[e], *mpws[j]) is Ok,
    ensures exists|k: int| 0 <= k < sk_obtained(sks, m, mpws, gnupg, false).len() && #[trigger] sk_obtained(sks, m, mpws, gnupg, false)[k] == (j as usize, skesk_pw_decrypt(sks[e], *mpws[j])->Ok_0)
    decreases m
{
    let prev = sk_obtained(sks, m - 1, mpws, gnupg, false);
    let cur = sk_obtained(sks, m, mpws, gnupg, false);
    if e == m - 1 {
        lemma_pws_on_complete(sks[e], mpws, 0, gnupg, j);
        let on = pws_on(sks[e], mpws, 0, gnupg, false);
        let k = choose|k: int| 0 <= k < on.len() && #[trigger] on[k] == (j as usize, skesk_pw_decrypt(sks[e], *mpws[j])->Ok_0);
        assert(cur[prev.len() + k] == on[k]);
    } else {
        lemma_sk_obtained_complete(sks, m - 1, mpws, gnupg, e, j);
        let k = choose|k: int| 0 <= k < prev.len() && #[trigger] prev[k] == (j as usize, skesk_pw_decrypt(sks[e], *mpws[j])->Ok_0);
        assert(cur[k] == prev[k]);
    }
}
