// ---------------------------------------------------------------------------------
// lemmas/kdf_layouts.rs - the byte layouts RFC 9580 prescribes AROUND the key-derivation and
// key-wrap primitives, written from the RFC text (not from the code):
//   11.5        ECDH: KDF parameter block, KDF pre-image, KEK, PKCS5-style padding of the wrapped block
//   5.1.6/5.1.7 X25519 / X448: HKDF input, info string, KEK size
//   5.3.2       SKESK v6: HKDF info, key, associated data        5.3.1 SKESK v4: what is CFB-encrypted
//   3.7.2.1 / 5.5.3  secret-key AEAD protection: HKDF info, key, associated data
// Include after shims/kdf_prims.rs (kdf_hash, aes_kw_*, hkdf_okm are the uninterpreted primitives).
// Everything is over octet strings and registry octets, so the file does not depend on rpgp's enums.
// ---------------------------------------------------------------------------------

pub open spec fn octets(n: nat, v: u8) -> Seq<u8> { Seq::new(n, |i: int| v) }

// ======================================================================================
// RFC 9580 11.5  ECDH
// ======================================================================================
/// "20 octets representing the UTF-8 encoding of the string `Anonymous Sender    `, which is the
///  octet sequence 41 6E 6F 6E 79 6D 6F 75 73 20 53 65 6E 64 65 72 20 20 20 20"
pub open spec fn ecdh_anonymous_sender() -> Seq<u8> {
    seq![0x41u8, 0x6Eu8, 0x6Fu8, 0x6Eu8, 0x79u8, 0x6Du8, 0x6Fu8, 0x75u8, 0x73u8, 0x20u8,
         0x53u8, 0x65u8, 0x6Eu8, 0x64u8, 0x65u8, 0x72u8, 0x20u8, 0x20u8, 0x20u8, 0x20u8]
}
/// public-key algorithm ID of ECDH (9.1)
pub open spec fn pk_algo_ecdh() -> u8 { 18 }
/// "A variable-length field containing KDF parameters: a 1-octet size of the following fields (3),
///  a 1-octet value 1 (reserved), a 1-octet hash function ID used with a KDF, a 1-octet algorithm ID
///  for the symmetric algorithm used to wrap the symmetric key"
pub open spec fn ecdh_kdf_params_field(hash_id: u8, kek_alg_id: u8) -> Seq<u8> { seq![3u8, 1u8, hash_id, kek_alg_id] }
/// Param = curve_OID_len || curve_OID || public_key_alg_ID || 03 || 01 || KDF_hash_ID || KEK_alg_ID
///         || "Anonymous Sender    " || recipient_fingerprint
pub open spec fn ecdh_param(oid: Seq<u8>, hash_id: u8, kek_alg_id: u8, fingerprint: Seq<u8>) -> Seq<u8> {
    seq![oid.len() as u8] + oid + seq![pk_algo_ecdh()] + ecdh_kdf_params_field(hash_id, kek_alg_id)
        + ecdh_anonymous_sender() + fingerprint
}
/// the recipient fingerprint field is 20 octets for a version 4 key and 32 octets for a version 6 key
pub open spec fn ecdh_fingerprint_len(key_version: u8) -> nat { if key_version == 6 { 32 } else { 20 } }
/// a curve OID field has a one-octet length; the values 0 and 0xFF are reserved (RFC 9580 9.2)
pub open spec fn ecdh_oid_ok(oid: Seq<u8>) -> bool { 1 <= oid.len() <= 254 }
/// MB = Hash ( 00 || 00 || 00 || 01 || ZB || Param )
pub open spec fn ecdh_kdf_input(zb: Seq<u8>, param: Seq<u8>) -> Seq<u8> { seq![0u8, 0u8, 0u8, 1u8] + zb + param }
/// "return oBits leftmost bits of MB": the KEK is the first kek_len octets of the digest (all of it if it is shorter:
///  the RFC requires a hash at least as long as the KEK, a shorter one yields no usable KEK)
pub open spec fn ecdh_kek(hash_id: u8, zb: Seq<u8>, param: Seq<u8>, kek_len: nat) -> Seq<u8> {
    let mb = kdf_hash(hash_id, ecdh_kdf_input(zb, param));
    if kek_len <= mb.len() { mb.subrange(0, kek_len as int) } else { mb }
}

/// RFC 8018 6.1.1 (PKCS5) padding to 8-octet granularity: 8 - (|m| mod 8) octets, each with that value
pub open spec fn pkcs5_pad8(m: Seq<u8>) -> Seq<u8> {
    m + octets((8 - m.len() % 8) as nat, (8 - m.len() % 8) as u8)
}
/// 11.5: "the above values are padded to an 8-octet granularity using the method described in RFC 8018 ...
/// the sender MAY use 21, 13, and 5 octets of padding for AES-128, AES-192, and AES-256": a padded block is
/// m followed by p >= 1 octets of value p, of total length a multiple of 8
pub open spec fn is_ecdh_padded(padded: Seq<u8>, m: Seq<u8>) -> bool {
    padded.len() % 8 == 0 && exists|p: nat| 1 <= p <= 255 && #[trigger] octets(p, p as u8) == padded.skip(m.len() as int) && padded == m + octets(p, p as u8)
}
/// the receiver's view: strip p = last octet many octets, all of which must equal p, 1 <= p <= |padded|
pub open spec fn ecdh_unpad(padded: Seq<u8>) -> Option<Seq<u8>> {
    if padded.len() == 0 || padded.len() % 8 != 0 { None }
    else {
        let p = padded.last() as int;
        if p == 0 || p > padded.len() { None }
        else if forall|i: int| padded.len() - p <= i < padded.len() ==> padded[i] == padded.last() { Some(padded.subrange(0, padded.len() - p)) }
        else { None }
    }
}
/// what the sender wraps: AES-KW( KEK, pad( m ) ), m = [v3 PKESK: algorithm octet ||] session key || checksum
pub open spec fn ecdh_wrapped(hash_id: u8, kek_alg_len: nat, zb: Seq<u8>, param: Seq<u8>, m: Seq<u8>) -> Seq<u8> {
    aes_kw_wrap(ecdh_kek(hash_id, zb, param, kek_alg_len), pkcs5_pad8(m))
}

pub proof fn lemma_pkcs5_pad8_shape(m: Seq<u8>)
    ensures
        pkcs5_pad8(m).len() % 8 == 0,
        m.len() < pkcs5_pad8(m).len() <= m.len() + 8,
        is_ecdh_padded(pkcs5_pad8(m), m),
{
    let p = (8 - m.len() % 8) as nat;
    assert(1 <= p <= 8);
    assert((m.len() + p) % 8 == 0) by { assert(m.len() == 8 * (m.len() / 8) + m.len() % 8) by { vstd::arithmetic::div_mod::lemma_fundamental_div_mod(m.len() as int, 8); }
        assert((8 * (m.len() / 8 + 1)) % 8 == 0) by { vstd::arithmetic::div_mod::lemma_mod_multiples_basic((m.len() / 8 + 1) as int, 8); } }
    assert(pkcs5_pad8(m).skip(m.len() as int) =~= octets(p, p as u8));
}
/// unpad(pad(x)) == x for every x (C12: what the library wraps, the library and any RFC receiver unwraps)
pub proof fn lemma_ecdh_unpad_pad(m: Seq<u8>)
    ensures ecdh_unpad(pkcs5_pad8(m)) == Some(m)
{
    lemma_pkcs5_pad8_shape(m);
    let p = (8 - m.len() % 8) as nat;
    let padded = pkcs5_pad8(m);
    assert(padded.last() == p as u8);
    assert(padded.subrange(0, padded.len() - p) =~= m);
}
/// the receiver accepts exactly the padded blocks of the RFC
pub proof fn lemma_ecdh_unpad_sound(padded: Seq<u8>)
    ensures ecdh_unpad(padded) matches Some(m) ==> is_ecdh_padded(padded, m)
{
    if let Some(m) = ecdh_unpad(padded) {
        let p = padded.last() as nat;
        assert(padded.skip(m.len() as int) =~= octets(p, p as u8));
        assert(padded =~= m + octets(p, p as u8));
    }
}
pub proof fn lemma_ecdh_unpad_complete(padded: Seq<u8>, m: Seq<u8>)
    requires is_ecdh_padded(padded, m)
    ensures ecdh_unpad(padded) == Some(m)
{
    let p = choose|p: nat| 1 <= p <= 255 && #[trigger] octets(p, p as u8) == padded.skip(m.len() as int) && padded == m + octets(p, p as u8);
    assert(padded.len() == m.len() + p);
    assert(padded.last() == octets(p, p as u8)[p - 1]);
    assert(padded.subrange(0, padded.len() - p) =~= m);
    assert forall|i: int| padded.len() - p <= i < padded.len() implies padded[i] == padded.last() by {
        assert(padded[i] == octets(p, p as u8)[i - m.len()]);
    }
}

// ======================================================================================
// RFC 9580 5.1.6 / 5.1.7  X25519 / X448
// ======================================================================================
/// "OpenPGP X25519"
pub open spec fn x25519_info() -> Seq<u8> {
    seq![0x4Fu8, 0x70u8, 0x65u8, 0x6Eu8, 0x50u8, 0x47u8, 0x50u8, 0x20u8, 0x58u8, 0x32u8, 0x35u8, 0x35u8, 0x31u8, 0x39u8]
}
/// "OpenPGP X448"
pub open spec fn x448_info() -> Seq<u8> {
    seq![0x4Fu8, 0x70u8, 0x65u8, 0x6Eu8, 0x50u8, 0x47u8, 0x50u8, 0x20u8, 0x58u8, 0x34u8, 0x34u8, 0x38u8]
}
/// 5.1.6: "HKDF with SHA256, an info parameter of `OpenPGP X25519` and no salt"; input = 32 octets ephemeral public
/// key || 32 octets recipient public key || 32 octets shared secret; the KEK is an AES-128 key (16 octets)
pub open spec fn x25519_kek(ephemeral: Seq<u8>, recipient: Seq<u8>, shared: Seq<u8>) -> Seq<u8> {
    hkdf_okm(hkdf_sha256_id(), None, ephemeral + recipient + shared, x25519_info(), 16)
}
/// 5.1.7: HKDF with SHA512, info `OpenPGP X448`, no salt; 56 + 56 + 56 octets; the KEK is an AES-256 key (32 octets)
pub open spec fn x448_kek(ephemeral: Seq<u8>, recipient: Seq<u8>, shared: Seq<u8>) -> Seq<u8> {
    hkdf_okm(hkdf_sha512_id(), None, ephemeral + recipient + shared, x448_info(), 32)
}
/// the session key (v6 PKESK) resp. the session key without the algorithm octet (v3 PKESK: the octet is sent in
/// the clear outside) is wrapped with RFC 3394 under that KEK, no padding
pub open spec fn x25519_esk(ephemeral: Seq<u8>, recipient: Seq<u8>, shared: Seq<u8>, session_key: Seq<u8>) -> Seq<u8> {
    aes_kw_wrap(x25519_kek(ephemeral, recipient, shared), session_key)
}
pub open spec fn x448_esk(ephemeral: Seq<u8>, recipient: Seq<u8>, shared: Seq<u8>, session_key: Seq<u8>) -> Seq<u8> {
    aes_kw_wrap(x448_kek(ephemeral, recipient, shared), session_key)
}

// ======================================================================================
// RFC 9580 5.3  SKESK
// ======================================================================================
/// packet type ID "in OpenPGP format encoding (bits 7 and 6 set, bits 5-0 carry the packet type ID)"
pub open spec fn packet_type_octet(type_id: u8) -> u8 { (0xC0u8 | type_id) }
pub open spec fn type_skesk() -> u8 { 3 }
pub open spec fn type_secret_key() -> u8 { 5 }
pub open spec fn type_secret_subkey() -> u8 { 7 }
/// 5.3.2: info = packet type octet (0xC3), packet version (6), cipher algorithm ID, AEAD algorithm ID
pub open spec fn skesk6_info(cipher_id: u8, aead_id: u8) -> Seq<u8> { seq![0xC3u8, 6u8, cipher_id, aead_id] }
/// 5.3.2: key = HKDF-SHA256(IKM = S2K-derived key, no salt, info), as long as the cipher's key
pub open spec fn skesk6_key(s2k_key: Seq<u8>, cipher_id: u8, aead_id: u8, key_len: nat) -> Seq<u8> {
    hkdf_okm(hkdf_sha256_id(), None, s2k_key, skesk6_info(cipher_id, aead_id), key_len)
}
/// 5.3.1: a v4 SKESK with an encrypted session key carries CFB(key = S2K key, IV = zeros)( cipher ID || session key )
pub open spec fn skesk4_plain(cipher_id: u8, session_key: Seq<u8>) -> Seq<u8> { seq![cipher_id] + session_key }

// ======================================================================================
// RFC 9580 3.7.2.1 / 5.5.3  secret-key AEAD protection (S2K usage 253)
// ======================================================================================
/// info = Packet Type ID in OpenPGP format encoding (0xC5 secret key, 0xC7 secret subkey), packet version,
/// cipher-algo, AEAD-mode
pub open spec fn secret_aead_info(type_id: u8, key_version: u8, cipher_id: u8, aead_id: u8) -> Seq<u8> {
    seq![packet_type_octet(type_id), key_version, cipher_id, aead_id]
}
/// KEK = HKDF-SHA256(IKM = S2K-derived key, no salt, info), 32 octets are taken and the cipher uses its key size
pub open spec fn secret_aead_key(s2k_key: Seq<u8>, info: Seq<u8>, n: nat) -> Seq<u8> {
    hkdf_okm(hkdf_sha256_id(), None, s2k_key, info, n)
}
/// associated data = the Packet Type ID octet, followed by the public key packet fields, starting with the packet
/// version number (i.e. the serialised body of the corresponding public key packet)
pub open spec fn secret_aead_ad(type_id: u8, public_key_body: Seq<u8>) -> Seq<u8> {
    seq![packet_type_octet(type_id)] + public_key_body
}
/// C08: the AD binds every octet of the public key body
pub proof fn lemma_secret_aead_ad_injective(t1: u8, b1: Seq<u8>, t2: u8, b2: Seq<u8>)
    requires secret_aead_ad(t1, b1) == secret_aead_ad(t2, b2)
    ensures b1 == b2, packet_type_octet(t1) == packet_type_octet(t2)
{
    let a1 = secret_aead_ad(t1, b1);
    let a2 = secret_aead_ad(t2, b2);
    assert(a1[0] == a2[0]);
    assert(b1 =~= a1.skip(1));
    assert(b2 =~= a2.skip(1));
}
