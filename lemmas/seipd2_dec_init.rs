// ---------------------------------------------------------------------------------
// lemmas/seipd2_dec_init.rs - the initial state of aead::StreamDecryptor (RFC 9580 mode), as one
// predicate shared by the unit that checks the constructor (U20b) and the unit that checks the
// reader (U22).  Include AFTER lemmas/seipd2.rs, in a unit that extracts `struct StreamDecryptor`
// and `enum ModeData` from src/crypto/aead/decryptor.rs.
// ---------------------------------------------------------------------------------
impl<R: io::BufRead> StreamDecryptor<R> {
    /// `self` is what `new_rfc9580(sym_alg, aead, chunk_size, salt, key, source)` must build: the RFC 9580 5.13.2
    /// parameters derived from the header fields, salt and session key; counters at zero; nonce of chunk 0;
    /// an empty buffer for which exactly 2 * (chunk + 16) octets were requested (C19).
    pub closed spec fn is_initial(&self, sym_alg: SymmetricKeyAlgorithm, aead: AeadAlgorithm, chunk_size: ChunkSize, salt: Seq<u8>, key: Seq<u8>, source: R) -> bool {
        let p = Seipd2::derive(sym_alg, aead, chunk_octet(chunk_size), salt, key);
        &&& self.sym_alg == sym_alg && self.aead == aead
        &&& self.chunk_size_expanded as nat == p.chunk
        &&& self.written == 0 && self.chunk_index == 0
        &&& (match self.mode_data { ModeData::Rfc9580 { nonce, info } => nonce@ == p.nonce(0) && info@ == p.info, _ => false })
        &&& self.message_key.0@ == p.key
        &&& self.source == source && !self.is_source_done
        &&& self.buffer@ == Seq::<u8>::empty() && self.buffer.requested() == 2 * (p.chunk + 16)
        &&& self.in_buffer_end == 0 && self.out_buffer_start == 0
    }
}
