// ---------------------------------------------------------------------------------
// lemmas/packet_classify.rs - specification of how Packet::from_reader (src/packet/single.rs) classifies the
// outcome of a body parser, written from the property text (C17):
//   leftover body octets => PacketTooLarge { size }, a body that ends early => PacketIncomplete,
//   every other parser error => InvalidPacketContent (wrapping it), accepted + fully consumed => Ok.
// Pure spec/proof text.  Include after shims/io_pkterr.rs, shims/packet_parsers.rs, lemmas/packet_body_view.rs
// and the extracted `enum Tag`.
// ---------------------------------------------------------------------------------
/// "the input was too short"
pub open spec fn parsing_incomplete(e: parsing::Error) -> bool { e is TooShort || e is UnexpectedEof }

/// e is an error the dispatch of Packet::from_reader can produce for header h on body octets s
pub open spec fn parse_failed(h: PacketHeader, s: Seq<u8>, e: errors::Error) -> bool {
    match h.ptag() {
        // reserved / unassigned critical packet types: a hard error
        Tag::UnassignedCritical(_) => e is InvalidPacketContent && *e->InvalidPacketContent_source is Message,
        Tag::Invalid(_) => e is InvalidPacketContent && *e->InvalidPacketContent_source is Message,
        // unassigned non-critical / private packet types: "unsupported" (ignorable)
        Tag::UnassignedNonCritical(_) => e is Unsupported,
        Tag::Experimental(_) => e is Unsupported,
        // the 19 known packet types: whatever their body parser returned
        _ => pkt_err(h, s, e),
    }
}
/// `res` is what the dispatch produced for header h on body octets s, having consumed k of them (k is meaningful for Ok)
pub open spec fn dispatch_post(h: PacketHeader, s: Seq<u8>, res: errors::Result<Packet>, k: nat) -> bool {
    match res { Ok(p) => pkt_ok(h, s, p, k), Err(e) => parse_failed(h, s, e) }
}
/// the error reported for a body parser error e: a body that ends early => PacketIncomplete (carrying the parsing
/// error), every other error => InvalidPacketContent wrapping e
pub open spec fn classify_err(e: errors::Error) -> errors::Error {
    match e {
        errors::Error::PacketParsing { source } =>
            if parsing_incomplete(*source) { errors::Error::PacketIncomplete { source } } else { errors::Error::InvalidPacketContent { source: Box::new(e) } },
        errors::Error::IO { source, backtrace } =>
            if source.k == io::ErrorKind::UnexpectedEof { errors::Error::PacketIncomplete { source: Box::new(parsing::Error::UnexpectedEof { source, backtrace }) } }
            else { errors::Error::InvalidPacketContent { source: Box::new(e) } },
        _ => errors::Error::InvalidPacketContent { source: Box::new(e) },
    }
}
/// result of Packet::from_reader when the body parser returned `res` and left `left` octets of the body unread
pub open spec fn classify(res: errors::Result<Packet>, left: nat) -> errors::Result<Packet> {
    match res {
        Ok(p) => if left > 0 { Err(errors::Error::PacketTooLarge { size: left as u64 }) } else { Ok(p) },
        Err(e) => Err(classify_err(e)),
    }
}
/// classify never answers Error::IO nor Error::PacketParsing: those classes are reserved for a failing drain / do not leave from_reader
pub proof fn lemma_classify_classes(res: errors::Result<Packet>, left: nat)
    ensures match classify(res, left) {
        Ok(_) => res is Ok && left == 0,
        Err(e) => (e is PacketTooLarge || e is PacketIncomplete || e is InvalidPacketContent)
            && (e is PacketTooLarge <==> res is Ok) }
{}

pub proof fn lemma_framing_skip_add(f: Option<(Seq<u8>, Seq<u8>)>, a: nat, b: nat)
    requires f is Some ==> a + b <= f->Some_0.0.len()
    ensures framing_skip(framing_skip(f, a), b) == framing_skip(f, a + b), framing_skip(f, 0) == f
{
    match f {
        Some((s, t)) => {
            assert(s.skip(a as int).skip(b as int) =~= s.skip((a + b) as int));
            assert(s.skip(0) =~= s);
        }
        None => {}
    }
}
