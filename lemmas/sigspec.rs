// ---------------------------------------------------------------------------------
// lemmas/sigspec.rs - specification vocabulary of the signature units (U30, U31, U33, U32, U34):
// what RFC 9580 / properties C02, C11, C15 say about a Signature, phrased over the REAL data types
// of /repo (which the including unit extracts verbatim: SignatureConfig, SignatureVersionSpecific,
// Subpacket, SubpacketData, Fingerprint, Signature, InnerSignature).  Pure spec + proof.
// Needs shims/io.rs, shims/sigtypes.rs and lemmas/sigdigest.rs in scope.
// ---------------------------------------------------------------------------------
/// version of a signature, by its version-specific part
pub open spec fn ver_of(vs: SignatureVersionSpecific) -> SignatureVersion {
    match vs {
        SignatureVersionSpecific::V2 { .. } => SignatureVersion::V2,
        SignatureVersionSpecific::V3 { .. } => SignatureVersion::V3,
        SignatureVersionSpecific::V4 => SignatureVersion::V4,
        SignatureVersionSpecific::V6 { .. } => SignatureVersion::V6,
    }
}
/// creation time field of a v2/v3 signature
pub open spec fn created_of(vs: SignatureVersionSpecific) -> u32 {
    match vs {
        SignatureVersionSpecific::V2 { created, .. } => created.0,
        SignatureVersionSpecific::V3 { created, .. } => created.0,
        _ => 0u32,
    }
}
/// key version a fingerprint claims (RFC 9580 5.2.3.35: the version octet of the subpacket)
pub open spec fn fp_key_version(fp: Fingerprint) -> Option<KeyVersion> {
    match fp {
        Fingerprint::V2(_) => Some(KeyVersion::V2),
        Fingerprint::V3(_) => Some(KeyVersion::V3),
        Fingerprint::V4(_) => Some(KeyVersion::V4),
        Fingerprint::V5(_) => Some(KeyVersion::V5),
        Fingerprint::V6(_) => Some(KeyVersion::V6),
        Fingerprint::Unknown(_) => None,
    }
}
/// RFC 9580 5.2.3.7: a subpacket marked critical whose type the implementation does not know.
/// rPGP stores two kinds of subpackets as raw bytes without understanding them: ids outside the
/// registry (`Other`) ...
pub open spec fn critical_unknown(p: Subpacket) -> bool {
    p.is_critical && (p.data is Other)
}
/// ... and the private/experimental range 100..110 (`Experimental`), equally unknown to rPGP.
pub open spec fn critical_experimental(p: Subpacket) -> bool {
    p.is_critical && (p.data is Experimental)
}
/// RFC 9580 5.2.3.7 also for the private/experimental range: "If a subpacket is encountered that is marked
/// critical but is unknown to the evaluating implementation, the evaluator SHOULD consider the signature to
/// be in error."  rPGP knows no subpacket in 100..110, it keeps them as raw bytes.
/// (Former finding, fixed in /repo 1c4de0b: hash_signature_data used to reject `Other` only, so a v4/v6 signature
/// whose hashed area holds e.g. the subpacket 02 E5 00 (length 2, type 0x80|101, one body octet) hashed and verified;
/// it now rejects `Other` and `Experimental` alike and unit U30 proves this clause.)
pub open spec fn critical_experimental_rejected(c: SignatureConfig, ok: bool) -> bool {
    ok && (ver_of(c.version_specific) is V4 || ver_of(c.version_specific) is V6) ==>
        forall|i: int| 0 <= i < c.hashed_subpackets@.len() ==> !critical_experimental(#[trigger] c.hashed_subpackets@[i])
}
/// RFC 9580 5.2.3.35: an Issuer Fingerprint subpacket whose key version differs from the signature version
pub open spec fn issuer_fp_misaligned(p: Subpacket, ver: SignatureVersion) -> bool {
    match p.data {
        SubpacketData::IssuerFingerprint(fp) => match fp_key_version(fp) {
            Some(kv) => kv.id() != ver.id() || kv is Other,
            None => true,
        },
        _ => false,
    }
}
/// why hash_signature_data may refuse a hashed subpacket: the two RFC rules (critical and unknown to rPGP, i.e. an
/// unassigned type or, since /repo 1c4de0b, one of the private/experimental range; issuer fingerprint of another
/// version), or it cannot be serialised
pub open spec fn hs_rejects(p: Subpacket, ver: SignatureVersion) -> bool {
    critical_unknown(p) || critical_experimental(p) || issuer_fp_misaligned(p, ver) || !subpacket_ser_ok(p)
}
/// the hashed fields of `c` for a v4/v6 signature
pub open spec fn cfg_fields(c: SignatureConfig) -> Seq<u8> {
    sig_fields(ver_of(c.version_specific).id(), c.typ.id(), c.pub_alg.id(), c.hash_alg.id(), ser_all(c.hashed_subpackets@))
}

pub proof fn lemma_ser_all_push(s: Seq<Subpacket>, k: int)
    requires 0 <= k < s.len()
    ensures ser_all(s.take(k + 1)) == ser_all(s.take(k)) + subpacket_ser(s[k])
{
    assert(s.take(k + 1).drop_last() =~= s.take(k));
    assert(s.take(k + 1).last() == s[k]);
}


pub closed spec fn sig_inner(s: Signature) -> InnerSignature { s.inner }
/// the config of a signature of known version (closed: Signature has private fields)
pub closed spec fn sig_config(s: Signature) -> Option<SignatureConfig> {
    match s.inner { InnerSignature::Known { config, .. } => Some(config), InnerSignature::Unknown { .. } => None }
}

// ---- issuer identity (C02/C15 "issuer match") ---------------------------------------
/// Issuer Key ID subpackets (RFC 9580 5.2.3.12) of a subpacket list, in order
pub open spec fn key_ids_of(s: Seq<Subpacket>) -> Seq<KeyId>
    decreases s.len()
{
    if s.len() == 0 { Seq::<KeyId>::empty() } else {
        match s.last().data {
            SubpacketData::IssuerKeyId(id) => key_ids_of(s.drop_last()).push(id),
            _ => key_ids_of(s.drop_last()),
        }
    }
}
/// Issuer Fingerprint subpackets (RFC 9580 5.2.3.35) of a subpacket list, in order
pub open spec fn fps_of(s: Seq<Subpacket>) -> Seq<Fingerprint>
    decreases s.len()
{
    if s.len() == 0 { Seq::<Fingerprint>::empty() } else {
        match s.last().data {
            SubpacketData::IssuerFingerprint(fp) => fps_of(s.drop_last()).push(fp),
            _ => fps_of(s.drop_last()),
        }
    }
}
/// every key id a signature names as its issuer: the v2/v3 issuer field, else the Issuer Key ID
/// subpackets of the hashed and the unhashed area; a signature of unknown version names none
pub closed spec fn sig_issuer_key_ids(s: Signature) -> Seq<KeyId> {
    match s.inner {
        InnerSignature::Known { config, .. } => match config.version_specific {
            SignatureVersionSpecific::V2 { issuer_key_id, .. } => seq![issuer_key_id],
            SignatureVersionSpecific::V3 { issuer_key_id, .. } => seq![issuer_key_id],
            _ => key_ids_of(config.hashed_subpackets@ + config.unhashed_subpackets@),
        },
        InnerSignature::Unknown { .. } => Seq::<KeyId>::empty(),
    }
}
pub closed spec fn sig_issuer_fps(s: Signature) -> Seq<Fingerprint> {
    match s.inner {
        InnerSignature::Known { config, .. } => fps_of(config.hashed_subpackets@ + config.unhashed_subpackets@),
        InnerSignature::Unknown { .. } => Seq::<Fingerprint>::empty(),
    }
}
// The two existentials are written over Seq::as_ref() because that is the term vstd's contract of
// `slice::iter().any(..)` speaks about; lemma_identity_matched gives the plain reading.
pub open spec fn some_key_id(ids: Seq<&KeyId>, kid: KeyId) -> bool {
    exists|i: int| 0 <= i < ids.len() && **(#[trigger] ids.as_ref()[i]) == kid
}
pub open spec fn some_fp(fps: Seq<&Fingerprint>, fp: Fingerprint) -> bool {
    exists|i: int| 0 <= i < fps.len() && **(#[trigger] fps.as_ref()[i]) == fp
}
/// C02/C15 "issuer match": no issuer named at all, or this key's id / fingerprint is among the named ones
pub open spec fn identity_matched(s: Signature, kid: KeyId, fp: Fingerprint) -> bool {
    (sig_issuer_key_ids(s).len() == 0 && sig_issuer_fps(s).len() == 0)
    || some_key_id(sig_issuer_key_ids(s).as_ref(), kid)
    || some_fp(sig_issuer_fps(s).as_ref(), fp)
}
pub proof fn lemma_identity_matched(s: Signature, kid: KeyId, fp: Fingerprint)
    ensures identity_matched(s, kid, fp) == (
        (sig_issuer_key_ids(s).len() == 0 && sig_issuer_fps(s).len() == 0)
        || (exists|i: int| 0 <= i < sig_issuer_key_ids(s).len() && #[trigger] sig_issuer_key_ids(s)[i] == kid)
        || (exists|i: int| 0 <= i < sig_issuer_fps(s).len() && #[trigger] sig_issuer_fps(s)[i] == fp))
{
    let ids = sig_issuer_key_ids(s);
    let fps = sig_issuer_fps(s);
    if some_key_id(ids.as_ref(), kid) {
        let i = choose|i: int| 0 <= i < ids.as_ref().len() && **(#[trigger] ids.as_ref().as_ref()[i]) == kid;
        assert(ids[i] == kid);
    }
    if exists|i: int| 0 <= i < ids.len() && #[trigger] ids[i] == kid {
        let i = choose|i: int| 0 <= i < ids.len() && #[trigger] ids[i] == kid;
        assert(**ids.as_ref().as_ref()[i] == kid);
    }
    if some_fp(fps.as_ref(), fp) {
        let i = choose|i: int| 0 <= i < fps.as_ref().len() && **(#[trigger] fps.as_ref().as_ref()[i]) == fp;
        assert(fps[i] == fp);
    }
    if exists|i: int| 0 <= i < fps.len() && #[trigger] fps[i] == fp {
        let i = choose|i: int| 0 <= i < fps.len() && #[trigger] fps[i] == fp;
        assert(**fps.as_ref().as_ref()[i] == fp);
    }
}

