// ---------------------------------------------------------------------------------
// lemmas/packet_body_view.rs - the abstract view of LimitedReader / PacketBodyReader::State / PacketBodyReader
// (src/composed/message/reader/{limited,packet_body}.rs) in the vocabulary of lemmas/partial.rs.
// Pure spec/proof text, copied verbatim from the in-unit definitions of units/U07_packet_body_reader.vu
// (where the real code is proved against them), so that the units about the callers of PacketBodyReader
// (U45, U46) state their contracts over the same functions.
// Include after shims/io*.rs, shims/bytes.rs, shims/io_take.rs, lemmas/framing.rs, lemmas/partial.rs and the
// extracted types LimitedReader, State, PacketBodyReader, PacketHeader (any model with the accessor specs).
// ---------------------------------------------------------------------------------
impl<R: io::BufRead> LimitedReader<R> {
    /// how the octets at the head of the underlying stream are to be read
    pub open spec fn chunk(&self) -> Chunk {
        match self {
            LimitedReader::Fixed { reader } => Chunk::Fixed(reader.limit as nat),
            LimitedReader::Indeterminate(r) => Chunk::Indeterminate,
            LimitedReader::Partial(r) => Chunk::Partial(r.limit as nat),
        }
    }
    /// remaining content of the underlying reader R
    pub open spec fn under(&self) -> Seq<u8> {
        match self {
            LimitedReader::Fixed { reader } => reader.inner.rest(),
            LimitedReader::Indeterminate(r) => r.rest(),
            LimitedReader::Partial(r) => r.inner.rest(),
        }
    }
    /// the underlying reader R itself
    pub open spec fn source(&self) -> R {
        match self {
            LimitedReader::Fixed { reader } => reader.inner,
            LimitedReader::Indeterminate(r) => *r,
            LimitedReader::Partial(r) => r.inner,
        }
    }
}

/// (remaining body, stream right behind the packet) of a reader that holds `buf` and reads chunk `c` from `u`;
/// None: the stream is not a complete packet body
pub open spec fn body_framing(buf: Seq<u8>, c: Chunk, u: Seq<u8>) -> Option<(Seq<u8>, Seq<u8>)> {
    match deframe_c(c, u) {
        Some((b, used)) => Some((buf + b, u.skip(used as int))),
        None => None,
    }
}
/// the body octets such a reader can still deliver before it must fail (== remaining body if well framed)
pub open spec fn body_rest(buf: Seq<u8>, c: Chunk, u: Seq<u8>) -> Seq<u8> { buf + avail_c(c, u) }

pub open spec fn framing_skip(f: Option<(Seq<u8>, Seq<u8>)>, n: nat) -> Option<(Seq<u8>, Seq<u8>)> {
    match f { Some((b, t)) => Some((b.skip(n as int), t)), None => None }
}

impl<R: io::BufRead> State<R> {
    pub closed spec fn framing(&self) -> Option<(Seq<u8>, Seq<u8>)> {
        match self {
            State::Body { buffer, source } => body_framing(buffer@, source.chunk(), source.under()),
            State::Done { source } => Some((Seq::<u8>::empty(), source.rest())),
            State::Error => None,
        }
    }
    pub closed spec fn deliverable(&self) -> Seq<u8> {
        match self {
            State::Body { buffer, source } => body_rest(buffer@, source.chunk(), source.under()),
            State::Done { source } => Seq::<u8>::empty(),
            State::Error => Seq::<u8>::empty(),
        }
    }
    /// C19: one buffer, requested once with 8 KiB (the literal, not the constant of the code), never holding more
    pub closed spec fn inv(&self) -> bool {
        match self {
            State::Body { buffer, source } => buffer@.len() <= 8192 && buffer.requested() == 8192,
            _ => true,
        }
    }
    pub closed spec fn buffered(&self) -> nat {
        match self {
            State::Body { buffer, source } => buffer@.len(),
            _ => 0,
        }
    }
    /// the underlying reader, wherever the state keeps it (None: State::Error has dropped it)
    pub closed spec fn source(&self) -> Option<R> {
        match self {
            State::Body { buffer, source } => Some(source.source()),
            State::Done { source } => Some(*source),
            State::Error => None,
        }
    }
}

impl<R: io::BufRead> PacketBodyReader<R> {
    /// Some((remaining body, stream right behind this packet)) iff what is still to be read is a complete, legally framed body
    pub closed spec fn framing(&self) -> Option<(Seq<u8>, Seq<u8>)> { self.state.framing() }
    pub closed spec fn deliverable(&self) -> Seq<u8> { self.state.deliverable() }
    pub closed spec fn inv(&self) -> bool { self.state.inv() }
    pub closed spec fn is_done_state(&self) -> bool { self.state is Done }
    pub closed spec fn is_error_state(&self) -> bool { self.state is Error }
    pub closed spec fn header(&self) -> PacketHeader { self.packet_header }
    pub closed spec fn buffered_len(&self) -> nat { self.state.buffered() }
    /// in state Done the reader holds the source, positioned right behind the packet
    pub closed spec fn done_source_rest(&self) -> Seq<u8> { match self.state { State::Done { source } => source.rest(), _ => Seq::<u8>::empty() } }
    /// the underlying reader (None after an error)
    pub closed spec fn source(&self) -> Option<R> { self.state.source() }

    /// a well-framed packet: what can be delivered is the remaining body; in state Done nothing remains and the
    /// source stands at `t`, the stream right behind the packet.  An ill-framed packet never reaches Done.
    pub proof fn lemma_framing_rest(&self)
        ensures match self.framing() {
            Some((b, t)) => self.deliverable() == b && (self.is_done_state() ==> t == self.done_source_rest() && b.len() == 0),
            None => !self.is_done_state() }
    {
        match self.state {
            State::Body { buffer, source } => { lemma_deframe_avail(source.chunk(), source.under()); }
            _ => {}
        }
    }
    pub proof fn lemma_done_source(&self)
        requires self.is_done_state()
        ensures self.source() is Some, self.source()->Some_0.rest() == self.done_source_rest()
    {}
}
