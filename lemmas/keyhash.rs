// ---------------------------------------------------------------------------------
// lemmas/keyhash.rs - the RFC 9580 pre-images for key fingerprints (5.5.4), key IDs
// (5.5.4) and the key / user-id / user-attribute framing that is hashed for
// certificate-forming signatures (5.2.4).  Transcribed from the RFC text, NOT from the
// repository.  Pure spec + small proofs; needs be16/be32 from shims/io.rs.
//
// Conventions: `params` is the octet string of the "algorithm-specific fields" of a
// public-key packet exactly as they appear in the packet; `body` is a complete key packet
// body (everything after the packet header).  Lengths are mathematical integers: a
// pre-image is *defined* only if the length fits the width the RFC prescribes.
// ---------------------------------------------------------------------------------

// ---- RFC 9580 3.2: multiprecision integers ---------------------------------------
/// number of significant bits of one octet
pub open spec fn octet_bits(b: u8) -> nat {
    if b >= 128 { 8 } else if b >= 64 { 7 } else if b >= 32 { 6 } else if b >= 16 { 5 }
    else if b >= 8 { 4 } else if b >= 4 { 3 } else if b >= 2 { 2 } else if b >= 1 { 1 } else { 0 }
}
/// bit length of a big-endian unsigned integer given without leading zero octets
pub open spec fn mpi_bits(v: Seq<u8>) -> nat {
    if v.len() == 0 { 0 } else { ((v.len() - 1) * 8) as nat + octet_bits(v[0]) }
}
/// 3.2: "a two-octet scalar that is the length of the MPI in bits followed by a string of
/// octets that contain the actual integer"
pub open spec fn mpi_enc(v: Seq<u8>) -> Seq<u8> { be16(mpi_bits(v) as u16) + v }

// ---- 5.5.2: public key packet bodies ---------------------------------------------
/// 5.5.2.2 version 4: version(4), created(4 octets), algorithm, algorithm-specific fields
pub open spec fn key_body_v4(created: u32, alg: u8, params: Seq<u8>) -> Seq<u8> {
    seq![4u8] + be32(created) + seq![alg] + params
}
/// 5.5.2.3 version 6: version(6), created, algorithm, four-octet scalar octet count of the
/// public key material, algorithm-specific fields
pub open spec fn key_body_v6(created: u32, alg: u8, params: Seq<u8>) -> Seq<u8> {
    seq![6u8] + be32(created) + seq![alg] + be32(params.len() as u32) + params
}

// ---- 5.5.4: fingerprints -------------------------------------------------------------
/// 5.5.4.2: "0x99, followed by the two-octet packet length, followed by the entire
/// Public Key packet starting with the version field" - defined iff the length is a
/// two-octet number
pub open spec fn fp_v4_defined(params: Seq<u8>) -> bool { 6 + params.len() < 0x1_0000 }
pub open spec fn fp_v4_preimage(created: u32, alg: u8, params: Seq<u8>) -> Seq<u8> {
    let body = key_body_v4(created, alg, params);
    seq![0x99u8] + be16(body.len() as u16) + body
}
/// 5.5.4.3: "0x9B, followed by the four-octet packet length, followed by the entire
/// Public Key packet starting with the version field"
pub open spec fn fp_v6_defined(params: Seq<u8>) -> bool { 10 + params.len() < 0x1_0000_0000 }
pub open spec fn fp_v6_preimage(created: u32, alg: u8, params: Seq<u8>) -> Seq<u8> {
    let body = key_body_v6(created, alg, params);
    seq![0x9Bu8] + be32(body.len() as u32) + body
}
/// 5.5.4.1 (RFC 4880 12.2): "hashing the body (but not the 2-octet length) of the MPIs that
/// form the key material (public modulus n, followed by exponent e) with MD5"
pub open spec fn fp_v3_preimage(n: Seq<u8>, e: Seq<u8>) -> Seq<u8> { n + e }

// ---- 5.5.4: key IDs ------------------------------------------------------------------
/// v4: "the low-order 64 bits of the fingerprint"
pub open spec fn key_id_v4(fp: Seq<u8>) -> Seq<u8> { fp.subrange(fp.len() - 8, fp.len() as int) }
/// v6: "the high-order 64 bits of the fingerprint"
pub open spec fn key_id_v6(fp: Seq<u8>) -> Seq<u8> { fp.subrange(0, 8) }
/// v3: "the low 64 bits of the public modulus of the RSA key"; a modulus shorter than 8
/// octets is a number < 2^64 whose low 64 bits are itself, i.e. left-padded with zeros
pub open spec fn key_id_v3(n: Seq<u8>) -> Seq<u8> {
    if n.len() >= 8 { n.subrange(n.len() - 8, n.len() as int) }
    else { Seq::new((8 - n.len()) as nat, |i: int| 0u8) + n }
}

// ---- 5.2.4: what is hashed for signatures over keys and user ids ---------------------
/// the two framings for keys (5.2.4): selected by the *signature* version
pub open spec fn key_frame_v4(body: Seq<u8>) -> Seq<u8> { seq![0x99u8] + be16(body.len() as u16) + body }
pub open spec fn key_frame_v6(body: Seq<u8>) -> Seq<u8> { seq![0x9Bu8] + be32(body.len() as u32) + body }
pub open spec fn key_frame_v4_defined(body: Seq<u8>) -> bool { body.len() < 0x1_0000 }
pub open spec fn key_frame_v6_defined(body: Seq<u8>) -> bool { body.len() < 0x1_0000_0000 }

/// "When a version 4 signature is made over a key, the hash data starts with the octet
/// 0x99, followed by a two-octet length of the key, followed by the body of the key packet.
/// When a version 6 signature is made over a key, the hash data starts with the salt, then
/// octet 0x9B, followed by a four-octet length of the key, followed by the body of the key
/// packet."  (v3 signatures: RFC 4880 5.2.4, same as v4.)  sig_v6 = the signature is v6.
pub open spec fn key_frame(sig_v6: bool, body: Seq<u8>) -> Seq<u8> {
    if sig_v6 { key_frame_v6(body) } else { key_frame_v4(body) }
}
pub open spec fn key_frame_defined(sig_v6: bool, body: Seq<u8>) -> bool {
    if sig_v6 { key_frame_v6_defined(body) } else { key_frame_v4_defined(body) }
}

/// "A certification signature (Type ID 0x10 through 0x13) hashes the User ID that is bound
/// to the key into the hash context after the above data.  A version 3 certification
/// hashes the contents of the User ID or User Attribute packet, without the packet header.
/// A version 4 or version 6 certification hashes the constant 0xB4 for User ID
/// certifications or the constant 0xD1 for User Attribute certifications, followed by a
/// four-octet number giving the length of the User ID or User Attribute data, followed by
/// the User ID or User Attribute data."
pub open spec fn uid_frame(id: Seq<u8>) -> Seq<u8> { seq![0xB4u8] + be32(id.len() as u32) + id }
pub open spec fn uat_frame(attr: Seq<u8>) -> Seq<u8> { seq![0xD1u8] + be32(attr.len() as u32) + attr }
pub open spec fn id_frame_defined(id: Seq<u8>) -> bool { id.len() < 0x1_0000_0000 }
/// sig_v3: the signature is version 2 or 3; attribute: the packet is a User Attribute
pub open spec fn id_frame(sig_v3: bool, attribute: bool, id: Seq<u8>) -> Seq<u8> {
    if sig_v3 { id } else if attribute { uat_frame(id) } else { uid_frame(id) }
}

// ---- small facts ---------------------------------------------------------------------
pub proof fn lemma_key_body_v4_len(created: u32, alg: u8, params: Seq<u8>)
    ensures key_body_v4(created, alg, params).len() == 6 + params.len()
{}
pub proof fn lemma_key_body_v6_len(created: u32, alg: u8, params: Seq<u8>)
    ensures key_body_v6(created, alg, params).len() == 10 + params.len()
{}
/// the fingerprint pre-image of a key IS the framing a same-version signature hashes for it
pub proof fn lemma_fp_is_frame(created: u32, alg: u8, params: Seq<u8>)
    ensures fp_v4_preimage(created, alg, params) == key_frame_v4(key_body_v4(created, alg, params)),
            fp_v6_preimage(created, alg, params) == key_frame_v6(key_body_v6(created, alg, params)),
{}
/// an MPI encoding is always two octets longer than the integer: the v3 fingerprint
/// pre-image can never equal the concatenation of the two MPI *encodings*
pub proof fn lemma_mpi_enc_len(v: Seq<u8>)
    ensures mpi_enc(v).len() == v.len() + 2
{}
pub proof fn lemma_v3_preimage_is_not_wire_format(n: Seq<u8>, e: Seq<u8>)
    ensures fp_v3_preimage(n, e) != mpi_enc(n) + mpi_enc(e)
{
    lemma_mpi_enc_len(n);
    lemma_mpi_enc_len(e);
    assert((mpi_enc(n) + mpi_enc(e)).len() == n.len() + e.len() + 4);
    assert(fp_v3_preimage(n, e).len() == n.len() + e.len());
}

// ---- injectivity: a different key / user id gives a different framing (C02) ------------------
pub proof fn lemma_seq_cancel(p: Seq<u8>, a: Seq<u8>, b: Seq<u8>, t: Seq<u8>)
    requires p + a + t == p + b + t
    ensures a == b
{
    let l = p + a + t;
    let r = p + b + t;
    assert(l.len() == r.len());
    assert(a.len() == b.len());
    assert forall|i: int| 0 <= i < a.len() implies a[i] == b[i] by {
        assert(l[p.len() + i] == a[i]);
        assert(r[p.len() + i] == b[i]);
    }
    assert(a =~= b);
}
pub proof fn lemma_key_frame_injective(v6: bool, a: Seq<u8>, b: Seq<u8>)
    requires key_frame(v6, a) == key_frame(v6, b)
    ensures a == b
{
    let n = if v6 { 5int } else { 3int };
    assert(key_frame(v6, a).len() == n + a.len());
    assert(key_frame(v6, b).len() == n + b.len());
    assert forall|i: int| 0 <= i < a.len() implies a[i] == b[i] by {
        assert(key_frame(v6, a)[n + i] == a[i]);
        assert(key_frame(v6, b)[n + i] == b[i]);
    }
    assert(a =~= b);
}
pub proof fn lemma_id_frame_injective(v3: bool, attr1: bool, a: Seq<u8>, attr2: bool, b: Seq<u8>)
    requires id_frame(v3, attr1, a) == id_frame(v3, attr2, b)
    ensures a == b, !v3 ==> attr1 == attr2
{
    if v3 {
    } else {
        let fa = id_frame(v3, attr1, a);
        let fb = id_frame(v3, attr2, b);
        assert(fa.len() == 5 + a.len());
        assert(fb.len() == 5 + b.len());
        assert(fa[0] == (if attr1 { 0xD1u8 } else { 0xB4u8 }));
        assert(fb[0] == (if attr2 { 0xD1u8 } else { 0xB4u8 }));
        assert forall|i: int| 0 <= i < a.len() implies a[i] == b[i] by {
            assert(fa[5 + i] == a[i]);
            assert(fb[5 + i] == b[i]);
        }
        assert(a =~= b);
    }
}
