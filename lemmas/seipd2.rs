// ---------------------------------------------------------------------------------
// lemmas/seipd2.rs - RFC 9580 section 5.13.2 (Version 2 Sym. Encrypted and Integrity
// Protected Data packet) as spec functions over the uninterpreted primitives of
// shims/aead.rs, and the pairing lemma L2.  Include AFTER shims/aead.rs.
//
//   info      = [0xD2, 0x02, sym octet, aead octet, chunk size octet]          (0xD2 = 0xC0 | 18)
//   chunk     = 1 << (c + 6) octets of plaintext per chunk
//   okm       = HKDF-SHA256(salt = 32 octet salt, ikm = session key, info) of M + N - 8 octets,
//               M = key size of the cipher, N = nonce size of the AEAD mode
//   key       = okm[0 .. M],  iv = okm[M .. M + N - 8]
//   chunk i   = seal(key, nonce = iv ++ be64(i), ad = info, plaintext chunk i)        i = 0, 1, ..
//   final tag = seal(key, nonce = iv ++ be64(n_chunks), ad = info ++ be64(total plaintext octets), "")
// ---------------------------------------------------------------------------------

pub open spec fn seipd2_info(sym: SymmetricKeyAlgorithm, aead: AeadAlgorithm, chunk_octet: u8) -> Seq<u8> {
    seq![0xD2u8, 0x02u8, sym_octet(sym), aead_octet(aead), chunk_octet]
}
/// chunk size in octets for chunk size octet c (RFC: "chunk_size = (uint32_t) 1 << (c + 6)", c <= 16)
pub open spec fn seipd2_chunk_len(c: u8) -> nat { (1u32 << ((c as u32 + 6) as u32)) as nat }

pub open spec fn seipd2_okm(sym: SymmetricKeyAlgorithm, aead: AeadAlgorithm, salt: Seq<u8>, ikm: Seq<u8>, info: Seq<u8>) -> Seq<u8> {
    hkdf_sha256(salt, ikm, info, (spec_key_size(sym) + spec_nonce_size(aead) - 8) as nat)
}
pub open spec fn seipd2_key(sym: SymmetricKeyAlgorithm, aead: AeadAlgorithm, salt: Seq<u8>, ikm: Seq<u8>, info: Seq<u8>) -> Seq<u8> {
    seipd2_okm(sym, aead, salt, ikm, info).subrange(0, spec_key_size(sym) as int)
}
pub open spec fn seipd2_iv(sym: SymmetricKeyAlgorithm, aead: AeadAlgorithm, salt: Seq<u8>, ikm: Seq<u8>, info: Seq<u8>) -> Seq<u8> {
    seipd2_okm(sym, aead, salt, ikm, info).subrange(spec_key_size(sym) as int, spec_key_size(sym) + spec_nonce_size(aead) - 8)
}

/// everything that is fixed for one SEIPDv2 stream
pub struct Seipd2 {
    pub aead: AeadAlgorithm,
    pub sym: SymmetricKeyAlgorithm,
    pub key: Seq<u8>,
    pub iv: Seq<u8>,      // nonce_size - 8 octets
    pub info: Seq<u8>,    // 5 octets
    pub chunk: nat,       // plaintext octets per chunk
}
impl Seipd2 {
    pub open spec fn nonce(self, i: nat) -> Seq<u8> { self.iv + be64(i as u64) }
    pub open spec fn final_ad(self, total: nat) -> Seq<u8> { self.info + be64(total as u64) }
    pub open spec fn seal(self, i: nat, ad: Seq<u8>, pt: Seq<u8>) -> Seq<u8> {
        aead_seal(self.aead, self.sym, self.key, self.nonce(i), ad, pt)
    }
    pub open spec fn open(self, i: nat, ad: Seq<u8>, ct: Seq<u8>) -> Option<Seq<u8>> {
        aead_open(self.aead, self.sym, self.key, self.nonce(i), ad, ct)
    }
    /// parameters for which the primitives are defined
    pub open spec fn ok(self) -> bool {
        aead_pair_supported(self.aead, self.sym) && self.key.len() >= spec_key_size(self.sym)
        && self.iv.len() + 8 == spec_nonce_size(self.aead) && self.chunk > 0
    }
    /// the stream parameters the RFC derives from the packet header fields, the salt and the session key
    pub open spec fn derive(sym: SymmetricKeyAlgorithm, aead: AeadAlgorithm, chunk_octet: u8, salt: Seq<u8>, session_key: Seq<u8>) -> Seipd2 {
        let info = seipd2_info(sym, aead, chunk_octet);
        Seipd2 { aead, sym, key: seipd2_key(sym, aead, salt, session_key, info), iv: seipd2_iv(sym, aead, salt, session_key, info),
                 info, chunk: seipd2_chunk_len(chunk_octet) }
    }

    /// Encryption of plaintext p, starting at chunk index i with w plaintext octets already sealed.
    pub open spec fn seal_from(self, p: Seq<u8>, i: nat, w: nat) -> Seq<u8>
        decreases p.len()
    {
        if p.len() == 0 || self.chunk == 0 {
            self.seal(i, self.final_ad(w), Seq::<u8>::empty())
        } else {
            let n = if self.chunk <= p.len() { self.chunk } else { p.len() };
            self.seal(i, self.info, p.subrange(0, n as int)) + self.seal_from(p.skip(n as int), i + 1, w + n)
        }
    }
    pub open spec fn seal_stream(self, p: Seq<u8>) -> Seq<u8> { self.seal_from(p, 0, 0) }

    /// Decryption of the encrypted stream c (chunks followed by the 16 octet final tag), starting at chunk
    /// index i with w plaintext octets already released.  Result: (plaintext released chunk by chunk until the
    /// first failure, whether the whole stream including the final tag authenticated).
    /// Chunks are (chunk + 16) octets; only the last one may be shorter; the last 16 octets are the final tag.
    pub open spec fn open_from(self, c: Seq<u8>, i: nat, w: nat) -> (Seq<u8>, bool)
        decreases c.len()
    {
        if c.len() < 16 {
            (Seq::<u8>::empty(), false)
        } else if c.len() == 16 {
            (Seq::<u8>::empty(), self.open(i, self.final_ad(w), c) is Some)
        } else {
            let m: int = if self.chunk + 16 <= c.len() - 16 { self.chunk as int + 16 } else { c.len() - 16 };
            match self.open(i, self.info, c.subrange(0, m)) {
                None => (Seq::<u8>::empty(), false),
                Some(pt) => {
                    let t = self.open_from(c.skip(m), i + 1, w + pt.len());
                    (pt + t.0, t.1)
                }
            }
        }
    }
    pub open spec fn open_stream(self, c: Seq<u8>) -> Option<Seq<u8>> {
        let t = self.open_from(c, 0, 0);
        if t.1 { Some(t.0) } else { None }
    }

    pub proof fn lemma_seal_from_len(self, p: Seq<u8>, i: nat, w: nat)
        requires self.ok()
        ensures self.seal_from(p, i, w).len() >= 16, p.len() == 0 ==> self.seal_from(p, i, w).len() == 16
        decreases p.len()
    {
        if p.len() == 0 {
            axiom_aead_seal_len(self.aead, self.sym, self.key, self.nonce(i), self.final_ad(w), Seq::<u8>::empty());
        } else {
            let n = if self.chunk <= p.len() { self.chunk } else { p.len() };
            self.lemma_seal_from_len(p.skip(n as int), i + 1, w + n);
        }
    }

    /// L2: decrypting what the RFC encryption produced gives back the plaintext, at every length
    /// (0, k*chunk, k*chunk +- 1, ...), from every (chunk index, octet count) starting point.
    pub proof fn lemma_open_seal_from(self, p: Seq<u8>, i: nat, w: nat)
        requires self.ok()
        ensures self.open_from(self.seal_from(p, i, w), i, w) == (p, true)
        decreases p.len()
    {
        let c = self.seal_from(p, i, w);
        self.lemma_seal_from_len(p, i, w);
        if p.len() == 0 {
            let e = Seq::<u8>::empty();
            axiom_aead_open_seal(self.aead, self.sym, self.key, self.nonce(i), self.final_ad(w), e);
            assert(p =~= e);
        } else {
            let n: nat = if self.chunk <= p.len() { self.chunk } else { p.len() };
            let head = p.subrange(0, n as int);
            let first = self.seal(i, self.info, head);
            let tail = self.seal_from(p.skip(n as int), i + 1, w + n);
            axiom_aead_seal_len(self.aead, self.sym, self.key, self.nonce(i), self.info, head);
            self.lemma_seal_from_len(p.skip(n as int), i + 1, w + n);
            assert(c == first + tail);
            assert(first.len() == n + 16);
            // the decryptor's greedy split recovers exactly the first sealed chunk
            let m: int = if self.chunk + 16 <= c.len() - 16 { self.chunk as int + 16 } else { c.len() - 16 };
            assert(m == n + 16) by {
                if n < self.chunk { assert(p.skip(n as int).len() == 0); assert(tail.len() == 16); }
            }
            assert(c.subrange(0, m) =~= first);
            assert(c.skip(m) =~= tail);
            axiom_aead_open_seal(self.aead, self.sym, self.key, self.nonce(i), self.info, head);
            self.lemma_open_seal_from(p.skip(n as int), i + 1, w + n);
            assert(head + p.skip(n as int) =~= p);
        }
    }
    pub proof fn lemma_open_seal_stream(self, p: Seq<u8>)
        requires self.ok()
        ensures self.open_stream(self.seal_stream(p)) == Some(p)
    {
        self.lemma_open_seal_from(p, 0, 0);
    }

    /// open_from on a stream that is at least two encrypted chunks long: the first chunk is a full one.
    /// (The decryptor's buffer holds 2 * (chunk + 16) octets when it takes the non-final path.)
    pub proof fn lemma_open_from_full(self, c: Seq<u8>, i: nat, w: nat)
        requires c.len() >= 2 * (self.chunk + 16)
        ensures self.open_from(c, i, w) == (match self.open(i, self.info, c.subrange(0, self.chunk as int + 16)) {
            None => (Seq::<u8>::empty(), false),
            Some(pt) => { let t = self.open_from(c.skip(self.chunk as int + 16), i + 1, w + pt.len()); (pt + t.0, t.1) } })
    {
    }

    // ---- the "log" reading of open_from -------------------------------------------------------------
    /// the (nonce, ad, ciphertext) triples that RFC decryption of c opens successfully, in order, before the
    /// final tag / the first failure
    pub open spec fn log_from(self, c: Seq<u8>, i: nat, w: nat) -> Seq<(Seq<u8>, Seq<u8>, Seq<u8>)>
        decreases c.len()
    {
        if c.len() <= 16 {
            Seq::empty()
        } else {
            let m: int = if self.chunk + 16 <= c.len() - 16 { self.chunk as int + 16 } else { c.len() - 16 };
            match self.open(i, self.info, c.subrange(0, m)) {
                None => Seq::empty(),
                Some(pt) => seq![(self.nonce(i), self.info, c.subrange(0, m))] + self.log_from(c.skip(m), i + 1, w + pt.len()),
            }
        }
    }
    /// concatenation of the plaintexts of a log
    pub open spec fn log_plain(self, log: Seq<(Seq<u8>, Seq<u8>, Seq<u8>)>) -> Seq<u8>
        decreases log.len()
    {
        if log.len() == 0 { Seq::empty() }
        else {
            (match aead_open(self.aead, self.sym, self.key, log[0].0, log[0].1, log[0].2) { Some(pt) => pt, None => Seq::empty() })
            + self.log_plain(log.skip(1))
        }
    }
    /// what open_from releases is exactly the concatenation, in order, of the plaintexts of the opened chunks;
    /// chunk number k of the log was opened under nonce iv ++ be64(i + k) and AD info
    pub proof fn lemma_released_is_log(self, c: Seq<u8>, i: nat, w: nat)
        ensures
            self.open_from(c, i, w).0 == self.log_plain(self.log_from(c, i, w)),
            forall|k: int| 0 <= k < self.log_from(c, i, w).len() ==> {
                let e = #[trigger] self.log_from(c, i, w)[k];
                e.0 == self.iv + be64((i + k) as u64) && e.1 == self.info
                && aead_open(self.aead, self.sym, self.key, e.0, e.1, e.2) is Some },
        decreases c.len()
    {
        if c.len() <= 16 {
            assert(self.log_plain(Seq::empty()) =~= Seq::<u8>::empty());
        } else {
            let m: int = if self.chunk + 16 <= c.len() - 16 { self.chunk as int + 16 } else { c.len() - 16 };
            match self.open(i, self.info, c.subrange(0, m)) {
                None => { assert(self.log_plain(Seq::empty()) =~= Seq::<u8>::empty()); }
                Some(pt) => {
                    let tail = self.log_from(c.skip(m), i + 1, w + pt.len());
                    let log = self.log_from(c, i, w);
                    self.lemma_released_is_log(c.skip(m), i + 1, w + pt.len());
                    assert(log.skip(1) =~= tail);
                    assert forall|k: int| 0 <= k < log.len() implies ({
                        let e = #[trigger] log[k];
                        e.0 == self.iv + be64((i + k) as u64) && e.1 == self.info
                        && aead_open(self.aead, self.sym, self.key, e.0, e.1, e.2) is Some }) by {
                        if k > 0 { assert(log[k] == tail[k - 1]); assert((i + 1 + (k - 1)) as u64 == (i + k) as u64); }
                    }
                }
            }
        }
    }

    // ---- the derived parameters and the round trip at packet level --------------------------------------
    pub proof fn lemma_derive_ok(sym: SymmetricKeyAlgorithm, aead: AeadAlgorithm, chunk_octet: u8, salt: Seq<u8>, session_key: Seq<u8>)
        requires aead_pair_supported(aead, sym), chunk_octet <= 16
        ensures Seipd2::derive(sym, aead, chunk_octet, salt, session_key).ok()
    {
        let info = seipd2_info(sym, aead, chunk_octet);
        axiom_hkdf_len(salt, session_key, info, (spec_key_size(sym) + spec_nonce_size(aead) - 8) as nat);
        assert(chunk_octet <= 16 ==> (1u32 << ((chunk_octet as u32 + 6) as u32)) >= 64) by (bit_vector);
    }
    /// C01 at the level of the SEIPDv2 container body: for every supported (cipher, mode), chunk size octet,
    /// salt, session key and payload p of any length, RFC decryption of RFC encryption gives Some(p).
    pub proof fn lemma_roundtrip(sym: SymmetricKeyAlgorithm, aead: AeadAlgorithm, chunk_octet: u8, salt: Seq<u8>, session_key: Seq<u8>, p: Seq<u8>)
        requires aead_pair_supported(aead, sym), chunk_octet <= 16
        ensures ({ let s = Seipd2::derive(sym, aead, chunk_octet, salt, session_key); s.open_stream(s.seal_stream(p)) == Some(p) })
    {
        Seipd2::lemma_derive_ok(sym, aead, chunk_octet, salt, session_key);
        Seipd2::derive(sym, aead, chunk_octet, salt, session_key).lemma_open_seal_stream(p);
    }
}
