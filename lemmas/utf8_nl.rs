// ---------------------------------------------------------------------------------
// lemmas/utf8_nl.rs - newline replacement preserves UTF-8 well-formedness.
// Needs lemmas/canon.rs + lemmas/canon2.rs (replace_nl).  Uses vstd::utf8 (definitions and
// lemmas of the Verus standard library); nothing is axiomatised here.
// ---------------------------------------------------------------------------------

/// a leading CR or LF is a complete one-byte character: what follows is well-formed
pub proof fn lemma_utf8_drop_eol(s: Seq<u8>)
    requires vstd::utf8::valid_utf8(s), s.len() > 0, s[0] == 10u8 || s[0] == 13u8,
    ensures vstd::utf8::valid_utf8(s.skip(1)),
{
    use vstd::utf8::*;
    if s.len() == 1 {
        assert(s.skip(1) =~= Seq::<u8>::empty());
        assert(valid_utf8(Seq::<u8>::empty())) by (compute);
    } else {
        reveal_with_fuel(is_char_boundary, 3);
        reveal_with_fuel(valid_utf8, 3);
        assert(is_leading_byte_width_1(10u8)) by (compute);
        assert(is_leading_byte_width_1(13u8)) by (compute);
        assert(length_of_first_scalar(s) == 1);
        assert(pop_first_scalar(s) =~= s.skip(1));
        assert(is_char_boundary(s, 1));
        valid_utf8_split(s, 1);
        assert(s.subrange(1, s.len() as int) =~= s.skip(1));
    }
}

/// a CR or LF byte is never inside a multi-byte character: the text can be cut in front of it
pub proof fn lemma_utf8_split_at_eol(s: Seq<u8>, i: int)
    requires vstd::utf8::valid_utf8(s), 0 <= i < s.len(), s[i] == 10u8 || s[i] == 13u8,
    ensures vstd::utf8::valid_utf8(s.subrange(0, i)), vstd::utf8::valid_utf8(s.subrange(i, s.len() as int)),
{
    use vstd::utf8::*;
    is_char_boundary_iff_not_is_continuation_byte(s, i);
    assert(!is_continuation_byte(10u8)) by (compute);
    assert(!is_continuation_byte(13u8)) by (compute);
    valid_utf8_split(s, i);
}

/// replacing line endings by a well-formed replacement keeps the text well-formed
/// (stated with an arbitrary already-processed prefix p so that the induction can step over
/// the bytes of a multi-byte character one at a time)
pub proof fn lemma_replace_nl_utf8(p: Seq<u8>, s: Seq<u8>, rep: Seq<u8>)
    requires vstd::utf8::valid_utf8(p + s), vstd::utf8::valid_utf8(rep),
    ensures vstd::utf8::valid_utf8(p + replace_nl(s, rep)),
    decreases s.len()
{
    use vstd::utf8::*;
    let e = Seq::<u8>::empty();
    if s.len() == 0 {
        assert(p + replace_nl(s, rep) =~= p + s);
    } else if s[0] == 10u8 || (s[0] == 13u8 && s.len() >= 2 && s[1] == 10u8) {
        let w = p + s;
        let i = p.len() as int;
        assert(w[i] == s[0]);
        lemma_utf8_split_at_eol(w, i);
        assert(w.subrange(0, i) =~= p);
        assert(w.subrange(i, w.len() as int) =~= s);
        lemma_utf8_drop_eol(s);
        let t = if s[0] == 10u8 { s.skip(1) } else { s.skip(2) };
        if s[0] == 13u8 {
            assert(s.skip(1)[0] == 10u8);
            lemma_utf8_drop_eol(s.skip(1));
            assert(s.skip(1).skip(1) =~= s.skip(2));
        }
        assert(e + t =~= t);
        lemma_replace_nl_utf8(e, t, rep);
        assert(e + replace_nl(t, rep) =~= replace_nl(t, rep));
        valid_utf8_concat(rep, replace_nl(t, rep));
        valid_utf8_concat(p, rep + replace_nl(t, rep));
    } else {
        let p1 = p + seq![s[0]];
        assert(p1 + s.skip(1) =~= p + s);
        lemma_replace_nl_utf8(p1, s.skip(1), rep);
        assert(p1 + replace_nl(s.skip(1), rep) =~= p + replace_nl(s, rep));
    }
}
