// ---------------------------------------------------------------------------------
// lemmas/subpkt_body_wire.rs - RFC 9580 5.2.3.8 .. 5.2.3.36: the BODY octets of every signature-subpacket kind as a
// spec function body_wire() of the extracted SubpacketData value, the type a value belongs to (data_typ), the wire
// form of one subpacket (length octets as stored ++ type octet ++ body) and of a subpacket area.
// Pure spec/proof code: nothing is assumed here.  Include AFTER extracting Timestamp, Duration, KeyFlags, Features,
// Notation, RevocationKey, RevocationKeyClass, Fingerprint, SubpacketType, SubpacketLength, Subpacket, SubpacketData,
// after shims/io.rs (be16 / be32), shims/secret_algos.rs, shims/subpkt_fidelity.rs and lemmas/packet_wire.rs
// (splen_enc, sp_type_octet).  Do not combine with lemmas/subpacket_wire.rs (same names; there the body is uninterpreted).
// ---------------------------------------------------------------------------------
impl Timestamp {
    pub closed spec fn secs(&self) -> u32 { self.0 }
}
impl Duration {
    pub closed spec fn secs(&self) -> u32 { self.0 }
}
// ------------------------------------------------------------------ RFC 9580 5.2.3.x: the body octets of each subpacket kind
pub open spec fn bool_octet(b: bool) -> u8 { if b { 1u8 } else { 0u8 } }
pub open spec fn fp_bytes(f: Fingerprint) -> Seq<u8> {
    match f {
        Fingerprint::V2(a) => a@, Fingerprint::V3(a) => a@, Fingerprint::V4(a) => a@,
        Fingerprint::V5(a) => a@, Fingerprint::V6(a) => a@, Fingerprint::Unknown(b) => b@,
    }
}
pub open spec fn fp_version(f: Fingerprint) -> Option<KeyVersion> {
    match f {
        Fingerprint::V2(a) => Some(KeyVersion::V2), Fingerprint::V3(a) => Some(KeyVersion::V3), Fingerprint::V4(a) => Some(KeyVersion::V4),
        Fingerprint::V5(a) => Some(KeyVersion::V5), Fingerprint::V6(a) => Some(KeyVersion::V6), Fingerprint::Unknown(b) => None,
    }
}
/// 5.2.3.35 / 5.2.3.36: one octet key version, then the fingerprint (a fingerprint without version has no wire form)
pub open spec fn fp_wire(f: Fingerprint) -> Seq<u8> {
    match fp_version(f) { Some(v) => seq![kv_to_u8(v)] + fp_bytes(f), None => Seq::<u8>::empty() }
}
/// 5.2.3.29 key flags, "N octets of flags": the first two octets live in `known` (little endian), the others in `rest`;
/// original_len remembers whether a zero second octet was on the wire, and whether there was any octet at all
pub closed spec fn kf_wire(f: KeyFlags) -> Seq<u8> {
    if f.original_len == 0 { Seq::<u8>::empty() } else {
        seq![(f.known.0 & 0xff) as u8]
        + (if f.original_len > 1 || (f.known.0 >> 8) as u8 != 0 { seq![(f.known.0 >> 8) as u8] } else { Seq::<u8>::empty() })
        + (match f.rest { Some(r) => r@, None => Seq::<u8>::empty() })
    }
}
/// 5.2.3.32 features, "N octets of flags"
pub closed spec fn feat_wire(f: Features) -> Seq<u8> {
    match f.first { Some(k) => seq![k.0] + f.rest@, None => Seq::<u8>::empty() }
}
/// 5.2.3.24 notation data: 4 octets of flags (0x80 = human-readable), 2 + 2 octets name / value length, name, value
pub open spec fn notation_wire(n: Notation) -> Seq<u8> {
    seq![if n.readable { 0x80u8 } else { 0u8 }, 0u8, 0u8, 0u8] + be16(n.name@.len() as u16) + be16(n.value@.len() as u16) + n.name@ + n.value@
}
/// 5.2.3.23 revocation key: class, public-key algorithm, fingerprint
pub open spec fn revkey_wire(k: RevocationKey) -> Seq<u8> {
    seq![revkey_class_octet(k.class), pk_to_u8(k.algorithm)] + k.fingerprint@
}

/// what SubpacketData::to_writer emits = the body octets of the subpacket (after length and type octet)
pub open spec fn body_wire(d: SubpacketData) -> Seq<u8> {
    match d {
        SubpacketData::SignatureCreationTime(t) => be32(t.secs()),
        SubpacketData::SignatureExpirationTime(t) => be32(t.secs()),
        SubpacketData::KeyExpirationTime(t) => be32(t.secs()),
        SubpacketData::IssuerKeyId(id) => id.0@,
        SubpacketData::PreferredSymmetricAlgorithms(algs) => octets_of(algs@),
        SubpacketData::PreferredHashAlgorithms(algs) => octets_of(algs@),
        SubpacketData::PreferredCompressionAlgorithms(algs) => octets_of(algs@),
        SubpacketData::KeyServerPreferences(prefs) => prefs@,
        SubpacketData::KeyFlags(flags) => kf_wire(flags),
        SubpacketData::Features(features) => feat_wire(features),
        SubpacketData::RevocationReason(code, reason) => seq![revcode_to_u8(code)] + reason@,
        SubpacketData::IsPrimary(b) => seq![bool_octet(b)],
        SubpacketData::Revocable(b) => seq![bool_octet(b)],
        SubpacketData::EmbeddedSignature(sig) => (*sig).sig_wire(),
        SubpacketData::PreferredKeyServer(server) => vstd::utf8::encode_utf8(server@),
        SubpacketData::Notation(n) => notation_wire(n),
        SubpacketData::RevocationKey(k) => revkey_wire(k),
        SubpacketData::SignersUserID(body) => body@,
        SubpacketData::PolicyURI(uri) => vstd::utf8::encode_utf8(uri@),
        SubpacketData::TrustSignature(depth, value) => seq![depth, value],
        SubpacketData::RegularExpression(regexp) => regexp@,
        SubpacketData::ExportableCertification(b) => seq![bool_octet(b)],
        SubpacketData::IssuerFingerprint(fp) => fp_wire(fp),
        SubpacketData::PreferredEncryptionModes(algs) => octets_of(algs@),
        SubpacketData::IntendedRecipientFingerprint(fp) => fp_wire(fp),
        SubpacketData::PreferredAeadAlgorithms(algs) => pair_octets_of(algs@),
        SubpacketData::Experimental(n, body) => body@,
        SubpacketData::Other(n, body) => body@,
        SubpacketData::SignatureTarget(p, h, hash) => seq![pk_to_u8(p), hash_to_u8(h)] + hash@,
    }
}


// ---- RFC 9580 5.2.3.7, Table 5: subpacket type ids (same table as lemmas/subpacket_wire.rs) ----------------------
pub open spec fn sptype_id(t: SubpacketType) -> u8 {
    match t {
        SubpacketType::SignatureCreationTime => 2,
        SubpacketType::SignatureExpirationTime => 3,
        SubpacketType::ExportableCertification => 4,
        SubpacketType::TrustSignature => 5,
        SubpacketType::RegularExpression => 6,
        SubpacketType::Revocable => 7,
        SubpacketType::KeyExpirationTime => 9,
        SubpacketType::PreferredSymmetricAlgorithms => 11,
        SubpacketType::RevocationKey => 12,
        SubpacketType::IssuerKeyId => 16,
        SubpacketType::Notation => 20,
        SubpacketType::PreferredHashAlgorithms => 21,
        SubpacketType::PreferredCompressionAlgorithms => 22,
        SubpacketType::KeyServerPreferences => 23,
        SubpacketType::PreferredKeyServer => 24,
        SubpacketType::PrimaryUserId => 25,
        SubpacketType::PolicyURI => 26,
        SubpacketType::KeyFlags => 27,
        SubpacketType::SignersUserID => 28,
        SubpacketType::RevocationReason => 29,
        SubpacketType::Features => 30,
        SubpacketType::SignatureTarget => 31,
        SubpacketType::EmbeddedSignature => 32,
        SubpacketType::IssuerFingerprint => 33,
        SubpacketType::PreferredEncryptionModes => 34, // "Reserved" in RFC 9580; LibrePGP preferred encryption modes
        SubpacketType::IntendedRecipientFingerprint => 35,
        SubpacketType::PreferredAead => 39,
        SubpacketType::Experimental(n) => n,
        SubpacketType::Other(n) => n,
    }
}
/// the subpacket type a value is the body of (the type octet Subpacket::to_writer emits comes from here)
pub open spec fn data_typ(d: SubpacketData) -> SubpacketType {
    match d {
        SubpacketData::SignatureCreationTime(_) => SubpacketType::SignatureCreationTime,
        SubpacketData::SignatureExpirationTime(_) => SubpacketType::SignatureExpirationTime,
        SubpacketData::KeyExpirationTime(_) => SubpacketType::KeyExpirationTime,
        SubpacketData::IssuerKeyId(_) => SubpacketType::IssuerKeyId,
        SubpacketData::PreferredSymmetricAlgorithms(_) => SubpacketType::PreferredSymmetricAlgorithms,
        SubpacketData::PreferredHashAlgorithms(_) => SubpacketType::PreferredHashAlgorithms,
        SubpacketData::PreferredCompressionAlgorithms(_) => SubpacketType::PreferredCompressionAlgorithms,
        SubpacketData::KeyServerPreferences(_) => SubpacketType::KeyServerPreferences,
        SubpacketData::KeyFlags(_) => SubpacketType::KeyFlags,
        SubpacketData::Features(_) => SubpacketType::Features,
        SubpacketData::RevocationReason(_, _) => SubpacketType::RevocationReason,
        SubpacketData::IsPrimary(_) => SubpacketType::PrimaryUserId,
        SubpacketData::Revocable(_) => SubpacketType::Revocable,
        SubpacketData::EmbeddedSignature(_) => SubpacketType::EmbeddedSignature,
        SubpacketData::PreferredKeyServer(_) => SubpacketType::PreferredKeyServer,
        SubpacketData::Notation(_) => SubpacketType::Notation,
        SubpacketData::RevocationKey(_) => SubpacketType::RevocationKey,
        SubpacketData::SignersUserID(_) => SubpacketType::SignersUserID,
        SubpacketData::PolicyURI(_) => SubpacketType::PolicyURI,
        SubpacketData::TrustSignature(_, _) => SubpacketType::TrustSignature,
        SubpacketData::RegularExpression(_) => SubpacketType::RegularExpression,
        SubpacketData::ExportableCertification(_) => SubpacketType::ExportableCertification,
        SubpacketData::IssuerFingerprint(_) => SubpacketType::IssuerFingerprint,
        SubpacketData::PreferredEncryptionModes(_) => SubpacketType::PreferredEncryptionModes,
        SubpacketData::IntendedRecipientFingerprint(_) => SubpacketType::IntendedRecipientFingerprint,
        SubpacketData::PreferredAeadAlgorithms(_) => SubpacketType::PreferredAead,
        SubpacketData::Experimental(n, _) => SubpacketType::Experimental(n),
        SubpacketData::Other(n, _) => SubpacketType::Other(n),
        SubpacketData::SignatureTarget(_, _, _) => SubpacketType::SignatureTarget,
    }
}

// ---- RFC 9580 5.2.3.7: subpacket length, on the extracted enum (the variant keeps the encoding read from the wire) --
pub open spec fn splen_w(l: SubpacketLength) -> int {
    match l { SubpacketLength::One(_) => 1, SubpacketLength::Two(_) => 2, SubpacketLength::Five(_) => 5 }
}
pub open spec fn splen_n(l: SubpacketLength) -> nat {
    match l { SubpacketLength::One(n) => n as nat, SubpacketLength::Two(n) => n as nat, SubpacketLength::Five(n) => n as nat }
}
/// documented invariant: "1 byte encoding, must be less than 192", Two is 192..=16319
pub open spec fn splen_wf(l: SubpacketLength) -> bool { splen_enc_ok(splen_w(l), splen_n(l)) }
pub open spec fn splen_wire(l: SubpacketLength) -> Seq<u8> { splen_enc(splen_w(l), splen_n(l)) }

// ---- one subpacket / a subpacket area -----------------------------------------------------------------------------
/// the octets of one subpacket whose body octets are `body`: length as stored ++ type octet (critical bit 7) ++ body
pub open spec fn sp_wire_with(p: Subpacket, body: Seq<u8>) -> Seq<u8> {
    splen_wire(p.len) + seq![sp_type_octet(sptype_id(data_typ(p.data)), p.is_critical)] + body
}
/// what Subpacket::to_writer emits (U30's `subpacket_ser`)
pub open spec fn sp_wire(p: Subpacket) -> Seq<u8> { sp_wire_with(p, body_wire(p.data)) }
/// "Hashed subpacket data set (zero or more subpackets)": the concatenation (U30's `ser_all`)
pub open spec fn area_wire(ps: Seq<Subpacket>) -> Seq<u8>
    decreases ps.len()
{
    if ps.len() == 0 { Seq::<u8>::empty() } else { area_wire(ps.drop_last()) + sp_wire(ps.last()) }
}
/// an area as the parser sees it: the stored lengths, the type octets, and the body octets FOUND on the wire
pub open spec fn area_wire_with(ps: Seq<Subpacket>, bodies: Seq<Seq<u8>>) -> Seq<u8>
    decreases ps.len()
{
    if ps.len() == 0 { Seq::<u8>::empty() }
    else { area_wire_with(ps.drop_last(), bodies.drop_last()) + sp_wire_with(ps.last(), bodies.last()) }
}
pub proof fn lemma_area_with_push(ps: Seq<Subpacket>, bodies: Seq<Seq<u8>>, p: Subpacket, body: Seq<u8>)
    ensures area_wire_with(ps.push(p), bodies.push(body)) == area_wire_with(ps, bodies) + sp_wire_with(p, body)
{
    assert(ps.push(p).drop_last() =~= ps);
    assert(bodies.push(body).drop_last() =~= bodies);
}

// ---- the kinds whose parser is lossy (found by U69s) -------------------------------------------------------------
/// body octets that the parser maps to a value which is written back as DIFFERENT octets:
/// ExportableCertification / Revocable / PrimaryUserId with an octet other than 0 / 1 (`== 1`), and Notation Data whose
/// first flag octet is neither 0x80 nor 0 (`== 0x80`)
pub open spec fn lossy_body(d: SubpacketData, body: Seq<u8>) -> bool {
    match d {
        SubpacketData::ExportableCertification(_) => body.len() >= 1 && body[0] > 1,
        SubpacketData::Revocable(_) => body.len() >= 1 && body[0] > 1,
        SubpacketData::IsPrimary(_) => body.len() >= 1 && body[0] > 1,
        SubpacketData::Notation(_) => body.len() >= 1 && body[0] != 0x80 && body[0] != 0,
        _ => false,
    }
}
/// C02 / C11 at area level: an area whose found bodies are the serialisations of the parsed values re-serialises
/// to the identical octets (area_wire is what hash_signature_data hashes, area_wire_with what was received)
pub proof fn lemma_area_reserialises(ps: Seq<Subpacket>, bodies: Seq<Seq<u8>>)
    requires bodies.len() == ps.len(), forall|k: int| 0 <= k < ps.len() ==> #[trigger] bodies[k] == body_wire(ps[k].data)
    ensures area_wire_with(ps, bodies) == area_wire(ps)
    decreases ps.len()
{
    if ps.len() > 0 {
        let b2 = bodies.drop_last();
        assert forall|k: int| 0 <= k < ps.drop_last().len() implies #[trigger] b2[k] == body_wire(ps.drop_last()[k].data) by {
            assert(b2[k] == bodies[k]);
        }
        lemma_area_reserialises(ps.drop_last(), b2);
        assert(bodies[ps.len() - 1] == body_wire(ps[ps.len() - 1].data));
    }
}
