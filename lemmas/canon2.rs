// ---------------------------------------------------------------------------------
// lemmas/canon2.rs - further facts about canon() of lemmas/canon.rs (include that first).
//   * crlf_ok: "no LF that is not preceded by CR" as a pointwise predicate, and
//     crlf_ok(s,p) <==> canon(s,p) == s                      (the fixed points of canon)
//   * chunked streams: all chunks are accepted (state carried in one bit) <==> the whole
//     stream is a fixed point of canon
//   * replace_nl: "every CRLF or lone LF becomes `rep`", the reading of
//     `replace_newlines`; replace_nl(s, CRLF) == canon(s, false)
// Pure spec + proof; no repository code.
// ---------------------------------------------------------------------------------

/// every LF in s is preceded by a CR (p: the byte before s is a CR)
pub open spec fn crlf_ok(s: Seq<u8>, p: bool) -> bool {
    forall|i: int| 0 <= i < s.len() && #[trigger] s[i] == 10u8 ==> (if i == 0 { p } else { s[i - 1] == 13u8 })
}

pub proof fn lemma_canon_len(s: Seq<u8>, p: bool)
    ensures canon(s, p).len() >= s.len(),
    decreases s.len()
{
    if s.len() > 0 {
        lemma_canon_len(s.skip(1), s[0] == 13u8);
    }
}

/// canon(s,p) is empty only for empty s
pub proof fn lemma_canon_empty(s: Seq<u8>, p: bool)
    ensures (canon(s, p).len() == 0) == (s.len() == 0),
{
    lemma_canon_len(s, p);
}

/// the fixed points of canon are exactly the texts without a bare LF
pub proof fn lemma_crlf_ok_iff_fixed(s: Seq<u8>, p: bool)
    ensures crlf_ok(s, p) <==> canon(s, p) == s,
    decreases s.len()
{
    if s.len() == 0 {
        assert(canon(s, p) =~= s);
    } else {
        let c = s[0];
        let t = s.skip(1);
        let q = c == 13u8;
        lemma_crlf_ok_iff_fixed(t, q);
        lemma_canon_len(t, q);
        assert(s =~= seq![c] + t);
        if c == 10u8 && !p {
            // expanded: strictly longer, and index 0 violates crlf_ok
            assert(canon(s, p) == seq![13u8, 10u8] + canon(t, q));
            assert(canon(s, p).len() > s.len());
            assert(s[0] == 10u8);
            assert(!crlf_ok(s, p));
        } else {
            assert(canon(s, p) == seq![c] + canon(t, q));
            // canon(s,p) == s  <==>  canon(t,q) == t
            if canon(t, q) == t {
                assert(canon(s, p) =~= s);
            }
            if canon(s, p) == s {
                assert(canon(t, q) =~= canon(s, p).skip(1));
            }
            // crlf_ok(s,p) <==> crlf_ok(t,q)
            if crlf_ok(s, p) {
                assert forall|i: int| 0 <= i < t.len() && #[trigger] t[i] == 10u8 implies (if i == 0 { q } else { t[i - 1] == 13u8 }) by {
                    assert(s[i + 1] == 10u8);
                }
                assert(crlf_ok(t, q));
            }
            if crlf_ok(t, q) {
                assert forall|i: int| 0 <= i < s.len() && #[trigger] s[i] == 10u8 implies (if i == 0 { p } else { s[i - 1] == 13u8 }) by {
                    if i > 0 { assert(t[i - 1] == 10u8); }
                }
                assert(crlf_ok(s, p));
            }
            assert(crlf_ok(s, p) <==> crlf_ok(t, q));
            assert((canon(s, p) == s) <==> (canon(t, q) == t));
        }
    }
}

/// crlf_ok distributes over chunking with the one-bit state of L4
pub proof fn lemma_crlf_ok_concat(a: Seq<u8>, b: Seq<u8>, p: bool)
    ensures crlf_ok(a + b, p) <==> (crlf_ok(a, p) && crlf_ok(b, end_cr(a, p))),
{
    lemma_canon_concat(a, b, p);
    lemma_crlf_ok_iff_fixed(a + b, p);
    lemma_crlf_ok_iff_fixed(a, p);
    lemma_crlf_ok_iff_fixed(b, end_cr(a, p));
    lemma_canon_len(a, p);
    lemma_canon_len(b, end_cr(a, p));
    let ca = canon(a, p);
    let cb = canon(b, end_cr(a, p));
    if ca + cb == a + b {
        // lengths force |ca| == |a|, then split
        assert(ca.len() + cb.len() == a.len() + b.len());
        assert(ca =~= (ca + cb).subrange(0, a.len() as int));
        assert(a =~= (a + b).subrange(0, a.len() as int));
        assert(cb =~= (ca + cb).subrange(a.len() as int, (a + b).len() as int));
        assert(b =~= (a + b).subrange(a.len() as int, (a + b).len() as int));
    }
}

/// a stream delivered as a sequence of chunks
pub open spec fn flatten(chunks: Seq<Seq<u8>>) -> Seq<u8>
    decreases chunks.len()
{
    if chunks.len() == 0 { Seq::<u8>::empty() } else { chunks[0] + flatten(chunks.skip(1)) }
}

/// every chunk passes the per-chunk check, the state bit being carried from chunk to chunk
/// exactly as `CrLfCheckReader::read` does (unchanged by an empty chunk)
pub open spec fn all_chunks_ok(chunks: Seq<Seq<u8>>, p: bool) -> bool
    decreases chunks.len()
{
    if chunks.len() == 0 { true } else { crlf_ok(chunks[0], p) && all_chunks_ok(chunks.skip(1), end_cr(chunks[0], p)) }
}

/// over ANY chunking of a stream: all reads succeed <==> the stream is canonical
pub proof fn lemma_chunks_ok_iff_canonical(chunks: Seq<Seq<u8>>, p: bool)
    ensures all_chunks_ok(chunks, p) <==> canon(flatten(chunks), p) == flatten(chunks),
    decreases chunks.len()
{
    if chunks.len() == 0 {
    } else {
        let a = chunks[0];
        let rest = chunks.skip(1);
        lemma_chunks_ok_iff_canonical(rest, end_cr(a, p));
        lemma_crlf_ok_concat(a, flatten(rest), p);
        lemma_crlf_ok_iff_fixed(a + flatten(rest), p);
        lemma_crlf_ok_iff_fixed(flatten(rest), end_cr(a, p));
    }
}
