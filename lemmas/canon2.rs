// ---------------------------------------------------------------------------------
// lemmas/canon2.rs - further facts about canon() of lemmas/canon.rs (include that first).
//   * crlf_ok: "no LF that is not preceded by CR" as a pointwise predicate, and
//     crlf_ok(s,p) <==> canon(s,p) == s                      (the fixed points of canon)
//   * chunked streams: all chunks are accepted (state carried in one bit) <==> the whole
//     stream is a fixed point of canon
//   * replace_nl: "every CRLF or lone LF becomes `rep`", the reading of
//     `replace_newlines`; replace_nl(s, CRLF) == canon(s, false)
// Pure spec + proof; no repository code.
// ---------------------------------------------------------------------------------

/// every LF in s is preceded by a CR (p: the byte before s is a CR)
pub open spec fn crlf_ok(s: Seq<u8>, p: bool) -> bool {
    forall|i: int| 0 <= i < s.len() && #[trigger] s[i] == 10u8 ==> (if i == 0 { p } else { s[i - 1] == 13u8 })
}

pub proof fn lemma_canon_len(s: Seq<u8>, p: bool)
    ensures canon(s, p).len() >= s.len(),
    decreases s.len()
{
    if s.len() > 0 {
        lemma_canon_len(s.skip(1), s[0] == 13u8);
    }
}

/// canon(s,p) is empty only for empty s
pub proof fn lemma_canon_empty(s: Seq<u8>, p: bool)
    ensures (canon(s, p).len() == 0) == (s.len() == 0),
{
    lemma_canon_len(s, p);
}

/// the fixed points of canon are exactly the texts without a bare LF
pub proof fn lemma_crlf_ok_iff_fixed(s: Seq<u8>, p: bool)
    ensures crlf_ok(s, p) <==> canon(s, p) == s,
    decreases s.len()
{
    if s.len() == 0 {
        assert(canon(s, p) =~= s);
    } else {
        let c = s[0];
        let t = s.skip(1);
        let q = c == 13u8;
        lemma_crlf_ok_iff_fixed(t, q);
        lemma_canon_len(t, q);
        assert(s =~= seq![c] + t);
        if c == 10u8 && !p {
            // expanded: strictly longer, and index 0 violates crlf_ok
            assert(canon(s, p) == seq![13u8, 10u8] + canon(t, q));
            assert(canon(s, p).len() > s.len());
            assert(s[0] == 10u8);
            assert(!crlf_ok(s, p));
        } else {
            assert(canon(s, p) == seq![c] + canon(t, q));
            // canon(s,p) == s  <==>  canon(t,q) == t
            if canon(t, q) == t {
                assert(canon(s, p) =~= s);
            }
            if canon(s, p) == s {
                assert(canon(t, q) =~= canon(s, p).skip(1));
            }
            // crlf_ok(s,p) <==> crlf_ok(t,q)
            if crlf_ok(s, p) {
                assert forall|i: int| 0 <= i < t.len() && #[trigger] t[i] == 10u8 implies (if i == 0 { q } else { t[i - 1] == 13u8 }) by {
                    assert(s[i + 1] == 10u8);
                }
                assert(crlf_ok(t, q));
            }
            if crlf_ok(t, q) {
                assert forall|i: int| 0 <= i < s.len() && #[trigger] s[i] == 10u8 implies (if i == 0 { p } else { s[i - 1] == 13u8 }) by {
                    if i > 0 { assert(t[i - 1] == 10u8); }
                }
                assert(crlf_ok(s, p));
            }
            assert(crlf_ok(s, p) <==> crlf_ok(t, q));
            assert((canon(s, p) == s) <==> (canon(t, q) == t));
        }
    }
}

/// crlf_ok distributes over chunking with the one-bit state of L4
pub proof fn lemma_crlf_ok_concat(a: Seq<u8>, b: Seq<u8>, p: bool)
    ensures crlf_ok(a + b, p) <==> (crlf_ok(a, p) && crlf_ok(b, end_cr(a, p))),
{
    lemma_canon_concat(a, b, p);
    lemma_crlf_ok_iff_fixed(a + b, p);
    lemma_crlf_ok_iff_fixed(a, p);
    lemma_crlf_ok_iff_fixed(b, end_cr(a, p));
    lemma_canon_len(a, p);
    lemma_canon_len(b, end_cr(a, p));
    let ca = canon(a, p);
    let cb = canon(b, end_cr(a, p));
    if ca + cb == a + b {
        // lengths force |ca| == |a|, then split
        assert(ca.len() + cb.len() == a.len() + b.len());
        assert(ca =~= (ca + cb).subrange(0, a.len() as int));
        assert(a =~= (a + b).subrange(0, a.len() as int));
        assert(cb =~= (ca + cb).subrange(a.len() as int, (a + b).len() as int));
        assert(b =~= (a + b).subrange(a.len() as int, (a + b).len() as int));
    }
}

/// a stream delivered as a sequence of chunks
pub open spec fn flatten(chunks: Seq<Seq<u8>>) -> Seq<u8>
    decreases chunks.len()
{
    if chunks.len() == 0 { Seq::<u8>::empty() } else { chunks[0] + flatten(chunks.skip(1)) }
}

/// every chunk passes the per-chunk check, the state bit being carried from chunk to chunk
/// exactly as `CrLfCheckReader::read` does (unchanged by an empty chunk)
pub open spec fn all_chunks_ok(chunks: Seq<Seq<u8>>, p: bool) -> bool
    decreases chunks.len()
{
    if chunks.len() == 0 { true } else { crlf_ok(chunks[0], p) && all_chunks_ok(chunks.skip(1), end_cr(chunks[0], p)) }
}

/// over ANY chunking of a stream: all reads succeed <==> the stream is canonical
pub proof fn lemma_chunks_ok_iff_canonical(chunks: Seq<Seq<u8>>, p: bool)
    ensures all_chunks_ok(chunks, p) <==> canon(flatten(chunks), p) == flatten(chunks),
    decreases chunks.len()
{
    if chunks.len() == 0 {
    } else {
        let a = chunks[0];
        let rest = chunks.skip(1);
        lemma_chunks_ok_iff_canonical(rest, end_cr(a, p));
        lemma_crlf_ok_concat(a, flatten(rest), p);
        lemma_crlf_ok_iff_fixed(a + flatten(rest), p);
        lemma_crlf_ok_iff_fixed(flatten(rest), end_cr(a, p));
    }
}

// ---------------------------------------------------------------------------------
// replace_nl: the reading of `replace_newlines(input, replacement)`:
// scanning left to right, every "\r\n" and every other "\n" is replaced by `rep`,
// all other bytes (including lone "\r") are copied.
// ---------------------------------------------------------------------------------
pub open spec fn replace_nl(s: Seq<u8>, rep: Seq<u8>) -> Seq<u8>
    decreases s.len()
{
    if s.len() == 0 {
        Seq::<u8>::empty()
    } else if s[0] == 10u8 {
        rep + replace_nl(s.skip(1), rep)
    } else if s[0] == 13u8 && s.len() >= 2 && s[1] == 10u8 {
        rep + replace_nl(s.skip(2), rep)
    } else {
        seq![s[0]] + replace_nl(s.skip(1), rep)
    }
}

/// with the replacement CRLF, replace_nl IS the canonical form of C14
pub proof fn lemma_replace_crlf_is_canon(s: Seq<u8>)
    ensures replace_nl(s, seq![13u8, 10u8]) == canon(s, false),
    decreases s.len()
{
    let rep = seq![13u8, 10u8];
    if s.len() == 0 {
    } else if s[0] == 10u8 {
        lemma_replace_crlf_is_canon(s.skip(1));
    } else if s[0] == 13u8 && s.len() >= 2 && s[1] == 10u8 {
        lemma_replace_crlf_is_canon(s.skip(2));
        let t = s.skip(1);
        assert(t[0] == 10u8);
        assert(t.skip(1) =~= s.skip(2));
        assert(canon(t, true) == seq![10u8] + canon(s.skip(2), false));
        assert(canon(s, false) == seq![13u8] + canon(t, true));
        assert(seq![13u8] + (seq![10u8] + canon(s.skip(2), false)) =~= rep + canon(s.skip(2), false));
    } else {
        lemma_replace_crlf_is_canon(s.skip(1));
        let t = s.skip(1);
        if s[0] == 13u8 {
            if t.len() > 0 { assert(t[0] == s[1]); }
            lemma_canon_state_irrelevant(t, true, false);
        }
    }
}

/// replace_nl distributes over a split that does not cut a CR LF pair
pub proof fn lemma_replace_concat(a: Seq<u8>, b: Seq<u8>, rep: Seq<u8>)
    requires !(a.len() > 0 && a.last() == 13u8 && b.len() > 0 && b[0] == 10u8),
    ensures replace_nl(a + b, rep) == replace_nl(a, rep) + replace_nl(b, rep),
    decreases a.len()
{
    let s = a + b;
    if a.len() == 0 {
        assert(s =~= b);
        assert(replace_nl(a, rep) + replace_nl(b, rep) =~= replace_nl(b, rep));
    } else if a[0] == 10u8 {
        let a1 = a.skip(1);
        assert(s[0] == 10u8);
        assert(s.skip(1) =~= a1 + b);
        if a1.len() > 0 { assert(a1.last() == a.last()); }
        lemma_replace_concat(a1, b, rep);
        assert(rep + (replace_nl(a1, rep) + replace_nl(b, rep)) =~= (rep + replace_nl(a1, rep)) + replace_nl(b, rep));
    } else if a[0] == 13u8 && a.len() >= 2 && a[1] == 10u8 {
        let a2 = a.skip(2);
        assert(s[0] == 13u8 && s[1] == 10u8);
        assert(s.skip(2) =~= a2 + b);
        if a2.len() > 0 { assert(a2.last() == a.last()); }
        lemma_replace_concat(a2, b, rep);
        assert(rep + (replace_nl(a2, rep) + replace_nl(b, rep)) =~= (rep + replace_nl(a2, rep)) + replace_nl(b, rep));
    } else {
        let a1 = a.skip(1);
        assert(s[0] == a[0]);
        assert(s.skip(1) =~= a1 + b);
        if a.len() >= 2 { assert(s[1] == a[1]); } else { assert(a.last() == a[0]); if b.len() > 0 { assert(s[1] == b[0]); } }
        if a1.len() > 0 { assert(a1.last() == a.last()); }
        lemma_replace_concat(a1, b, rep);
        assert(seq![a[0]] + (replace_nl(a1, rep) + replace_nl(b, rep)) =~= (seq![a[0]] + replace_nl(a1, rep)) + replace_nl(b, rep));
    }
}

/// a non-empty text has a non-empty image (for a non-empty replacement)
pub proof fn lemma_replace_nonempty(s: Seq<u8>, rep: Seq<u8>)
    requires s.len() > 0, rep.len() > 0,
    ensures replace_nl(s, rep).len() > 0,
{
}

/// a CR that is not followed by LF is copied
pub proof fn lemma_replace_cr_head(b: Seq<u8>, rep: Seq<u8>)
    requires b.len() == 0 || b[0] != 10u8,
    ensures replace_nl(seq![13u8] + b, rep) == seq![13u8] + replace_nl(b, rep),
{
    let s = seq![13u8] + b;
    assert(s[0] == 13u8);
    if b.len() > 0 { assert(s[1] == b[0]); }
    assert(s.skip(1) =~= b);
}

/// CR LF becomes the replacement
pub proof fn lemma_replace_crlf_head(b: Seq<u8>, rep: Seq<u8>)
    ensures replace_nl(seq![13u8, 10u8] + b, rep) == rep + replace_nl(b, rep),
{
    let s = seq![13u8, 10u8] + b;
    assert(s[0] == 13u8 && s[1] == 10u8);
    assert(s.skip(2) =~= b);
}

/// text without LF is copied
pub proof fn lemma_replace_no_lf(s: Seq<u8>, rep: Seq<u8>)
    requires no_lf(s),
    ensures replace_nl(s, rep) == s,
    decreases s.len()
{
    if s.len() == 0 {
        assert(replace_nl(s, rep) =~= s);
    } else {
        assert(s[0] != 10u8);
        if s.len() >= 2 { assert(s[1] != 10u8); }
        assert(no_lf(s.skip(1))) by {
            assert forall|i: int| 0 <= i < s.skip(1).len() implies s.skip(1)[i] != 10u8 by { assert(s.skip(1)[i] == s[i + 1]); }
        }
        lemma_replace_no_lf(s.skip(1), rep);
        assert(seq![s[0]] + s.skip(1) =~= s);
    }
}

/// one step of the scan in `replace_newlines`: after an already processed prefix `pre` (empty or ending in LF,
/// in any case not ending in CR) comes a line body without LF, then CR LF (`cr`) or a lone LF (`!cr`)
pub proof fn lemma_replace_segment(pre: Seq<u8>, body: Seq<u8>, cr: bool, rep: Seq<u8>)
    requires
        no_lf(body),
        pre.len() == 0 || pre.last() != 13u8,
        !cr ==> (body.len() == 0 || body.last() != 13u8),
    ensures
        replace_nl(pre + body + (if cr { seq![13u8, 10u8] } else { seq![10u8] }), rep) == replace_nl(pre, rep) + body + rep,
{
    let sep = if cr { seq![13u8, 10u8] } else { seq![10u8] };
    // replace_nl(sep) == rep
    if cr {
        lemma_replace_crlf_head(Seq::<u8>::empty(), rep);
        assert(seq![13u8, 10u8] + Seq::<u8>::empty() =~= seq![13u8, 10u8]);
    } else {
        assert(sep.skip(1) =~= Seq::<u8>::empty());
    }
    assert(replace_nl(Seq::<u8>::empty(), rep) =~= Seq::<u8>::empty());
    assert(rep + Seq::<u8>::empty() =~= rep);
    assert(replace_nl(sep, rep) == rep);
    // body + sep
    lemma_replace_no_lf(body, rep);
    lemma_replace_concat(body, sep, rep);
    // pre + (body + sep)
    let seg = body + sep;
    if body.len() > 0 { assert(seg[0] == body[0]); assert(body[0] != 10u8); } else { assert(seg[0] == sep[0]); }
    lemma_replace_concat(pre, seg, rep);
    assert(pre + body + sep =~= pre + seg);
    assert(replace_nl(pre, rep) + (body + rep) =~= replace_nl(pre, rep) + body + rep);
}

/// the rest of the input after the last LF is copied
pub proof fn lemma_replace_tail(pre: Seq<u8>, tail: Seq<u8>, rep: Seq<u8>)
    requires no_lf(tail),
    ensures replace_nl(pre + tail, rep) == replace_nl(pre, rep) + tail,
{
    if tail.len() > 0 { assert(tail[0] != 10u8); }
    lemma_replace_concat(pre, tail, rep);
    lemma_replace_no_lf(tail, rep);
}
