// ---------------------------------------------------------------------------------
// lemmas/keygen_rules.rs - RFC 9580 9.1 tables for the key types of composed::KeyType (units U95b, U95d): which algorithms sign /
// encrypt, their algorithm IDs, and the per-key rule of SecretKeyParamsBuilder::validate.  Pure specification.  Include after the
// extraction of the REAL KeyType, EncryptionCaps, ECCCurve, PublicKeyAlgorithm, inside verus!{}.
// ---------------------------------------------------------------------------------
/// RFC 9580 9.1, column "Public Key Format / Signature Format": the algorithm can make signatures
/// (RSA 1, DSA 17, ECDSA 19, EdDSALegacy 22, Ed25519 27, Ed448 28; draft-pqc: ML-DSA+EdDSA 30/31, SLH-DSA 32..34)
pub open spec fn alg_signs(kt: KeyType) -> bool {
    match kt {
        KeyType::Rsa(_) | KeyType::Dsa(_) | KeyType::ECDSA(_) | KeyType::Ed25519Legacy | KeyType::Ed25519 | KeyType::Ed448 => true,
        KeyType::MlDsa65Ed25519 | KeyType::MlDsa87Ed448 | KeyType::SlhDsaShake128s | KeyType::SlhDsaShake128f | KeyType::SlhDsaShake256s => true,
        KeyType::ECDH(_) | KeyType::X25519 | KeyType::X448 | KeyType::MlKem768X25519 | KeyType::MlKem1024X448 => false,
    }
}
/// RFC 9580 9.1, column "PKESK Format": the algorithm can encrypt (RSA 1, ECDH 18, X25519 25, X448 26; draft-pqc: ML-KEM+X 35/36)
pub open spec fn alg_encrypts(kt: KeyType) -> bool {
    match kt {
        KeyType::Rsa(_) | KeyType::ECDH(_) | KeyType::X25519 | KeyType::X448 | KeyType::MlKem768X25519 | KeyType::MlKem1024X448 => true,
        _ => false,
    }
}
/// RFC 9580 9.1: algorithm ID of a key type
pub open spec fn alg_of(kt: KeyType) -> PublicKeyAlgorithm {
    match kt {
        KeyType::Rsa(_) => PublicKeyAlgorithm::RSA,
        KeyType::ECDH(_) => PublicKeyAlgorithm::ECDH,
        KeyType::Ed25519Legacy => PublicKeyAlgorithm::EdDSALegacy,
        KeyType::ECDSA(_) => PublicKeyAlgorithm::ECDSA,
        KeyType::Dsa(_) => PublicKeyAlgorithm::DSA,
        KeyType::Ed25519 => PublicKeyAlgorithm::Ed25519,
        KeyType::Ed448 => PublicKeyAlgorithm::Ed448,
        KeyType::X25519 => PublicKeyAlgorithm::X25519,
        KeyType::X448 => PublicKeyAlgorithm::X448,
        KeyType::MlKem768X25519 => PublicKeyAlgorithm::MlKem768X25519,
        KeyType::MlKem1024X448 => PublicKeyAlgorithm::MlKem1024X448,
        KeyType::MlDsa65Ed25519 => PublicKeyAlgorithm::MlDsa65Ed25519,
        KeyType::MlDsa87Ed448 => PublicKeyAlgorithm::MlDsa87Ed448,
        KeyType::SlhDsaShake128s => PublicKeyAlgorithm::SlhDsaShake128s,
        KeyType::SlhDsaShake128f => PublicKeyAlgorithm::SlhDsaShake128f,
        KeyType::SlhDsaShake256s => PublicKeyAlgorithm::SlhDsaShake256s,
    }
}
/// one key (primary or subkey) asks for nothing its algorithm cannot do, and for no parameters the library calls insecure/unsupported
/// (builder.rs: "Keys with less than 2048bits are considered insecure"; RFC 9580 9.2: ECDSA curves P-256, P-384, P-521 [+ secp256k1, supported by the library])
pub open spec fn keytype_rule(kt: KeyType, can_sign: bool, can_encrypt: EncryptionCaps, can_authenticate: bool) -> bool {
    &&& can_sign ==> alg_signs(kt)
    &&& !(can_encrypt is None) ==> alg_encrypts(kt)
    &&& can_authenticate ==> alg_signs(kt)
    &&& kt matches KeyType::Rsa(bits) ==> bits >= 2048
    &&& kt matches KeyType::ECDSA(c) ==> (c is P256 || c is P384 || c is P521 || c is Secp256k1)
}
