// ---------------------------------------------------------------------------------
// lemmas/tags.rs - RFC 9580 section 5: the Packet Type ID of every variant of the (extracted) enum
// `Tag` of src/types/packet.rs.  Include after the extracted `enum Tag` and its four payload structs
// (UnassignedCriticalTag, UnassignedNonCriticalTag, ExperimentalTag, InvalidTag).
// ---------------------------------------------------------------------------------
/// RFC 9580 section 5, table of packet type IDs (the payload-carrying variants hold their ID)
pub closed spec fn tag_id(t: Tag) -> u8 {
    match t {
        Tag::PublicKeyEncryptedSessionKey => 1,
        Tag::Signature => 2,
        Tag::SymKeyEncryptedSessionKey => 3,
        Tag::OnePassSignature => 4,
        Tag::SecretKey => 5,
        Tag::PublicKey => 6,
        Tag::SecretSubkey => 7,
        Tag::CompressedData => 8,
        Tag::SymEncryptedData => 9,
        Tag::Marker => 10,
        Tag::LiteralData => 11,
        Tag::Trust => 12,
        Tag::UserId => 13,
        Tag::PublicSubkey => 14,
        Tag::UserAttribute => 17,
        Tag::SymEncryptedProtectedData => 18,
        Tag::ModDetectionCode => 19,
        Tag::GnupgAeadData => 20,
        Tag::Padding => 21,
        Tag::UnassignedCritical(x) => if 22 <= x.0 <= 39 { x.0 } else { 22 },
        Tag::UnassignedNonCritical(x) => if 40 <= x.0 <= 59 { x.0 } else { 40 },
        Tag::Experimental(x) => if 60 <= x.0 <= 63 { x.0 } else { 60 },
        Tag::Invalid(x) => if x.0 == 15 || x.0 == 16 { x.0 } else { 0 },
    }
}
