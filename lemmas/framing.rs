// ---------------------------------------------------------------------------------
// lemmas/framing.rs - RFC 9580 section 4.2 as an executable-free oracle.
//
// Packet length and packet header wire codecs written down from the RFC text, in plain
// integer arithmetic (no shifts / masks), independently of rpgp's code.  Include AFTER
// `use vstd::prelude::*;`, inside verus!{}, and after the 3-variant datatype
//     enum PacketLength { Fixed(u32), Indeterminate, Partial(u32) }
// is in scope (units extract it verbatim from src/types/packet.rs; it carries no code).
//
//   4.2.1  OpenPGP ("new") format:  first octet 0b11tttttt, then
//     4.2.1.1  one octet  o < 192                     : len = o
//     4.2.1.2  two octets 192 <= o1 < 224             : len = ((o1 - 192) << 8) + o2 + 192   (192..8383)
//     4.2.1.3  five octets 0xFF b3 b2 b1 b0           : len = big endian u32
//     4.2.1.4  partial    224 <= o < 255              : len = 1 << (o & 0x1F)  (2^0 .. 2^30), more follows
//   4.2.2  Legacy ("old") format:  first octet 0b10ttttll, length-type ll:
//            0: one octet, 1: two octets BE, 2: four octets BE, 3: indeterminate (no octets)
//   Bit 7 of the first octet is always one; bit 6 selects the format.
// ---------------------------------------------------------------------------------
use vstd::arithmetic::power2::{pow2, lemma2_to64, lemma_pow2_unfold, lemma_pow2_pos, lemma_pow2_strictly_increases};

// ---- big endian numbers, arithmetically --------------------------------------------
pub open spec fn be16a(n: nat) -> Seq<u8> { seq![((n / 256) % 256) as u8, (n % 256) as u8] }
pub open spec fn be32a(n: nat) -> Seq<u8> {
    seq![((n / 16777216) % 256) as u8, ((n / 65536) % 256) as u8, ((n / 256) % 256) as u8, (n % 256) as u8]
}
pub open spec fn val16(s: Seq<u8>) -> nat { (s[0] as nat) * 256 + (s[1] as nat) }
pub open spec fn val32(s: Seq<u8>) -> nat {
    (s[0] as nat) * 16777216 + (s[1] as nat) * 65536 + (s[2] as nat) * 256 + (s[3] as nat)
}

/// (q*m + r) div/mod m, r < m  (the only arithmetic fact the big-endian lemmas need; proved once, in isolation)
pub proof fn lemma_split(q: nat, r: nat, m: nat)
    requires r < m
    ensures (q * m + r) / m == q, (q * m + r) % m == r
{
    vstd::arithmetic::div_mod::lemma_fundamental_div_mod_converse((q * m + r) as int, m as int, q as int, r as int);
}
/// n == (n / m) * m + n % m
pub proof fn lemma_unsplit(n: nat, m: nat)
    requires m > 0
    ensures n == (n / m) * m + n % m, n % m < m
{
    vstd::arithmetic::div_mod::lemma_fundamental_div_mod(n as int, m as int);
    vstd::arithmetic::div_mod::lemma_mod_bound(n as int, m as int);
    assert((n / m) * m == m * (n / m)) by (nonlinear_arith);
}

pub proof fn lemma_val16_be16a(n: nat)
    requires n < 65536
    ensures val16(be16a(n)) == n, be16a(n).len() == 2
{
    lemma_unsplit(n, 256);
    let hi = n / 256;
    assert(hi < 256);
    assert(hi % 256 == hi) by { lemma_split(0, hi, 256); }
    assert(be16a(n)[0] == hi as u8 && be16a(n)[1] == (n % 256) as u8);
}
pub proof fn lemma_val32_be32a(n: nat)
    requires n < 4294967296
    ensures val32(be32a(n)) == n, be32a(n).len() == 4
{
    let n1 = n / 256; let n2 = n1 / 256; let n3 = n2 / 256;
    lemma_unsplit(n, 256); lemma_unsplit(n1, 256); lemma_unsplit(n2, 256);
    vstd::arithmetic::div_mod::lemma_div_denominator(n as int, 256, 256);
    vstd::arithmetic::div_mod::lemma_div_denominator(n as int, 65536, 256);
    assert(n / 65536 == n2);
    assert(n / 16777216 == n3);
    assert(n3 < 256);
    assert(n3 % 256 == n3) by { lemma_split(0, n3, 256); }
    let e = be32a(n);
    assert(e[0] == n3 as u8 && e[1] == (n2 % 256) as u8 && e[2] == (n1 % 256) as u8 && e[3] == (n % 256) as u8);
    assert(n == n3 * 16777216 + (n2 % 256) * 65536 + (n1 % 256) * 256 + n % 256);
}
pub proof fn lemma_be16a_val16(s: Seq<u8>)
    requires s.len() == 2
    ensures be16a(val16(s)) =~= s, val16(s) < 65536
{
    let a = s[0] as nat; let b = s[1] as nat;
    lemma_split(a, b, 256);
    lemma_split(0, a, 256);
    assert(val16(s) == a * 256 + b);
}
pub proof fn lemma_be32a_val32(s: Seq<u8>)
    requires s.len() == 4
    ensures be32a(val32(s)) =~= s, val32(s) < 4294967296
{
    let a = s[0] as nat; let b = s[1] as nat; let c = s[2] as nat; let d = s[3] as nat;
    let n = val32(s);
    assert(n == a * 16777216 + b * 65536 + c * 256 + d);
    assert(n == (a * 65536 + b * 256 + c) * 256 + d);
    assert(n == (a * 256 + b) * 65536 + (c * 256 + d));
    lemma_split(a * 65536 + b * 256 + c, d, 256);
    lemma_split(a * 256 + b, c * 256 + d, 65536);
    lemma_split(a, b * 65536 + c * 256 + d, 16777216);
    assert(n / 256 == a * 65536 + b * 256 + c && n % 256 == d);
    assert(n / 65536 == a * 256 + b);
    assert(n / 16777216 == a);
    assert(n / 256 == (a * 256 + b) * 256 + c);
    lemma_split(a * 256 + b, c, 256);
    lemma_split(a, b, 256);
    lemma_split(0, a, 256);
    let e = be32a(n);
    assert(e[0] == s[0] && e[1] == s[1] && e[2] == s[2] && e[3] == s[3]);
}

// ---- floor(log2 n) -------------------------------------------------------------------
pub open spec fn ilog2(n: nat) -> nat decreases n { if n <= 1 { 0 } else { 1 + ilog2(n / 2) } }

pub proof fn lemma_ilog2_pow2(k: nat)
    ensures ilog2(pow2(k)) == k
    decreases k
{
    lemma_pow2_pos(k);
    if k == 0 {
        lemma2_to64();
    } else {
        lemma_pow2_unfold(k);
        lemma_pow2_pos((k - 1) as nat);
        assert(pow2(k) / 2 == pow2((k - 1) as nat));
        lemma_ilog2_pow2((k - 1) as nat);
    }
}

/// 2^k for k <= 31 fits a u32; the table of values
pub proof fn lemma_pow2_u32(k: nat)
    requires k <= 31
    ensures 1 <= pow2(k) <= 0x8000_0000, k <= 30 ==> pow2(k) <= 0x4000_0000
{
    lemma2_to64();
    if k < 31 { lemma_pow2_strictly_increases(k, 31); }
    if k < 30 { lemma_pow2_strictly_increases(k, 30); }
    lemma_pow2_pos(k);
}

// ---- 4.2.1: new-format body lengths ------------------------------------------------------
/// A partial body length is 2^k with 0 <= k <= 30 (octets 224..254).
pub open spec fn partial_ok(n: u32) -> bool { exists|k: nat| k <= 30 && n as nat == #[trigger] pow2(k) }

/// the lengths that exist in the new format
pub open spec fn new_len_ok(l: PacketLength) -> bool {
    match l {
        PacketLength::Fixed(_) => true,
        PacketLength::Indeterminate => false,
        PacketLength::Partial(n) => partial_ok(n),
    }
}

pub open spec fn enc_len(l: PacketLength) -> Seq<u8> {
    match l {
        PacketLength::Fixed(n) =>
            if n < 192 { seq![n as u8] }
            else if n < 8384 { seq![((n - 192) / 256 + 192) as u8, ((n - 192) % 256) as u8] }
            else { seq![255u8] + be32a(n as nat) },
        PacketLength::Partial(n) => seq![(224 + ilog2(n as nat)) as u8],
        // does not exist in the new format (new_len_ok is false)
        PacketLength::Indeterminate => Seq::<u8>::empty(),
    }
}

/// number of octets of a fixed new-format length
pub open spec fn fixed_len_octets(n: u32) -> nat { if n < 192 { 1 } else if n < 8384 { 2 } else { 5 } }

pub open spec fn dec_len(s: Seq<u8>) -> Option<(PacketLength, nat)> {
    if s.len() < 1 { None } else {
        let o = s[0];
        if o < 192 { Some((PacketLength::Fixed(o as u32), 1nat)) }
        else if o < 224 {
            if s.len() < 2 { None }
            else { Some((PacketLength::Fixed(((o - 192) * 256 + s[1] + 192) as u32), 2nat)) }
        }
        else if o < 255 { Some((PacketLength::Partial(pow2((o - 224) as nat) as u32), 1nat)) }
        else if s.len() < 5 { None }
        else { Some((PacketLength::Fixed(val32(s.subrange(1, 5)) as u32), 5nat)) }
    }
}

pub proof fn lemma_enc_len_fixed_size(n: u32)
    ensures enc_len(PacketLength::Fixed(n)).len() == fixed_len_octets(n)
{}

pub proof fn lemma_len_roundtrip_fixed(n: u32, t: Seq<u8>)
    ensures dec_len(enc_len(PacketLength::Fixed(n)) + t) == Some((PacketLength::Fixed(n), enc_len(PacketLength::Fixed(n)).len()))
{
    let e = enc_len(PacketLength::Fixed(n));
    let s = e + t;
    if n < 192 {
        assert(s[0] == n as u8);
    } else if n < 8384 {
        assert(s[0] == e[0] && s[1] == e[1]);
        let o = s[0];
        assert(192 <= o < 224);
        assert((o - 192) * 256 + s[1] + 192 == n);
    } else {
        lemma_val32_be32a(n as nat);
        assert(s[0] == 255u8);
        assert(s.subrange(1, 5) =~= be32a(n as nat));
    }
}

pub proof fn lemma_len_roundtrip_partial(k: nat, t: Seq<u8>)
    requires k <= 30
    ensures
        partial_ok(pow2(k) as u32),
        dec_len(enc_len(PacketLength::Partial(pow2(k) as u32)) + t) == Some((PacketLength::Partial(pow2(k) as u32), 1nat)),
        enc_len(PacketLength::Partial(pow2(k) as u32)) == seq![(224 + k) as u8],
{
    lemma_pow2_u32(k);
    lemma_ilog2_pow2(k);
    let n = pow2(k) as u32;
    assert(n as nat == pow2(k));
    let e = enc_len(PacketLength::Partial(n));
    assert(e =~= seq![(224 + k) as u8]);
    let s = e + t;
    assert(s[0] == (224 + k) as u8);
    assert(((224 + k) as u8 - 224) as nat == k);
}

/// every encodable new-format length round-trips through the wire, whatever follows
pub proof fn lemma_len_roundtrip(l: PacketLength, t: Seq<u8>)
    requires new_len_ok(l)
    ensures dec_len(enc_len(l) + t) == Some((l, enc_len(l).len())), 1 <= enc_len(l).len() <= 5
{
    match l {
        PacketLength::Fixed(n) => { lemma_len_roundtrip_fixed(n, t); }
        PacketLength::Partial(n) => {
            let k = choose|k: nat| k <= 30 && n as nat == #[trigger] pow2(k);
            lemma_len_roundtrip_partial(k, t);
        }
        PacketLength::Indeterminate => {}
    }
}

/// what the decoder yields is always a legal new-format length, and it only looks at the octets it consumes
pub proof fn lemma_dec_len_ok(s: Seq<u8>)
    ensures match dec_len(s) {
        Some((l, k)) => new_len_ok(l) && 1 <= k <= 5 && k <= s.len() && dec_len(s.subrange(0, k as int)) == dec_len(s),
        None => true }
{
    if s.len() >= 1 {
        let o = s[0];
        if 224 <= o < 255 {
            lemma_pow2_u32((o - 224) as nat);
            assert(partial_ok(pow2((o - 224) as nat) as u32));
        }
        match dec_len(s) {
            Some((l, k)) => {
                let p = s.subrange(0, k as int);
                assert(p[0] == s[0]);
                if k >= 2 { assert(p[1] == s[1]); }
                if k == 5 { assert(p.subrange(1, 5) =~= s.subrange(1, 5)); }
            }
            None => {}
        }
    }
}

/// canonical (= shortest) encodings re-encode to the identical octets
pub proof fn lemma_len_reencode(s: Seq<u8>)
    ensures match dec_len(s) {
        Some((l, k)) => enc_len(l).len() <= k && (enc_len(l).len() == k ==> enc_len(l) =~= s.subrange(0, k as int)),
        None => true }
{
    if s.len() >= 1 {
        let o = s[0];
        if o < 192 {
        } else if o < 224 {
            if s.len() >= 2 {
                let n = ((o - 192) * 256 + s[1] + 192) as u32;
                assert(192 <= n < 8384);
                assert((n - 192) / 256 + 192 == o);
                assert((n - 192) % 256 == s[1]);
            }
        } else if o < 255 {
            let k = (o - 224) as nat;
            lemma_pow2_u32(k);
            lemma_ilog2_pow2(k);
        } else if s.len() >= 5 {
            lemma_be32a_val32(s.subrange(1, 5));
            let n = val32(s.subrange(1, 5)) as u32;
            if n >= 8384 {
                assert(enc_len(PacketLength::Fixed(n)) =~= s.subrange(0, 5));
            }
        }
    }
}

// ---- 4.2: packet headers ----------------------------------------------------------------
/// A header as the RFC sees it.  `lt` is the legacy length-type (bits 1..0 of the first octet).
pub enum Hdr {
    New { tag: u8, len: PacketLength },
    Old { tag: u8, lt: u8, len: PacketLength },
}

pub open spec fn hdr_tag(h: Hdr) -> u8 { match h { Hdr::New { tag, len } => tag, Hdr::Old { tag, lt, len } => tag } }
pub open spec fn hdr_len(h: Hdr) -> PacketLength { match h { Hdr::New { tag, len } => len, Hdr::Old { tag, lt, len } => len } }

/// the minimal legacy length-type for a length
pub open spec fn old_canon_lt(l: PacketLength) -> u8 {
    match l {
        PacketLength::Fixed(n) => if n < 256 { 0u8 } else if n < 65536 { 1u8 } else { 2u8 },
        PacketLength::Indeterminate => 3u8,
        PacketLength::Partial(_) => 3u8,
    }
}

/// well-formed: the values fit their bit fields, the length kind exists in that format and (legacy)
/// the length fits the number of octets the length-type announces
pub open spec fn hdr_ok(h: Hdr) -> bool {
    match h {
        Hdr::New { tag, len } => tag < 64 && new_len_ok(len),
        Hdr::Old { tag, lt, len } => tag < 16 && lt < 4 && match len {
            PacketLength::Fixed(n) => lt == 0 && n < 256 || lt == 1 && n < 65536 || lt == 2,
            PacketLength::Indeterminate => lt == 3,
            PacketLength::Partial(_) => false,
        },
    }
}

pub open spec fn enc_hdr(h: Hdr) -> Seq<u8> {
    match h {
        Hdr::New { tag, len } => seq![(192 + tag) as u8] + enc_len(len),
        Hdr::Old { tag, lt, len } => seq![(128 + tag * 4 + lt) as u8] + (match len {
            PacketLength::Fixed(n) => if lt == 0 { seq![n as u8] } else if lt == 1 { be16a(n as nat) } else { be32a(n as nat) },
            _ => Seq::<u8>::empty(),
        }),
    }
}

pub open spec fn dec_hdr(s: Seq<u8>) -> Option<(Hdr, nat)> {
    if s.len() < 1 { None } else {
        let o = s[0];
        if o < 128 { None }                       // bit 7 clear: not a packet
        else if o >= 192 {                        // bit 6 set: OpenPGP format, tag = low 6 bits
            match dec_len(s.skip(1)) {
                Some((l, k)) => Some((Hdr::New { tag: (o - 192) as u8, len: l }, 1 + k)),
                None => None,
            }
        } else {                                  // legacy format, tag = bits 5..2, length-type = bits 1..0
            let tag = ((o - 128) / 4) as u8;
            let lt = ((o - 128) % 4) as u8;
            if lt == 0 { if s.len() < 2 { None } else { Some((Hdr::Old { tag, lt, len: PacketLength::Fixed(s[1] as u32) }, 2nat)) } }
            else if lt == 1 { if s.len() < 3 { None } else { Some((Hdr::Old { tag, lt, len: PacketLength::Fixed(val16(s.subrange(1, 3)) as u32) }, 3nat)) } }
            else if lt == 2 { if s.len() < 5 { None } else { Some((Hdr::Old { tag, lt, len: PacketLength::Fixed(val32(s.subrange(1, 5)) as u32) }, 5nat)) } }
            else { Some((Hdr::Old { tag, lt, len: PacketLength::Indeterminate }, 1nat)) }
        }
    }
}

pub proof fn lemma_hdr_roundtrip(h: Hdr, t: Seq<u8>)
    requires hdr_ok(h)
    ensures dec_hdr(enc_hdr(h) + t) == Some((h, enc_hdr(h).len())), 1 <= enc_hdr(h).len() <= 6
{
    let e = enc_hdr(h);
    let s = e + t;
    match h {
        Hdr::New { tag, len } => {
            lemma_len_roundtrip(len, t);
            assert(s[0] == (192 + tag) as u8);
            assert(s.skip(1) =~= enc_len(len) + t);
        }
        Hdr::Old { tag, lt, len } => {
            let o = s[0];
            assert(o == (128 + tag * 4 + lt) as u8);
            assert((o - 128) / 4 == tag && (o - 128) % 4 == lt);
            match len {
                PacketLength::Fixed(n) => {
                    if lt == 0 {
                        assert(s[1] == n as u8);
                    } else if lt == 1 {
                        lemma_val16_be16a(n as nat);
                        assert(s.subrange(1, 3) =~= be16a(n as nat));
                    } else {
                        lemma_val32_be32a(n as nat);
                        assert(s.subrange(1, 5) =~= be32a(n as nat));
                    }
                }
                _ => {}
            }
        }
    }
}

/// what the header decoder yields is well-formed and consumes what it says
pub proof fn lemma_dec_hdr_ok(s: Seq<u8>)
    ensures match dec_hdr(s) { Some((h, k)) => hdr_ok(h) && 1 <= k <= 6 && k <= s.len(), None => true }
{
    if s.len() >= 1 && s[0] >= 192 {
        lemma_dec_len_ok(s.skip(1));
    }
    if s.len() >= 1 && 128 <= s[0] < 192 {
        let lt = ((s[0] - 128) % 4) as u8;
        if lt == 1 && s.len() >= 3 { lemma_be16a_val16(s.subrange(1, 3)); }
        if lt == 2 && s.len() >= 5 { lemma_be32a_val32(s.subrange(1, 5)); }
    }
}

// ---- bridges from the arithmetic oracle to shift/mask big-endian of shims/io.rs ----------
pub proof fn lemma_be32_is_be32a(x: u32)
    ensures be32(x) =~= be32a(x as nat)
{
    assert(x >> 24 == (x / 16777216) % 256) by (bit_vector);
    assert((x >> 16) & 0xff == (x / 65536) % 256) by (bit_vector);
    assert((x >> 8) & 0xff == (x / 256) % 256) by (bit_vector);
    assert(x & 0xff == x % 256) by (bit_vector);
}
pub proof fn lemma_be16_is_be16a(x: u16)
    ensures be16(x) =~= be16a(x as nat)
{
    assert(x >> 8 == (x / 256) % 256) by (bit_vector);
    assert(x & 0xff == x % 256) by (bit_vector);
}
