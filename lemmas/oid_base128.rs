// ITU-T X.690 (08/2015) 8.19 "Encoding of an object identifier value", written from the text of the standard
// (not from src/crypto/ecc_curve.rs), plus the curve table of RFC 9580 9.2.  Pure spec + proved lemmas: nothing is trusted here.
//
// 8.19.2  "Each subidentifier is represented as a series of (one or more) octets. Bit 8 of each octet indicates whether it
//          is the last in the series: bit 8 of the last octet is zero; bit 8 of each preceding octet is one. Bits 7 to 1 of
//          the octets in the series collectively encode the subidentifier. Conceptually, these groups of bits are
//          concatenated to form an unsigned binary number whose most significant bit is bit 7 of the first octet and whose
//          least significant bit is bit 1 of the last octet. The subidentifier shall be encoded in the fewest possible
//          octets, that is, the leading octet of the subidentifier shall not have the value 0x80."
// 8.19.3  "The number of subidentifiers (N) shall be one less than the number of object identifier components."
// 8.19.4  "The numerical value of the first subidentifier is derived from the values of the first two object identifier
//          components [..] using the formula (X*40) + Y" (X in 0..2; Y in 0..39 when X is 0 or 1)
// 8.19.5  "The numerical value of the ith subidentifier, (2 <= i <= N) is that of the (i + 1)th object identifier component."

/// the octets that PRECEDE the last one, for the part of the number above the last 7 bits: the base-128 digits of `v`,
/// most significant first, each with bit 8 set; no octet at all for v == 0 (fewest possible octets)
pub open spec fn base128_head(v: nat) -> Seq<u8>
    decreases v
{
    if v == 0 { Seq::<u8>::empty() } else { base128_head(v / 128).push((128 + v % 128) as u8) }
}

/// 8.19.2, write direction: the series of octets of one subidentifier
pub open spec fn base128(v: nat) -> Seq<u8> {
    base128_head(v / 128).push((v % 128) as u8)
}

/// 8.19.2, read direction: bits 7..1 of the octets concatenated, most significant group first
pub open spec fn subid_val(s: Seq<u8>) -> nat
    decreases s.len()
{
    if s.len() == 0 { 0 } else { subid_val(s.drop_last()) * 128 + (s.last() as nat) % 128 }
}

/// 8.19.2, the shape of a series: bit 8 clear in the last octet, set in every preceding one, leading octet not 0x80
pub open spec fn subid_wf(s: Seq<u8>) -> bool {
    &&& s.len() >= 1
    &&& s.last() < 0x80
    &&& forall|i: int| 0 <= i < s.len() - 1 ==> #[trigger] s[i] >= 0x80
    &&& s[0] != 0x80
}

pub open spec fn p128(k: nat) -> nat
    decreases k
{
    if k == 0 { 1 } else { 128 * p128((k - 1) as nat) }
}

pub proof fn lemma_base128_head_props(v: nat)
    ensures
        subid_val(base128_head(v)) == v,
        forall|i: int| 0 <= i < base128_head(v).len() ==> #[trigger] base128_head(v)[i] >= 0x80,
        v > 0 ==> base128_head(v).len() >= 1 && base128_head(v)[0] != 0x80,
        v == 0 ==> base128_head(v).len() == 0,
    decreases v
{
    if v > 0 {
        lemma_base128_head_props(v / 128);
        let h = base128_head(v / 128);
        let d = (128 + v % 128) as u8;
        assert(base128_head(v) == h.push(d));
        assert(h.push(d).drop_last() =~= h);
        assert(h.push(d).last() == d);
        assert((d as nat) % 128 == v % 128);
        assert(subid_val(h.push(d)) == subid_val(h) * 128 + (d as nat) % 128);
        assert(v == (v / 128) * 128 + v % 128) by (nonlinear_arith);
        if v / 128 == 0 {
            assert(h.len() == 0);
            assert(h.push(d)[0] == d);
            assert(v % 128 == v);
            assert(d != 0x80);
        } else {
            assert(h.push(d)[0] == h[0]);
        }
        assert forall|i: int| 0 <= i < h.push(d).len() implies #[trigger] h.push(d)[i] >= 0x80 by {
            if i < h.len() { assert(h.push(d)[i] == h[i]); }
        }
    }
}

pub proof fn lemma_base128_head_len(v: nat, k: nat)
    requires v < p128(k)
    ensures base128_head(v).len() <= k
    decreases k
{
    if v > 0 {
        assert(k > 0);
        assert(v / 128 < p128((k - 1) as nat)) by (nonlinear_arith) requires v < 128 * p128((k - 1) as nat);
        lemma_base128_head_len(v / 128, (k - 1) as nat);
    }
}

/// everything 8.19.2 says about the encoding of v: well formed, minimal, decodes to v; at most 5 octets for a 32-bit value
pub proof fn lemma_base128_props(v: nat)
    ensures
        subid_wf(base128(v)),
        subid_val(base128(v)) == v,
        base128(v).len() >= 1,
        v <= 0xffff_ffff ==> base128(v).len() <= 5,
        v < 128 ==> base128(v) =~= seq![v as u8],
{
    let h = base128_head(v / 128);
    let d = (v % 128) as u8;
    lemma_base128_head_props(v / 128);
    assert(h.push(d).drop_last() =~= h);
    assert(h.push(d).last() == d);
    assert((d as nat) % 128 == v % 128);
    assert(v == (v / 128) * 128 + v % 128) by (nonlinear_arith);
    assert forall|i: int| 0 <= i < h.push(d).len() - 1 implies #[trigger] h.push(d)[i] >= 0x80 by {
        assert(h.push(d)[i] == h[i]);
    }
    if v / 128 == 0 {
        assert(h.push(d)[0] == d);
    } else {
        assert(h.push(d)[0] == h[0]);
    }
    if v <= 0xffff_ffff {
        reveal_with_fuel(p128, 5);
        assert(p128(4) == 268435456);
        assert(v / 128 < 268435456);
        lemma_base128_head_len(v / 128, 4);
    }
}

/// 8.19.2 read side: a well-formed series is THE encoding of its value (the encoding is unique: decode then encode is the identity)
pub proof fn lemma_subid_unique(s: Seq<u8>)
    requires subid_wf(s)
    ensures base128(subid_val(s)) =~= s
{
    let h = s.drop_last();
    lemma_head_unique(h);
    let d = s.last();
    assert((d as nat) % 128 == d);
    assert(subid_val(s) == subid_val(h) * 128 + d);
    assert((subid_val(h) * 128 + d) / 128 == subid_val(h)) by (nonlinear_arith) requires 0 <= d < 128;
    assert((subid_val(h) * 128 + d) % 128 == d) by (nonlinear_arith) requires 0 <= d < 128;
    assert(h.push(d) =~= s);
}

pub proof fn lemma_head_unique(h: Seq<u8>)
    requires
        forall|i: int| 0 <= i < h.len() ==> #[trigger] h[i] >= 0x80,
        h.len() > 0 ==> h[0] != 0x80,
    ensures
        base128_head(subid_val(h)) =~= h,
        h.len() > 0 ==> subid_val(h) > 0,
    decreases h.len()
{
    if h.len() > 0 {
        let g = h.drop_last();
        let d = h.last();
        assert(d >= 0x80);
        let m = (d - 128) as nat;
        assert((d as nat) % 128 == m);
        assert forall|i: int| 0 <= i < g.len() implies #[trigger] g[i] >= 0x80 by { assert(g[i] == h[i]); }
        if g.len() > 0 { assert(g[0] == h[0]); }
        lemma_head_unique(g);
        let v = subid_val(h);
        assert(v == subid_val(g) * 128 + m);
        if g.len() == 0 {
            assert(d == h[0]);
            assert(m > 0);
        }
        assert(v > 0) by (nonlinear_arith) requires v == subid_val(g) * 128 + m, (subid_val(g) > 0 || m > 0), m >= 0;
        assert(v / 128 == subid_val(g)) by (nonlinear_arith) requires v == subid_val(g) * 128 + m, 0 <= m < 128;
        assert(v % 128 == m) by (nonlinear_arith) requires v == subid_val(g) * 128 + m, 0 <= m < 128;
        assert((128 + v % 128) as u8 == d);
        assert(g.push(d) =~= h);
    }
}

/// the three shift/mask facts that connect 7-bit groups with division by 128 (for every u32)
pub open spec fn group7_facts() -> bool {
    &&& forall|v: u32| #[trigger] (v >> 7) == v / 128
    &&& forall|v: u32| #[trigger] (v & 0x7f) == v % 128
    &&& forall|x: u32| x < 128 ==> #[trigger] (0x80 | x) == 128 + x
}

pub proof fn lemma_group7_facts()
    ensures group7_facts()
{
    assert(forall|v: u32| #[trigger] (v >> 7) == v / 128) by (bit_vector);
    assert(forall|v: u32| #[trigger] (v & 0x7f) == v % 128) by (bit_vector);
    assert(forall|x: u32| x < 128 ==> #[trigger] (0x80 | x) == 128 + x) by (bit_vector);
}

// ------------------------------------------------------------------ 8.19.3 - 8.19.5: the whole object identifier

/// what X.690 8.19.4 (and const-oid, for its `ObjectIdentifier`) demand of the components
pub open spec fn oid_arcs_ok(arcs: Seq<u32>) -> bool {
    &&& arcs.len() >= 2
    &&& arcs[0] <= 2
    &&& (arcs[0] < 2 ==> arcs[1] <= 39)
    &&& arcs[0] * 40 + arcs[1] <= 0xffff_ffff
}

/// 8.19.3-8.19.5: the subidentifiers of an OID: (X*40)+Y, then the 3rd, 4th, .. component
pub open spec fn oid_subids(arcs: Seq<u32>) -> Seq<u32> {
    seq![(arcs[0] * 40 + arcs[1]) as u32] + arcs.skip(2)
}

/// the series of the subidentifiers one after the other
pub open spec fn concat_base128(subids: Seq<u32>) -> Seq<u8>
    decreases subids.len()
{
    if subids.len() == 0 { Seq::<u8>::empty() } else { concat_base128(subids.drop_last()) + base128(subids.last() as nat) }
}

/// 8.19: the contents octets of the object identifier with these components
pub open spec fn oid_octets(arcs: Seq<u32>) -> Seq<u8> {
    concat_base128(oid_subids(arcs))
}
