// ---------------------------------------------------------------------------------
// lemmas/subpacket_wire.rs - RFC 9580 5.2.3.7 wire form of signature subpackets on the EXTRACTED
// types SubpacketType, SubpacketLength, Subpacket, SubpacketData (include after extracting them,
// after shims/codec_sigtypes.rs and after lemmas/packet_wire.rs).  Pure spec/proof code: nothing
// is assumed here; the body of a subpacket (sp_data_wire) and the type a body belongs to
// (sp_data_typ) are uninterpreted - their byte-level layout is not this file's subject.
// ---------------------------------------------------------------------------------

// ---- RFC 9580 5.2.3.7, Table 5: subpacket type ids ---------------------------------------------
pub open spec fn sptype_id(t: SubpacketType) -> u8 {
    match t {
        SubpacketType::SignatureCreationTime => 2,
        SubpacketType::SignatureExpirationTime => 3,
        SubpacketType::ExportableCertification => 4,
        SubpacketType::TrustSignature => 5,
        SubpacketType::RegularExpression => 6,
        SubpacketType::Revocable => 7,
        SubpacketType::KeyExpirationTime => 9,
        SubpacketType::PreferredSymmetricAlgorithms => 11,
        SubpacketType::RevocationKey => 12,
        SubpacketType::IssuerKeyId => 16,
        SubpacketType::Notation => 20,
        SubpacketType::PreferredHashAlgorithms => 21,
        SubpacketType::PreferredCompressionAlgorithms => 22,
        SubpacketType::KeyServerPreferences => 23,
        SubpacketType::PreferredKeyServer => 24,
        SubpacketType::PrimaryUserId => 25,
        SubpacketType::PolicyURI => 26,
        SubpacketType::KeyFlags => 27,
        SubpacketType::SignersUserID => 28,
        SubpacketType::RevocationReason => 29,
        SubpacketType::Features => 30,
        SubpacketType::SignatureTarget => 31,
        SubpacketType::EmbeddedSignature => 32,
        SubpacketType::IssuerFingerprint => 33,
        SubpacketType::PreferredEncryptionModes => 34, // "Reserved" in RFC 9580; LibrePGP preferred encryption modes
        SubpacketType::IntendedRecipientFingerprint => 35,
        SubpacketType::PreferredAead => 39,
        SubpacketType::Experimental(n) => n,
        SubpacketType::Other(n) => n,
    }
}
/// the ids that have a named variant
pub open spec fn sptype_named_id(n: u8) -> bool {
    n == 2 || n == 3 || n == 4 || n == 5 || n == 6 || n == 7 || n == 9 || n == 11 || n == 12 || n == 16
    || (20 <= n <= 35) || n == 39
}
/// a SubpacketType as the parser produces it: 7-bit id, Experimental exactly for 100..110 ("Private or
/// Experimental Use"), Other exactly for ids without a name
pub open spec fn sptype_wf(t: SubpacketType) -> bool {
    match t {
        SubpacketType::Experimental(n) => 100 <= n <= 110,
        SubpacketType::Other(n) => n < 128 && !sptype_named_id(n) && !(100 <= n <= 110),
        _ => true,
    }
}

// ---- RFC 9580 5.2.3.7: subpacket length, on the extracted enum -----------------------------------
pub open spec fn splen_w(l: SubpacketLength) -> int {
    match l { SubpacketLength::One(_) => 1, SubpacketLength::Two(_) => 2, SubpacketLength::Five(_) => 5 }
}
pub open spec fn splen_n(l: SubpacketLength) -> nat {
    match l { SubpacketLength::One(n) => n as nat, SubpacketLength::Two(n) => n as nat, SubpacketLength::Five(n) => n as nat }
}
/// documented invariant: "1 byte encoding, must be less than 192", Two is 192..=16319
pub open spec fn splen_wf(l: SubpacketLength) -> bool { splen_enc_ok(splen_w(l), splen_n(l)) }
/// the length octets: the encoding chosen by the variant ("keeps its original length encoding")
pub open spec fn splen_wire(l: SubpacketLength) -> Seq<u8> { splen_enc(splen_w(l), splen_n(l)) }

/// C05 round trip for lengths: two well-formed lengths whose encodings (followed by anything) agree are equal
pub proof fn splen_round_trip(a: SubpacketLength, ta: Seq<u8>, b: SubpacketLength, tb: Seq<u8>)
    requires splen_wf(a), splen_wf(b), splen_wire(a) + ta == splen_wire(b) + tb
    ensures a == b, ta == tb
{
    lemma_splen_unique(splen_w(a), splen_n(a), ta, splen_w(b), splen_n(b), tb);
}

// ---- one subpacket / a subpacket area ---------------------------------------------------------
pub uninterp spec fn sp_data_wire(d: SubpacketData) -> Seq<u8>;
pub uninterp spec fn sp_data_typ(d: SubpacketData) -> SubpacketType;

/// a subpacket whose length field announces exactly 1 (type octet) + the octets of its body
pub open spec fn sp_wf(p: Subpacket) -> bool {
    splen_wf(p.len) && splen_n(p.len) == 1 + sp_data_wire(p.data).len() && sptype_wf(sp_data_typ(p.data))
}
pub open spec fn sp_wire(p: Subpacket) -> Seq<u8> {
    splen_wire(p.len) + seq![sp_type_octet(sptype_id(sp_data_typ(p.data)), p.is_critical)] + sp_data_wire(p.data)
}
/// "Hashed subpacket data set (zero or more subpackets)": the concatenation
pub open spec fn area_wire(ps: Seq<Subpacket>) -> Seq<u8>
    decreases ps.len()
{
    if ps.len() == 0 { Seq::<u8>::empty() } else { area_wire(ps.drop_last()) + sp_wire(ps.last()) }
}
pub proof fn lemma_area_push(ps: Seq<Subpacket>, p: Subpacket)
    ensures area_wire(ps.push(p)) == area_wire(ps) + sp_wire(p)
{
    assert(ps.push(p).drop_last() =~= ps);
}

// ---- an area as the parser sees it: declared lengths, type octets, and the body octets found ------
/// the octets of one subpacket whose body octets are `body` (sp_wire(p) is the case body == sp_data_wire(p.data))
pub open spec fn sp_wire_with(p: Subpacket, body: Seq<u8>) -> Seq<u8> {
    splen_wire(p.len) + seq![sp_type_octet(sptype_id(sp_data_typ(p.data)), p.is_critical)] + body
}
pub open spec fn area_wire_with(ps: Seq<Subpacket>, bodies: Seq<Seq<u8>>) -> Seq<u8>
    decreases ps.len()
{
    if ps.len() == 0 { Seq::<u8>::empty() }
    else { area_wire_with(ps.drop_last(), bodies.drop_last()) + sp_wire_with(ps.last(), bodies.last()) }
}
/// every body has exactly the number of octets its parsed value serialises to
pub open spec fn bodies_ok(ps: Seq<Subpacket>, bodies: Seq<Seq<u8>>) -> bool {
    bodies.len() == ps.len() && forall|k: int| 0 <= k < ps.len() ==> (#[trigger] bodies[k]).len() == sp_data_wire(ps[k].data).len()
}
pub proof fn lemma_area_with_push(ps: Seq<Subpacket>, bodies: Seq<Seq<u8>>, p: Subpacket, body: Seq<u8>)
    ensures area_wire_with(ps.push(p), bodies.push(body)) == area_wire_with(ps, bodies) + sp_wire_with(p, body)
{
    assert(ps.push(p).drop_last() =~= ps);
    assert(bodies.push(body).drop_last() =~= bodies);
}
/// the area has exactly the length the parsed subpackets announce and re-serialise to (C05, length clause)
pub proof fn lemma_area_with_len(ps: Seq<Subpacket>, bodies: Seq<Seq<u8>>)
    requires bodies_ok(ps, bodies)
    ensures area_wire_with(ps, bodies).len() == area_wire(ps).len()
    decreases ps.len()
{
    if ps.len() > 0 {
        let b2 = bodies.drop_last();
        assert(bodies_ok(ps.drop_last(), b2)) by {
            assert forall|k: int| 0 <= k < ps.drop_last().len() implies (#[trigger] b2[k]).len() == sp_data_wire(ps.drop_last()[k].data).len() by {
                assert(b2[k] == bodies[k]);
            }
        }
        lemma_area_with_len(ps.drop_last(), b2);
        assert(bodies[ps.len() - 1].len() == sp_data_wire(ps[ps.len() - 1].data).len());
    }
}
/// canonical bodies (each equal to the serialisation of its parsed value) re-serialise to the identical area (C05)
pub proof fn lemma_area_with_canonical(ps: Seq<Subpacket>, bodies: Seq<Seq<u8>>)
    requires bodies.len() == ps.len(), forall|k: int| 0 <= k < ps.len() ==> #[trigger] bodies[k] == sp_data_wire(ps[k].data)
    ensures area_wire_with(ps, bodies) == area_wire(ps)
    decreases ps.len()
{
    if ps.len() > 0 {
        let b2 = bodies.drop_last();
        assert forall|k: int| 0 <= k < ps.drop_last().len() implies #[trigger] b2[k] == sp_data_wire(ps.drop_last()[k].data) by {
            assert(b2[k] == bodies[k]);
        }
        lemma_area_with_canonical(ps.drop_last(), b2);
        assert(bodies[ps.len() - 1] == sp_data_wire(ps[ps.len() - 1].data));
    }
}

// ---- the length a subpacket area announces (what the count octets in front of it are computed from) ----------
/// Subpacket::write_len(): the value of the length field plus the octets of the length field itself
pub open spec fn sp_announced(p: Subpacket) -> nat { splen_n(p.len) + splen_w(p.len) as nat }
pub open spec fn area_announced(ps: Seq<Subpacket>) -> nat
    decreases ps.len()
{
    if ps.len() == 0 { 0 } else { area_announced(ps.drop_last()) + sp_announced(ps.last()) }
}
/// a subpacket whose length field is well formed and announces exactly 1 (type octet) + the octets of its body
pub open spec fn sp_len_ok(p: Subpacket) -> bool {
    splen_wf(p.len) && splen_n(p.len) == 1 + sp_data_wire(p.data).len()
}
pub proof fn lemma_sp_announced(p: Subpacket)
    requires sp_len_ok(p)
    ensures sp_announced(p) == sp_wire(p).len()
{
    lemma_splen_enc_len(splen_w(p.len), splen_n(p.len));
}
/// C05: if every subpacket's length field is right, the announced area length is the number of octets of the area
pub proof fn lemma_area_announced(ps: Seq<Subpacket>)
    requires forall|k: int| 0 <= k < ps.len() ==> sp_len_ok(#[trigger] ps[k])
    ensures area_announced(ps) == area_wire(ps).len()
    decreases ps.len()
{
    if ps.len() > 0 {
        assert forall|k: int| 0 <= k < ps.drop_last().len() implies sp_len_ok(#[trigger] ps.drop_last()[k]) by { assert(ps.drop_last()[k] == ps[k]); }
        lemma_area_announced(ps.drop_last());
        assert(sp_len_ok(ps[ps.len() - 1]));
        lemma_sp_announced(ps.last());
    }
}
pub proof fn lemma_area_take(ps: Seq<Subpacket>, k: int)
    requires 0 <= k < ps.len()
    ensures area_wire(ps.take(k + 1)) == area_wire(ps.take(k)) + sp_wire(ps[k])
{
    assert(ps.take(k + 1).drop_last() =~= ps.take(k));
}
