// ---------------------------------------------------------------------------------
// lemmas/mpi_pad.rs - RFC 9580 3.2 multiprecision integers vs. fixed-size big-endian scalars:
// stripping leading zero octets and left-padding with zero octets are inverse up to canonical form and
// both keep the numeric value.  Pure specification + proofs (no assumptions).  Include inside verus!{}.
// (lz_off / strip / canonical / zeros and their three lemmas are the definitions of units/U15_mpi.vu, repeated here
//  because a unit's text cannot be included.)
// ---------------------------------------------------------------------------------

/// index of the first non-zero octet (|s| if there is none)
pub open spec fn lz_off(s: Seq<u8>) -> int
    decreases s.len()
{
    if s.len() == 0 { 0 } else if s[0] != 0 { 0 } else { 1 + lz_off(s.skip(1)) }
}
/// the MPI magnitude of a big-endian octet string: leading zero octets removed
pub open spec fn strip(s: Seq<u8>) -> Seq<u8> { s.skip(lz_off(s)) }
pub open spec fn canonical(s: Seq<u8>) -> bool { s.len() == 0 || s[0] != 0 }
pub open spec fn zeros(n: int) -> Seq<u8> { Seq::new(n as nat, |i: int| 0u8) }
/// the fixed-size big-endian form of a magnitude v, |v| <= n: v left-padded with zero octets to n octets
pub open spec fn lpad(v: Seq<u8>, n: int) -> Seq<u8> { zeros(n - v.len()) + v }
/// numeric value of a big-endian octet string
pub open spec fn be_val(s: Seq<u8>) -> nat
    decreases s.len()
{
    if s.len() == 0 { 0 } else { 256 * be_val(s.drop_last()) + s.last() as nat }
}

pub proof fn lemma_lz_off(s: Seq<u8>, o: int)
    requires 0 <= o <= s.len(), forall|j: int| 0 <= j < o ==> s[j] == 0, o == s.len() || s[o] != 0,
    ensures lz_off(s) == o
    decreases s.len()
{
    if s.len() == 0 || o == 0 {
    } else {
        assert(s[0] == 0);
        let t = s.skip(1);
        assert forall|j: int| 0 <= j < o - 1 implies t[j] == 0 by { assert(t[j] == s[j + 1]); }
        lemma_lz_off(t, o - 1);
    }
}
pub proof fn lemma_lz_range(s: Seq<u8>)
    ensures 0 <= lz_off(s) <= s.len(), forall|j: int| 0 <= j < lz_off(s) ==> s[j] == 0, lz_off(s) == s.len() || s[lz_off(s)] != 0
    decreases s.len()
{
    if s.len() == 0 || s[0] != 0 {
    } else {
        let t = s.skip(1);
        lemma_lz_range(t);
        assert forall|j: int| 0 <= j < lz_off(s) implies s[j] == 0 by { if j > 0 { assert(t[j - 1] == s[j]); } }
    }
}
/// strip yields a canonical value, and is the identity on canonical values
pub proof fn lemma_strip(s: Seq<u8>)
    ensures canonical(strip(s)), canonical(s) ==> strip(s) == s, zeros(lz_off(s)) + strip(s) == s
{
    lemma_lz_range(s);
    if canonical(s) { assert(strip(s) =~= s); }
    assert(zeros(lz_off(s)) + strip(s) =~= s);
}

/// left-padding does not change the MPI magnitude: strip(0^k ++ v) == strip(v)
pub proof fn lemma_strip_zeros_prefix(k: int, v: Seq<u8>)
    requires k >= 0
    ensures strip(zeros(k) + v) == strip(v)
{
    let p = zeros(k) + v;
    lemma_lz_range(v);
    let o = lz_off(v);
    assert forall|j: int| 0 <= j < k + o implies p[j] == 0 by { if j >= k { assert(p[j] == v[j - k]); } }
    if k + o < p.len() { assert(p[k + o] == v[o]); }
    lemma_lz_off(p, k + o);
    assert(p.skip(k + o) =~= v.skip(o));
}
/// RFC 9580 3.2 round trip for every stored length 0..=n: a value written as MPI (leading zeros stripped) and re-padded
/// to the curve size n is the original n-octet scalar; and padding then stripping gives the canonical magnitude again
pub proof fn lemma_pad_strip_round_trip(x: Seq<u8>, n: int)
    requires x.len() == n
    ensures strip(x).len() <= n, lpad(strip(x), n) == x
{
    lemma_lz_range(x);
    lemma_strip(x);
    assert(n - strip(x).len() == lz_off(x));
}
pub proof fn lemma_strip_pad(v: Seq<u8>, n: int)
    requires v.len() <= n
    ensures strip(lpad(v, n)) == strip(v), lpad(v, n).len() == n
{
    lemma_strip_zeros_prefix(n - v.len(), v);
}
/// ... and the numeric value is kept
pub proof fn lemma_be_val_zeros_prefix(k: int, v: Seq<u8>)
    requires k >= 0
    ensures be_val(zeros(k) + v) == be_val(v)
    decreases v.len(), k
{
    let p = zeros(k) + v;
    if v.len() == 0 {
        if k == 0 {
            assert(p =~= v);
        } else {
            assert(p.drop_last() =~= zeros(k - 1) + v);
            assert(p.last() == 0);
            lemma_be_val_zeros_prefix(k - 1, v);
        }
    } else {
        assert(p.drop_last() =~= zeros(k) + v.drop_last());
        assert(p.last() == v.last());
        lemma_be_val_zeros_prefix(k, v.drop_last());
    }
}
pub proof fn lemma_lpad_value(v: Seq<u8>, n: int)
    requires v.len() <= n
    ensures be_val(lpad(v, n)) == be_val(v)
{
    lemma_be_val_zeros_prefix(n - v.len(), v);
}
