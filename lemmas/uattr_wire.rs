// ---------------------------------------------------------------------------------
// lemmas/uattr_wire.rs - RFC 9580 5.12 (User Attribute packet, type ID 17) as spec functions, first
// on field values, then on the EXTRACTED types UserAttributeType, UserAttribute.  Pure spec/proof
// code: nothing is assumed here.  Include after lemmas/packet_wire.rs, lemmas/subpacket_wire.rs
// (splen_*), lemmas/imghdr_wire.rs (the image header) and after extracting the two types.
// ---------------------------------------------------------------------------------

// ---- RFC 9580 5.12 ----------------------------------------------------------------------------
//   "The User Attribute packet is made up of one or more attribute subpackets.  Each subpacket consists of a subpacket
//    header and a body.  The header consists of: the subpacket length (1, 2, or 5 octets); the subpacket type ID
//    (1 octet); and is followed by the subpacket specific data."   (length encoding and meaning as in 5.2.3.7: "The
//    length includes the encoded subpacket type ID octet but not this length"; subpackets keep the length encoding
//    they were read with.)
pub open spec fn attr_subpacket_layout(len_octets: Seq<u8>, typ: u8, body: Seq<u8>) -> Seq<u8> {
    len_octets + seq![typ] + body
}

// ---- on the extracted types ---------------------------------------------------------------------
/// 5.12: type ID 1 = image attribute; 100..110 private/experimental; everything else is kept as found
pub open spec fn uat_to_u8(t: UserAttributeType) -> u8 {
    match t { UserAttributeType::Image => 1, UserAttributeType::Unknown(n) => n }
}
pub open spec fn uat_from_u8(v: u8) -> UserAttributeType {
    if v == 1 { UserAttributeType::Image } else { UserAttributeType::Unknown(v) }
}
pub open spec fn uattr_splen(x: UserAttribute) -> SubpacketLength {
    match x {
        UserAttribute::Image { packet_header, subpacket_len, header, data } => subpacket_len,
        UserAttribute::Unknown { packet_header, subpacket_len, typ, data } => subpacket_len,
    }
}
pub open spec fn uattr_header(x: UserAttribute) -> PacketHeader {
    match x {
        UserAttribute::Image { packet_header, subpacket_len, header, data } => packet_header,
        UserAttribute::Unknown { packet_header, subpacket_len, typ, data } => packet_header,
    }
}
pub open spec fn uattr_type_octet(x: UserAttribute) -> u8 {
    match x {
        UserAttribute::Image { packet_header, subpacket_len, header, data } => 1,
        UserAttribute::Unknown { packet_header, subpacket_len, typ, data } => uat_to_u8(typ),
    }
}
/// the subpacket specific data: for an image attribute the image header, then the image
pub open spec fn uattr_body(x: UserAttribute) -> Seq<u8> {
    match x {
        UserAttribute::Image { packet_header, subpacket_len, header, data } => imghdr_wire(header) + data@,
        UserAttribute::Unknown { packet_header, subpacket_len, typ, data } => data@,
    }
}
/// the packet body: ONE attribute subpacket, its length in the encoding STORED in the value
pub open spec fn uattr_wire(x: UserAttribute) -> Seq<u8> {
    attr_subpacket_layout(splen_wire(uattr_splen(x)), uattr_type_octet(x), uattr_body(x))
}
/// what to_writer needs: a length variant that respects its documented range
pub open spec fn uattr_inv(x: UserAttribute) -> bool { splen_wf(uattr_splen(x)) }
/// "The length includes the type octet but not this length"
pub open spec fn uattr_len_consistent(x: UserAttribute) -> bool {
    splen_n(uattr_splen(x)) == 1 + uattr_body(x).len()
}
/// under that consistency the stored form is the RFC subpacket encoding of (type, body) at the stored width
pub proof fn lemma_uattr_wire_is_subpacket_enc(x: UserAttribute)
    requires uattr_len_consistent(x)
    ensures uattr_wire(x) == subpacket_enc(splen_w(uattr_splen(x)), uattr_type_octet(x), uattr_body(x))
{
}
/// a value that is the only reading of its own octets
pub open spec fn uattr_canon(x: UserAttribute) -> bool {
    &&& uattr_inv(x)
    &&& uattr_len_consistent(x)
    &&& match x {
        UserAttribute::Image { packet_header, subpacket_len, header, data } => imghdr_canon(header),
        UserAttribute::Unknown { packet_header, subpacket_len, typ, data } => typ is Unknown && uat_to_u8(typ) != 1,
    }
}
/// derive(PartialEq) on everything but the packet header: Bytes and arrays compare by content
pub open spec fn uattr_eq(a: UserAttribute, b: UserAttribute) -> bool {
    &&& uattr_splen(a) == uattr_splen(b)
    &&& match (a, b) {
        (UserAttribute::Image { packet_header: p1, subpacket_len: l1, header: h1, data: d1 },
         UserAttribute::Image { packet_header: p2, subpacket_len: l2, header: h2, data: d2 }) => imghdr_eq(h1, h2) && d1@ == d2@,
        (UserAttribute::Unknown { packet_header: p1, subpacket_len: l1, typ: t1, data: d1 },
         UserAttribute::Unknown { packet_header: p2, subpacket_len: l2, typ: t2, data: d2 }) => t1 == t2 && d1@ == d2@,
        _ => false,
    }
}

// ---- what the parser guarantees ------------------------------------------------------------------
/// UserAttribute::try_from_reader returned Ok(x) for the header `ph` on the packet body `inp` and left `rest`:
/// length (kept in the encoding it was read with), type octet, then a body of min(declared - 1, available) octets
pub open spec fn uattr_parse_post(x: UserAttribute, ph: PacketHeader, inp: Seq<u8>, rest: Seq<u8>) -> bool {
    let l = uattr_splen(x);
    &&& uattr_header(x) == ph
    &&& splen_wf(l) && splen_dec(inp) == Some((splen_w(l), splen_n(l)))
    // the declared length covers at least the type octet, and it is there
    &&& splen_n(l) >= 1 && splen_w(l) < inp.len()
    &&& ({
        let typ = inp[splen_w(l)];
        let avail = inp.skip(splen_w(l)).skip(1);
        // never more than the declared length, never more than what is there
        let kb = min_nat((splen_n(l) - 1) as nat, avail.len()) as int;
        let body = avail.subrange(0, kb);
        &&& rest == avail.skip(kb)
        &&& match x {
            UserAttribute::Image { packet_header, subpacket_len, header, data } => typ == 1 && imghdr_parse_post(header, body, data@),
            UserAttribute::Unknown { packet_header, subpacket_len, typ: t, data } => typ != 1 && t == UserAttributeType::Unknown(typ) && data@ == body,
        }
    })
}
/// the image header (if any) of the packet body is in the defined form
pub open spec fn uattr_found_canonical(inp: Seq<u8>) -> bool {
    splen_dec(inp) matches Some((w, n)) ==> (n >= 1 && w < inp.len() && inp[w] == 1 ==> ({
        let avail = inp.skip(w).skip(1);
        let kb = min_nat((n - 1) as nat, avail.len()) as int;
        imghdr_found_canonical(avail.subrange(0, kb))
    }))
}

/// C05 (length): parse then serialise gives back as many octets as were consumed, whatever the input
#[verifier::spinoff_prover]
pub proof fn lemma_uattr_parse_len(x: UserAttribute, ph: PacketHeader, inp: Seq<u8>, rest: Seq<u8>)
    requires uattr_parse_post(x, ph, inp, rest)
    ensures inp.len() == uattr_wire(x).len() + rest.len(), uattr_inv(x), // [C05]
        // the value never holds more than the length field announces, and less only at the end of the input
        1 + uattr_body(x).len() <= splen_n(uattr_splen(x)),
        1 + uattr_body(x).len() < splen_n(uattr_splen(x)) ==> rest.len() == 0,
        // C04: what is allocated for the value is bounded by the octets present, whatever the length fields claim
        uattr_body(x).len() < inp.len(), // [C04]
{
    let l = uattr_splen(x);
    lemma_splen_enc_len(splen_w(l), splen_n(l));
    let avail = inp.skip(splen_w(l)).skip(1);
    let kb = min_nat((splen_n(l) - 1) as nat, avail.len()) as int;
    let body = avail.subrange(0, kb);
    match x {
        UserAttribute::Image { packet_header, subpacket_len, header, data } => {
            lemma_imghdr_parse_len(header, body, data@);
        }
        UserAttribute::Unknown { packet_header, subpacket_len, typ, data } => {}
    }
}
proof fn lemma_cat4(a: Seq<u8>, b: Seq<u8>, c: Seq<u8>, d: Seq<u8>)
    ensures a + (b + (c + d)) == a + b + c + d
{
    assert(a + (b + (c + d)) =~= a + b + c + d);
}
/// C05 (identical octets): a canonically encoded packet body is the wire form of the value parsed from it
#[verifier::spinoff_prover]
pub proof fn lemma_uattr_parse_canonical(x: UserAttribute, ph: PacketHeader, inp: Seq<u8>, rest: Seq<u8>)
    requires uattr_parse_post(x, ph, inp, rest), uattr_found_canonical(inp)
    ensures inp == uattr_wire(x) + rest // [C05]
{
    let l = uattr_splen(x);
    lemma_splen_enc_dec(inp);
    let after = inp.skip(splen_w(l));
    assert(inp == splen_wire(l) + after);
    let t1 = seq![inp[splen_w(l)]];
    let avail = after.skip(1);
    assert(after =~= t1 + avail);
    let kb = min_nat((splen_n(l) - 1) as nat, avail.len()) as int;
    let body = avail.subrange(0, kb);
    assert(avail =~= body + rest);
    match x {
        UserAttribute::Image { packet_header, subpacket_len, header, data } => {
            assert(imghdr_found_canonical(body));
            lemma_imghdr_parse_canonical(header, body, data@);
            assert(body == uattr_body(x));
        }
        UserAttribute::Unknown { packet_header, subpacket_len, typ, data } => {
            assert(body == uattr_body(x));
        }
    }
    assert(t1 == seq![uattr_type_octet(x)]);
    lemma_cat4(splen_wire(l), t1, body, rest);
}
/// C05: parse(serialise(x) ++ t) == x for every canonical value, incl. the STORED length form, leaving t
#[verifier::spinoff_prover]
pub proof fn lemma_uattr_round_trip(x: UserAttribute, t: Seq<u8>, y: UserAttribute, ph: PacketHeader, rest: Seq<u8>)
    requires uattr_canon(x), uattr_parse_post(y, ph, uattr_wire(x) + t, rest)
    ensures uattr_eq(y, x), uattr_header(y) == ph, rest == t
{
    let inp = uattr_wire(x) + t;
    let l = uattr_splen(x);
    let body = uattr_body(x);
    let tail = seq![uattr_type_octet(x)] + body + t;
    assert(inp =~= splen_wire(l) + tail);
    lemma_splen_dec_enc(splen_w(l), splen_n(l), tail);
    let l2 = uattr_splen(y);
    assert(splen_w(l2) == splen_w(l) && splen_n(l2) == splen_n(l));
    assert(l2 == l);
    let after = inp.skip(splen_w(l));
    assert(after == tail);
    assert(inp[splen_w(l)] == after[0]);
    let avail = after.skip(1);
    assert(avail =~= body + t);
    let kb = min_nat((splen_n(l) - 1) as nat, avail.len()) as int;
    assert(kb == body.len());
    assert(avail.subrange(0, kb) =~= body);
    assert(avail.skip(kb) =~= t);
    match x {
        UserAttribute::Image { packet_header, subpacket_len, header, data } => {
            match y {
                UserAttribute::Image { packet_header: p2, subpacket_len: s2, header: h2, data: d2 } => {
                    lemma_imghdr_round_trip(header, data@, h2, d2@);
                }
                UserAttribute::Unknown { .. } => {}
            }
        }
        UserAttribute::Unknown { packet_header, subpacket_len, typ, data } => {}
    }
}
