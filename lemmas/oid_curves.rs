// RFC 9580 9.2 "ECC Curves for OpenPGP": the curve table, transcribed from the RFC (columns "ASN.1 Object Identifier",
// "OID Len", "Curve OID Octets in Hex", "Curve Name"), and the proofs that connect its columns through X.690 8.19
// (lemmas/oid_base128.rs).  Needs: enum ECCCurve (extracted), shims/const_oid.rs, lemmas/oid_base128.rs.  Nothing trusted.
//
//   1.2.840.10045.3.1.7     8   2A 86 48 CE 3D 03 01 07          NIST P-256
//   1.3.132.0.34            5   2B 81 04 00 22                   NIST P-384
//   1.3.132.0.35            5   2B 81 04 00 23                   NIST P-521
//   1.3.36.3.3.2.8.1.1.7    9   2B 24 03 03 02 08 01 01 07       brainpoolP256r1
//   1.3.36.3.3.2.8.1.1.11   9   2B 24 03 03 02 08 01 01 0B       brainpoolP384r1
//   1.3.36.3.3.2.8.1.1.13   9   2B 24 03 03 02 08 01 01 0D       brainpoolP512r1
//   1.3.6.1.4.1.11591.15.1  9   2B 06 01 04 01 DA 47 0F 01       Ed25519Legacy
//   1.3.6.1.4.1.3029.1.5.1  10  2B 06 01 04 01 97 55 01 05 01    Curve25519Legacy
// secp256k1 is not in RFC 9580; SEC 2 (v2, A.2.1) names it 1.3.132.0.10 (certicom-arc curve 10): 5 octets 2B 81 04 00 0A,
// the value GnuPG and the crate's own test vector use.

/// column "ASN.1 Object Identifier", as text
pub open spec fn rfc9580_oid_text(c: ECCCurve) -> Seq<char> {
    match c {
        ECCCurve::P256 => "1.2.840.10045.3.1.7"@,
        ECCCurve::P384 => "1.3.132.0.34"@,
        ECCCurve::P521 => "1.3.132.0.35"@,
        ECCCurve::BrainpoolP256r1 => "1.3.36.3.3.2.8.1.1.7"@,
        ECCCurve::BrainpoolP384r1 => "1.3.36.3.3.2.8.1.1.11"@,
        ECCCurve::BrainpoolP512r1 => "1.3.36.3.3.2.8.1.1.13"@,
        ECCCurve::Ed25519Legacy => "1.3.6.1.4.1.11591.15.1"@,
        ECCCurve::Curve25519Legacy => "1.3.6.1.4.1.3029.1.5.1"@,
        ECCCurve::Secp256k1 => "1.3.132.0.10"@,
        ECCCurve::Unknown(_) => Seq::<char>::empty(),
    }
}

/// column "ASN.1 Object Identifier", as numbers
pub open spec fn rfc9580_oid_comps(c: ECCCurve) -> Seq<u32> {
    match c {
        ECCCurve::P256 => seq![1u32, 2, 840, 10045, 3, 1, 7],
        ECCCurve::P384 => seq![1u32, 3, 132, 0, 34],
        ECCCurve::P521 => seq![1u32, 3, 132, 0, 35],
        ECCCurve::BrainpoolP256r1 => seq![1u32, 3, 36, 3, 3, 2, 8, 1, 1, 7],
        ECCCurve::BrainpoolP384r1 => seq![1u32, 3, 36, 3, 3, 2, 8, 1, 1, 11],
        ECCCurve::BrainpoolP512r1 => seq![1u32, 3, 36, 3, 3, 2, 8, 1, 1, 13],
        ECCCurve::Ed25519Legacy => seq![1u32, 3, 6, 1, 4, 1, 11591, 15, 1],
        ECCCurve::Curve25519Legacy => seq![1u32, 3, 6, 1, 4, 1, 3029, 1, 5, 1],
        ECCCurve::Secp256k1 => seq![1u32, 3, 132, 0, 10],
        ECCCurve::Unknown(_) => Seq::<u32>::empty(),
    }
}

/// column "Curve OID Octets in Hex"
pub open spec fn rfc9580_oid_hex(c: ECCCurve) -> Seq<u8> {
    match c {
        ECCCurve::P256 => seq![0x2Au8, 0x86, 0x48, 0xCE, 0x3D, 0x03, 0x01, 0x07],
        ECCCurve::P384 => seq![0x2Bu8, 0x81, 0x04, 0x00, 0x22],
        ECCCurve::P521 => seq![0x2Bu8, 0x81, 0x04, 0x00, 0x23],
        ECCCurve::BrainpoolP256r1 => seq![0x2Bu8, 0x24, 0x03, 0x03, 0x02, 0x08, 0x01, 0x01, 0x07],
        ECCCurve::BrainpoolP384r1 => seq![0x2Bu8, 0x24, 0x03, 0x03, 0x02, 0x08, 0x01, 0x01, 0x0B],
        ECCCurve::BrainpoolP512r1 => seq![0x2Bu8, 0x24, 0x03, 0x03, 0x02, 0x08, 0x01, 0x01, 0x0D],
        ECCCurve::Ed25519Legacy => seq![0x2Bu8, 0x06, 0x01, 0x04, 0x01, 0xDA, 0x47, 0x0F, 0x01],
        ECCCurve::Curve25519Legacy => seq![0x2Bu8, 0x06, 0x01, 0x04, 0x01, 0x97, 0x55, 0x01, 0x05, 0x01],
        ECCCurve::Secp256k1 => seq![0x2Bu8, 0x81, 0x04, 0x00, 0x0A],
        ECCCurve::Unknown(_) => Seq::<u8>::empty(),
    }
}

/// column "OID Len"
pub open spec fn rfc9580_oid_len(c: ECCCurve) -> nat {
    match c {
        ECCCurve::P256 => 8,
        ECCCurve::P384 => 5,
        ECCCurve::P521 => 5,
        ECCCurve::BrainpoolP256r1 => 9,
        ECCCurve::BrainpoolP384r1 => 9,
        ECCCurve::BrainpoolP512r1 => 9,
        ECCCurve::Ed25519Legacy => 9,
        ECCCurve::Curve25519Legacy => 10,
        ECCCurve::Secp256k1 => 5,
        ECCCurve::Unknown(_) => 0,
    }
}

/// the components a curve value stands for: the table's for a named curve, the ObjectIdentifier's own otherwise
pub open spec fn curve_comps(c: ECCCurve) -> Seq<u32> {
    match c {
        ECCCurve::Unknown(o) => o.comps(),
        _ => rfc9580_oid_comps(c),
    }
}

/// the table is coherent: for every named curve the text column parses to the numbers, the numbers are a legal OID, their
/// X.690 8.19 encoding is the hex column and has the announced length (so the spec functions of lemmas/oid_base128.rs
/// reproduce nine published test vectors)
pub proof fn lemma_rfc9580_table(c: ECCCurve)
    requires !(c is Unknown)
    ensures
        dotted_parse(rfc9580_oid_text(c)) == Some(rfc9580_oid_comps(c)),
        oid_arcs_ok(rfc9580_oid_comps(c)),
        oid_octets(rfc9580_oid_comps(c)) == rfc9580_oid_hex(c),
        rfc9580_oid_hex(c).len() == rfc9580_oid_len(c),
{
    match c {
        ECCCurve::P256 => {
            reveal_strlit("1.2.840.10045.3.1.7");
            assert("1.2.840.10045.3.1.7"@ =~= seq!['1','.','2','.','8','4','0','.','1','0','0','4','5','.','3','.','1','.','7']);
            assert(dotted_parse(seq!['1','.','2','.','8','4','0','.','1','0','0','4','5','.','3','.','1','.','7']) == Some(seq![1u32, 2, 840, 10045, 3, 1, 7])) by (compute);
            assert(oid_octets(seq![1u32, 2, 840, 10045, 3, 1, 7]) =~= seq![0x2Au8, 0x86, 0x48, 0xCE, 0x3D, 0x03, 0x01, 0x07]) by (compute);
        }
        ECCCurve::P384 => {
            reveal_strlit("1.3.132.0.34");
            assert("1.3.132.0.34"@ =~= seq!['1','.','3','.','1','3','2','.','0','.','3','4']);
            assert(dotted_parse(seq!['1','.','3','.','1','3','2','.','0','.','3','4']) == Some(seq![1u32, 3, 132, 0, 34])) by (compute);
            assert(oid_octets(seq![1u32, 3, 132, 0, 34]) =~= seq![0x2Bu8, 0x81, 0x04, 0x00, 0x22]) by (compute);
        }
        ECCCurve::P521 => {
            reveal_strlit("1.3.132.0.35");
            assert("1.3.132.0.35"@ =~= seq!['1','.','3','.','1','3','2','.','0','.','3','5']);
            assert(dotted_parse(seq!['1','.','3','.','1','3','2','.','0','.','3','5']) == Some(seq![1u32, 3, 132, 0, 35])) by (compute);
            assert(oid_octets(seq![1u32, 3, 132, 0, 35]) =~= seq![0x2Bu8, 0x81, 0x04, 0x00, 0x23]) by (compute);
        }
        ECCCurve::BrainpoolP256r1 => {
            reveal_strlit("1.3.36.3.3.2.8.1.1.7");
            assert("1.3.36.3.3.2.8.1.1.7"@ =~= seq!['1','.','3','.','3','6','.','3','.','3','.','2','.','8','.','1','.','1','.','7']);
            assert(dotted_parse(seq!['1','.','3','.','3','6','.','3','.','3','.','2','.','8','.','1','.','1','.','7']) == Some(seq![1u32, 3, 36, 3, 3, 2, 8, 1, 1, 7])) by (compute);
            assert(oid_octets(seq![1u32, 3, 36, 3, 3, 2, 8, 1, 1, 7]) =~= seq![0x2Bu8, 0x24, 0x03, 0x03, 0x02, 0x08, 0x01, 0x01, 0x07]) by (compute);
        }
        ECCCurve::BrainpoolP384r1 => {
            reveal_strlit("1.3.36.3.3.2.8.1.1.11");
            assert("1.3.36.3.3.2.8.1.1.11"@ =~= seq!['1','.','3','.','3','6','.','3','.','3','.','2','.','8','.','1','.','1','.','1','1']);
            assert(dotted_parse(seq!['1','.','3','.','3','6','.','3','.','3','.','2','.','8','.','1','.','1','.','1','1']) == Some(seq![1u32, 3, 36, 3, 3, 2, 8, 1, 1, 11])) by (compute);
            assert(oid_octets(seq![1u32, 3, 36, 3, 3, 2, 8, 1, 1, 11]) =~= seq![0x2Bu8, 0x24, 0x03, 0x03, 0x02, 0x08, 0x01, 0x01, 0x0B]) by (compute);
        }
        ECCCurve::BrainpoolP512r1 => {
            reveal_strlit("1.3.36.3.3.2.8.1.1.13");
            assert("1.3.36.3.3.2.8.1.1.13"@ =~= seq!['1','.','3','.','3','6','.','3','.','3','.','2','.','8','.','1','.','1','.','1','3']);
            assert(dotted_parse(seq!['1','.','3','.','3','6','.','3','.','3','.','2','.','8','.','1','.','1','.','1','3']) == Some(seq![1u32, 3, 36, 3, 3, 2, 8, 1, 1, 13])) by (compute);
            assert(oid_octets(seq![1u32, 3, 36, 3, 3, 2, 8, 1, 1, 13]) =~= seq![0x2Bu8, 0x24, 0x03, 0x03, 0x02, 0x08, 0x01, 0x01, 0x0D]) by (compute);
        }
        ECCCurve::Ed25519Legacy => {
            reveal_strlit("1.3.6.1.4.1.11591.15.1");
            assert("1.3.6.1.4.1.11591.15.1"@ =~= seq!['1','.','3','.','6','.','1','.','4','.','1','.','1','1','5','9','1','.','1','5','.','1']);
            assert(dotted_parse(seq!['1','.','3','.','6','.','1','.','4','.','1','.','1','1','5','9','1','.','1','5','.','1']) == Some(seq![1u32, 3, 6, 1, 4, 1, 11591, 15, 1])) by (compute);
            assert(oid_octets(seq![1u32, 3, 6, 1, 4, 1, 11591, 15, 1]) =~= seq![0x2Bu8, 0x06, 0x01, 0x04, 0x01, 0xDA, 0x47, 0x0F, 0x01]) by (compute);
        }
        ECCCurve::Curve25519Legacy => {
            reveal_strlit("1.3.6.1.4.1.3029.1.5.1");
            assert("1.3.6.1.4.1.3029.1.5.1"@ =~= seq!['1','.','3','.','6','.','1','.','4','.','1','.','3','0','2','9','.','1','.','5','.','1']);
            assert(dotted_parse(seq!['1','.','3','.','6','.','1','.','4','.','1','.','3','0','2','9','.','1','.','5','.','1']) == Some(seq![1u32, 3, 6, 1, 4, 1, 3029, 1, 5, 1])) by (compute);
            assert(oid_octets(seq![1u32, 3, 6, 1, 4, 1, 3029, 1, 5, 1]) =~= seq![0x2Bu8, 0x06, 0x01, 0x04, 0x01, 0x97, 0x55, 0x01, 0x05, 0x01]) by (compute);
        }
        ECCCurve::Secp256k1 => {
            reveal_strlit("1.3.132.0.10");
            assert("1.3.132.0.10"@ =~= seq!['1','.','3','.','1','3','2','.','0','.','1','0']);
            assert(dotted_parse(seq!['1','.','3','.','1','3','2','.','0','.','1','0']) == Some(seq![1u32, 3, 132, 0, 10])) by (compute);
            assert(oid_octets(seq![1u32, 3, 132, 0, 10]) =~= seq![0x2Bu8, 0x81, 0x04, 0x00, 0x0A]) by (compute);
        }
        ECCCurve::Unknown(_) => { }
    }
}

/// the hex column identifies the curve: no two named curves share their octets
pub proof fn lemma_rfc9580_hex_distinct(c: ECCCurve, d: ECCCurve)
    requires !(c is Unknown), !(d is Unknown), rfc9580_oid_hex(c) == rfc9580_oid_hex(d)
    ensures c == d
{
    let a = rfc9580_oid_hex(c);
    let b = rfc9580_oid_hex(d);
    assert(a.len() == b.len());
    assert(a[1] == b[1]);
    assert(a[4] == b[4]);
    if a.len() >= 9 {
        assert(a[8] == b[8]);
        assert(a[5] == b[5]);
    }
}

/// decode side of the table: the named curve whose "Curve OID Octets" these are
pub open spec fn curve_of_hex(s: Seq<u8>) -> Option<ECCCurve> {
    if s == rfc9580_oid_hex(ECCCurve::P256) { Some(ECCCurve::P256) }
    else if s == rfc9580_oid_hex(ECCCurve::P384) { Some(ECCCurve::P384) }
    else if s == rfc9580_oid_hex(ECCCurve::P521) { Some(ECCCurve::P521) }
    else if s == rfc9580_oid_hex(ECCCurve::BrainpoolP256r1) { Some(ECCCurve::BrainpoolP256r1) }
    else if s == rfc9580_oid_hex(ECCCurve::BrainpoolP384r1) { Some(ECCCurve::BrainpoolP384r1) }
    else if s == rfc9580_oid_hex(ECCCurve::BrainpoolP512r1) { Some(ECCCurve::BrainpoolP512r1) }
    else if s == rfc9580_oid_hex(ECCCurve::Ed25519Legacy) { Some(ECCCurve::Ed25519Legacy) }
    else if s == rfc9580_oid_hex(ECCCurve::Curve25519Legacy) { Some(ECCCurve::Curve25519Legacy) }
    else if s == rfc9580_oid_hex(ECCCurve::Secp256k1) { Some(ECCCurve::Secp256k1) }
    else { None }
}

/// ... and it does not depend on the order of the rows: s names c exactly when s is c's octets
pub proof fn lemma_curve_of_hex(s: Seq<u8>)
    ensures
        forall|c: ECCCurve| !(c is Unknown) ==> ((s == #[trigger] rfc9580_oid_hex(c)) <==> curve_of_hex(s) == Some(c)),
        curve_of_hex(s) matches Some(c) ==> !(c is Unknown),
{
    assert forall|c: ECCCurve| !(c is Unknown) implies ((s == #[trigger] rfc9580_oid_hex(c)) <==> curve_of_hex(s) == Some(c)) by {
        if s == rfc9580_oid_hex(c) {
            match curve_of_hex(s) {
                Some(d) => { lemma_rfc9580_hex_distinct(c, d); }
                None => { }
            }
        }
    }
}

pub mod oid_flat {
    use vstd::prelude::*;
    use super::*;
    /// if every result of `f` is the X.690 series of its argument, flat-mapping `f` over the subidentifiers gives the contents
    /// octets; second clause: the same, read from the components `a` whose subidentifiers (8.19.4: 40*X+Y first) the Vec holds
    /// (phrased with =~= under the quantifier so that the caller needs no extensionality hint after its last statement)
    pub broadcast proof fn lemma_flat_map_base128<F: Fn(&u32) -> Vec<u8>>(f: F, v: Seq<u32>, r: Seq<u8>)
        requires
            #[trigger] flat_map_rel(f, v, r),
            forall|x: u32, o: Vec<u8>| call_ensures(f, (&x,), o) ==> o@ == base128(x as nat),
        ensures
            r == concat_base128(v),
            forall|a: Seq<u32>| oid_subids(a) =~= v ==> r == #[trigger] oid_octets(a),
        decreases v.len()
    {
        if v.len() > 0 {
            let (head, o) = choose|head: Seq<u8>, o: Vec<u8>| #[trigger] flat_split(head, o) && flat_map_rel(f, v.drop_last(), head) && call_ensures(f, (&v.last(),), o) && r == head + o@;
            lemma_flat_map_base128(f, v.drop_last(), head);
        } else {
            assert(r =~= Seq::<u8>::empty());
        }
    }
}

/// C05 for a curve the library does not name: if the stored octets are the X.690 encoding of some components, serializing
/// the components the ObjectIdentifier denotes gives the stored octets back
pub proof fn lemma_unknown_curve_roundtrip(o: ObjectIdentifier, a: Seq<u32>)
    requires oid_arcs_ok(a), oid_octets(a) == o.ber()
    ensures oid_octets(curve_comps(ECCCurve::Unknown(o))) == o.ber()
{
    o.axiom_canonical_decodes(a);
}
