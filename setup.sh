#!/bin/sh
# Offline setup: nothing to fetch. Warm the Verus start-up cache and (if present) the Kani target dir.
set -e
cd "$(dirname "$0")"
mkdir -p .work evidence replay .cache
command -v verus >/dev/null || { echo "verus not on PATH"; exit 1; }
if [ -x engine/ksetup.sh ]; then engine/ksetup.sh || true; fi
echo setup ok
