#!/bin/sh
# Offline setup after a fresh restore: nothing is fetched.  Warms the caches the checks use:
#  - Verus first start (loads vstd)
#  - Kani build of the real crate with the cfg(kani) harness hooks (target dir /verif/.cache/kani-target)
#  - native bounded harness crate (path dependency on /repo; target dir /verif/.cache/native-target)
# Every check rebuilds what it needs from /repo's working tree anyway; this only makes the first check faster.
cd "$(dirname "$0")" || exit 1
mkdir -p .work evidence replay .cache/verus .cache/kani-target .cache/native-target
export CARGO_NET_OFFLINE=true
command -v verus >/dev/null || { echo "verus not on PATH"; exit 1; }
command -v cargo-kani >/dev/null || { echo "cargo-kani not on PATH"; exit 1; }
printf 'use vstd::prelude::*;\nverus!{ proof fn t() ensures 1 + 1 == 2int {} }\nfn main(){}\n' > .work/warm.rs
(cd .work && verus warm.rs >/dev/null 2>&1) || echo "warning: verus warm-up failed"
(cd /repo && CARGO_TARGET_DIR=/verif/.cache/kani-target cargo kani -Z function-contracts -Z stubbing --only-codegen >/verif/.work/kani-setup.log 2>&1) \
    || echo "warning: kani codegen failed (see .work/kani-setup.log); Kani units will be reported UNDECIDED"
[ -f native/Cargo.lock ] || cp /repo/Cargo.lock native/Cargo.lock
(CARGO_TARGET_DIR=/verif/.cache/native-target cargo build --offline --bins --manifest-path native/Cargo.toml >/verif/.work/native-setup.log 2>&1) \
    || echo "warning: native harness build failed (see .work/native-setup.log)"
echo "setup ok"
