//! SMG: the message parser takes a Signature / One-Pass Signature / PKESK packet out of the
//! stream without checking that the packet body was used up. Octets of the body that the packet
//! parser did not need are either dropped silently (if they were already buffered, < 8 KiB) or
//! are parsed as the *next packets of the message* (if they lie beyond the first 8 KiB buffer).
//!
//! `PacketParser` (`Packet::from_reader`) refuses the same packets with `PacketTooLarge`.

use std::io::Read;

use pgp::{
    composed::Message,
    packet::{Packet, PacketParser},
};

fn short(e: impl std::fmt::Display) -> String {
    e.to_string().chars().take(200).collect()
}

/// v4 signature, binary, RSA, SHA256, no subpackets, hash prefix AA BB, one 8 bit MPI
const SIG_BODY: [u8; 13] = [4, 0, 1, 8, 0, 0, 0, 0, 0xAA, 0xBB, 0, 8, 0xFF];
/// v3 one pass signature, binary, SHA256, RSA, key id, last
const OPS_BODY: [u8; 13] = [3, 0, 8, 1, 1, 2, 3, 4, 5, 6, 7, 8, 1];
/// v3 PKESK, key id, RSA, one 8 bit MPI
const PKESK_BODY: [u8; 13] = [3, 1, 2, 3, 4, 5, 6, 7, 8, 1, 0, 8, 0xFF];
/// v6 PKESK, anonymous recipient (key version 0 = length 0), X25519, 32 octet public key,
/// length octet and an 8 octet wrapped key
fn pkesk_v6_body() -> Vec<u8> {
    let mut b = vec![6, 0, 25];
    b.extend([0x11; 32]);
    b.push(8);
    b.extend([0x22; 8]);
    b
}

/// literal data packet: binary, no file name, date 0, content
fn literal(content: &[u8]) -> Vec<u8> {
    let mut p = vec![0xCB, (6 + content.len()) as u8, b'b', 0, 0, 0, 0, 0];
    p.extend_from_slice(content);
    p
}

/// A new format packet with a five octet length.
fn packet(tag: u8, body: &[u8]) -> Vec<u8> {
    let mut p = vec![0xC0 | tag, 0xFF];
    p.extend_from_slice(&(body.len() as u32).to_be_bytes());
    p.extend_from_slice(body);
    p
}

/// `head` followed by `pad` zero octets and then `hidden`, all inside ONE packet body.
fn stuffed(tag: u8, head: &[u8], pad: usize, hidden: &[u8]) -> Vec<u8> {
    let mut body = head.to_vec();
    body.extend(std::iter::repeat(0u8).take(pad));
    body.extend_from_slice(hidden);
    packet(tag, &body)
}

/// Parses as a message and reads it; returns the content that was handed out, and whether
/// everything went through without an error.
fn read_message(bytes: &[u8]) -> (Vec<u8>, Result<String, String>) {
    let mut out = Vec::new();
    let mut msg = match Message::from_bytes(bytes) {
        Ok(msg) => msg,
        Err(e) => return (out, Err(format!("from_bytes: {}", short(e)))),
    };
    let kind = if msg.is_signed() {
        "signed"
    } else if msg.is_encrypted() {
        "encrypted"
    } else {
        "other"
    };
    if msg.is_encrypted() {
        return (out, Ok(kind.into()));
    }
    let mut buf = [0u8; 16];
    loop {
        match msg.read(&mut buf) {
            Ok(0) => return (out, Ok(kind.into())),
            Ok(n) => out.extend_from_slice(&buf[..n]),
            Err(e) => return (out, Err(format!("read: {}", short(e)))),
        }
    }
}

/// What the packet level parser makes of the same octets.
fn packet_view(bytes: &[u8]) -> Vec<String> {
    PacketParser::new(bytes)
        .map(|p| match p {
            Ok(Packet::LiteralData(_)) => "LiteralData".to_string(),
            Ok(p) => format!("{:?}", pgp::packet::PacketTrait::tag(&p)),
            Err(e) => format!("Err({})", short(e).chars().take(60).collect::<String>()),
        })
        .collect()
}

fn check(name: &str, bytes: &[u8], problems: &mut Vec<String>) {
    let view = packet_view(bytes);
    let (content, outcome) = read_message(bytes);
    let content = String::from_utf8_lossy(&content).to_string();
    // the packet parser refuses the over-long packet and never sees the hidden literal data
    let refused = view.iter().find(|p| p.starts_with("Err(packet contained more data"));
    assert!(refused.is_some(), "{name}: {view:?}");
    assert!(!view.iter().any(|p| p == "LiteralData" && name.contains("hidden")), "{name}");
    if outcome.is_ok() || content.contains("evil") {
        problems.push(format!(
            "{name}: message parser -> {outcome:?}, content {content:?}; packet parser -> {view:?}"
        ));
    }
}

#[test]
fn packets_with_unparsed_body_octets_are_not_accepted_in_messages() {
    let mut problems = Vec::new();
    let evil = literal(b"evil");
    // first buffer fill of the body reader is 8 KiB: the hidden packets start right after it
    let pad = 8 * 1024 - 13;

    // Signature packet, hidden literal data packet inside its body
    let bytes = stuffed(2, &SIG_BODY, pad, &evil);
    assert_eq!(bytes[..6], [0xC2, 0xFF, 0, 0, 0x20, 0x0C]);
    check("signature, hidden literal", &bytes, &mut problems);

    // shorter: the extra octets are simply dropped, an honest literal data packet follows
    let mut bytes = stuffed(2, &SIG_BODY, 100, &[]);
    bytes.extend(literal(b"hello"));
    check("signature, 100 extra octets", &bytes, &mut problems);

    // One-Pass Signature packet; hidden: literal data packet and the closing signature packet
    let mut hidden = evil.clone();
    hidden.extend(packet(2, &SIG_BODY));
    let bytes = stuffed(4, &OPS_BODY, pad, &hidden);
    check("one pass signature, hidden literal", &bytes, &mut problems);

    let mut bytes = stuffed(4, &OPS_BODY, 100, &[]);
    bytes.extend(literal(b"hello"));
    bytes.extend(packet(2, &SIG_BODY));
    check("one pass signature, 100 extra octets", &bytes, &mut problems);

    // PKESK packets; hidden: a SEIPD v1 packet
    let seipd = [0xD2, 5, 1, 0, 0, 0, 0];
    let bytes = stuffed(1, &PKESK_BODY, pad, &seipd);
    check("pkesk v3, hidden seipd", &bytes, &mut problems);

    let mut bytes = stuffed(1, &PKESK_BODY, 100, &[]);
    bytes.extend(seipd);
    check("pkesk v3, 100 extra octets", &bytes, &mut problems);

    // second ESK of a sequence (other code path in the message parser)
    let mut bytes = packet(1, &PKESK_BODY);
    bytes.extend(stuffed(1, &pkesk_v6_body(), 100, &[]));
    bytes.extend(seipd);
    check("second pkesk (v6), 100 extra octets", &bytes, &mut problems);

    assert!(
        problems.is_empty(),
        "{} of 7 malformed inputs accepted:\n{}",
        problems.len(),
        problems.join("\n")
    );
}

#[test]
fn well_formed_packets_are_still_accepted() {
    // controls: the same packets without extra octets
    let mut bytes = packet(2, &SIG_BODY);
    bytes.extend(literal(b"hello"));
    let (content, outcome) = read_message(&bytes);
    assert_eq!(outcome, Ok("signed".to_string()));
    assert_eq!(content, b"hello");

    let mut bytes = packet(4, &OPS_BODY);
    bytes.extend(literal(b"hello"));
    bytes.extend(packet(2, &SIG_BODY));
    let (content, outcome) = read_message(&bytes);
    assert_eq!(outcome, Ok("signed".to_string()));
    assert_eq!(content, b"hello");

    let mut bytes = packet(1, &PKESK_BODY);
    bytes.extend(packet(1, &pkesk_v6_body()));
    bytes.extend([0xD2, 5, 1, 0, 0, 0, 0]);
    let (_, outcome) = read_message(&bytes);
    assert_eq!(outcome, Ok("encrypted".to_string()));
}
