//! X: CFB `StreamDecryptor`, SEIPDv1 `CheckFirst` mode: when exactly
//! `max_message_size` octets were read after the prefix, the probe for "is there
//! more?" is `if source.read_u8().is_ok() { too long }`, so an ERROR of the
//! source is treated like a clean end of stream.  The very same source error is
//! reported for every other value of `max_message_size`.
//!
//! Public API only. Fails on the unchanged code.

use std::io::{self, BufReader, Read};

use pgp::{crypto::sym::SymmetricKeyAlgorithm, types::Seipdv1ReadMode};
use rand::SeedableRng;
use rand_chacha::ChaCha8Rng;

const KEY: [u8; 16] = [7u8; 16];
const ALG: SymmetricKeyAlgorithm = SymmetricKeyAlgorithm::AES128;
const PREFIX: usize = 16 + 2;

/// Delivers `data` in reads of at most `max_read` octets. When the read position is
/// at `fault_at`, fails `times` times with `kind` (without consuming anything), then goes on.
struct FaultyReader {
    data: Vec<u8>,
    pos: usize,
    max_read: usize,
    fault_at: usize,
    kind: io::ErrorKind,
    times: usize,
}

impl Read for FaultyReader {
    fn read(&mut self, buf: &mut [u8]) -> io::Result<usize> {
        if self.pos == self.fault_at && self.times > 0 {
            self.times -= 1;
            return Err(io::Error::new(self.kind, "injected source fault"));
        }
        let mut n = buf.len().min(self.max_read).min(self.data.len() - self.pos);
        if self.pos < self.fault_at {
            n = n.min(self.fault_at - self.pos);
        }
        buf[..n].copy_from_slice(&self.data[self.pos..self.pos + n]);
        self.pos += n;
        Ok(n)
    }
}

fn plaintext(len: usize) -> Vec<u8> {
    (0..len).map(|i| b'a' + (i % 26) as u8).collect()
}

fn ciphertext(pt: &[u8]) -> Vec<u8> {
    ALG.encrypt_protected(ChaCha8Rng::seed_from_u64(42), &KEY, pt)
        .unwrap()
}

/// Decrypt `stream`; the source fails permanently with `kind` once `fault_at` octets were delivered.
fn decrypt(
    stream: &[u8],
    fault_at: usize,
    kind: io::ErrorKind,
    max_message_size: usize,
) -> io::Result<Vec<u8>> {
    let source = BufReader::with_capacity(
        32,
        FaultyReader {
            data: stream.to_vec(),
            pos: 0,
            max_read: 32,
            fault_at,
            kind,
            times: usize::MAX,
        },
    );
    let mut dec = ALG
        .stream_decryptor_protected(
            Seipdv1ReadMode::CheckFirst { max_message_size },
            &KEY,
            source,
        )
        .unwrap();
    let mut out = Vec::new();
    dec.read_to_end(&mut out)?;
    Ok(out)
}

/// The source never reports end of stream: after the last octet it reports an error.
#[test]
fn x_source_error_at_the_size_limit_is_swallowed() {
    let pt = plaintext(100);
    let ct = ciphertext(&pt);
    let body = ct.len() - PREFIX; // 100 + 22

    // sanity: no fault -> decrypts, with exactly fitting limit too
    assert_eq!(
        decrypt(&ct, usize::MAX, io::ErrorKind::Other, body).unwrap(),
        pt
    );

    // Whatever the limit is, the source error has to surface.
    let mut swallowed = vec![];
    for limit in [body, body + 1, body + 100, 1 << 20] {
        let res = decrypt(&ct, ct.len(), io::ErrorKind::Other, limit);
        if res.is_ok() {
            swallowed.push(limit);
        }
    }
    assert!(
        swallowed.is_empty(),
        "source error converted into a clean result for max_message_size in {swallowed:?} \
         (message body is {body} octets)"
    );
}

/// The stream is longer than the limit, and the source fails right at the limit: the result
/// is a clean plaintext, neither the source error nor "too long" is reported.
#[test]
fn x_source_error_hides_trailing_data() {
    let pt = plaintext(100);
    let mut stream = ciphertext(&pt);
    let body = stream.len() - PREFIX;
    let fault_at = stream.len();
    stream.extend_from_slice(b"more data follows");

    // sanity: without the fault this is rejected
    let res = decrypt(&stream, usize::MAX, io::ErrorKind::Other, body);
    assert!(res.is_err());

    let res = decrypt(&stream, fault_at, io::ErrorKind::Other, body);
    assert!(
        res.is_err(),
        "source error swallowed, got a clean result of {} octets",
        res.unwrap().len()
    );
}

/// Interrupted is an error too as far as `read_u8` is concerned: it must not be taken for
/// "end of stream". (Either retrying or reporting it is fine.)
#[test]
fn x_interrupted_at_the_size_limit_is_not_eof() {
    let pt = plaintext(100);
    let mut stream = ciphertext(&pt);
    let body = stream.len() - PREFIX;
    let fault_at = stream.len();
    stream.extend_from_slice(b"more data follows");

    let source = BufReader::with_capacity(
        32,
        FaultyReader {
            data: stream,
            pos: 0,
            max_read: 32,
            fault_at,
            kind: io::ErrorKind::Interrupted,
            times: 1,
        },
    );
    let mut dec = ALG
        .stream_decryptor_protected(
            Seipdv1ReadMode::CheckFirst {
                max_message_size: body,
            },
            &KEY,
            source,
        )
        .unwrap();
    let mut out = Vec::new();
    let res = dec.read_to_end(&mut out);
    assert!(
        res.is_err(),
        "over-long stream accepted ({} octets of plaintext) because the probe was interrupted",
        out.len()
    );
}
