use pgp::composed::{CleartextSignedMessage, Deserializable, SignedSecretKey};
use pgp::types::Password;
use rand::SeedableRng;
use rand_chacha::ChaCha20Rng;

#[test]
fn cleartext_sign_then_verify_all_small_texts() {
    let (alice, _) =
        SignedSecretKey::from_armor_file("./tests/autocrypt/alice@autocrypt.example.sec.asc").unwrap();
    let pk = alice.primary_key.public_key();
    let mut bad = vec![];
    for text in ["hello\nworld", "hello \nworld", "tab\t\nx", "trail ", "-dash\n- x", "abc\r", "a\r\n", "", "\n", " \n "] {
        let rng = ChaCha20Rng::seed_from_u64(1);
        let msg = CleartextSignedMessage::sign(rng, text, &alice.primary_key, &Password::empty()).unwrap();
        if msg.verify(&pk).is_err() {
            bad.push(format!("{:?}: fresh message does not verify", text));
            continue;
        }
        let armored = msg.to_armored_string(Default::default()).unwrap();
        match CleartextSignedMessage::from_string(&armored) {
            Err(e) => bad.push(format!("{:?}: own output does not parse: {e}", text)),
            Ok((back, _)) => {
                if back.verify(&pk).is_err() {
                    bad.push(format!("{:?}: re-read message does not verify", text));
                }
                if back.signed_text() != msg.signed_text() {
                    bad.push(format!("{:?}: signed text changed {:?} -> {:?}", text, msg.signed_text(), back.signed_text()));
                }
            }
        }
    }
    assert!(bad.is_empty(), "{:#?}", bad);
}
