//! Defect M: a secret key packet with S2K usage octet 255 ("MalleableCfb", two-octet
//! checksum) is parsed as `S2kParams::Cfb` (usage octet 254, SHA-1 check). Consequences:
//! parse -> serialise is not the identity, and the key cannot be unlocked with its password.

use pgp::{
    composed::{Deserializable, SignedSecretKey},
    crypto::{hash::HashAlgorithm, sym::SymmetricKeyAlgorithm},
    packet::{PacketHeader, SecretKey},
    ser::Serialize,
    types::{
        EncryptedSecretParams, KeyDetails, KeyVersion, Password, S2kParams, SecretParams,
        StringToKey, Tag,
    },
};

const PASSWORD: &str = "hunter2";

/// Builds the body of a v4 Secret-Key packet with S2K usage octet 255, by hand.
/// Returns (packet body, plaintext secret params, the same key built through the library API).
fn usage_255_key() -> (Vec<u8>, SecretParams, SecretKey) {
    // Unprotected v4 test key
    let (alice, _) =
        SignedSecretKey::from_armor_file("./tests/autocrypt/alice@autocrypt.example.sec.asc")
            .unwrap();
    let primary = &alice.primary_key;
    assert_eq!(primary.version(), KeyVersion::V4);
    let SecretParams::Plain(plain) = primary.secret_params() else {
        panic!("expected unlocked test key");
    };

    // Cleartext: algorithm specific fields + two-octet checksum
    let mut secret = Vec::new();
    plain.to_writer(&mut secret, KeyVersion::V4).unwrap();

    let sym_alg = SymmetricKeyAlgorithm::AES128;
    let s2k = StringToKey::IteratedAndSalted {
        hash_alg: HashAlgorithm::Sha256,
        salt: [1, 2, 3, 4, 5, 6, 7, 8],
        count: 96,
    };
    let iv = [0x42u8; 16];
    let key = s2k.derive_key(PASSWORD.as_bytes(), sym_alg.key_size()).unwrap();
    sym_alg
        .encrypt_with_iv_regular(key.as_ref(), &iv, &mut secret)
        .unwrap();
    let ciphertext = secret;

    // public key fields | 255 | sym alg | s2k specifier | iv | encrypted(secret fields + checksum)
    let mut body = primary.public_key().to_bytes().unwrap();
    body.push(255);
    body.push(u8::from(sym_alg));
    body.extend_from_slice(&s2k.to_bytes().unwrap());
    body.extend_from_slice(&iv);
    body.extend_from_slice(&ciphertext);

    // The same key, built through the public API
    let api_key = SecretKey::new(
        primary.public_key().clone(),
        SecretParams::Encrypted(EncryptedSecretParams::new(
            ciphertext.into(),
            S2kParams::MalleableCfb {
                sym_alg,
                s2k,
                iv: iv.to_vec().into(),
            },
        )),
    )
    .unwrap();

    (body, primary.secret_params().clone(), api_key)
}

/// Sanity check of the demo input: the library's own writer produces exactly the hand-crafted
/// bytes for a `S2kParams::MalleableCfb` key, and that (never parsed) key unlocks fine.
#[test]
fn usage_255_input_is_valid() {
    let (body, plain, api_key) = usage_255_key();
    assert_eq!(hex::encode(api_key.to_bytes().unwrap()), hex::encode(&body));

    let mut unlocked = api_key.clone();
    unlocked.remove_password(&Password::from(PASSWORD)).unwrap();
    assert_eq!(unlocked.secret_params(), &plain);
}

#[test]
fn usage_255_parse_serialise_roundtrip() {
    let (body, _, _) = usage_255_key();
    println!("secret key packet body: {}", hex::encode(&body));

    let header = PacketHeader::new_fixed(Tag::SecretKey, body.len() as u32);
    let parsed = SecretKey::try_from_reader(header, &body[..]).expect("parses");

    let SecretParams::Encrypted(enc) = parsed.secret_params() else {
        panic!("expected locked key");
    };
    assert_eq!(
        enc.string_to_key_id(),
        255,
        "S2K usage octet after parsing: {:?}",
        enc.string_to_key_params()
    );
    assert_eq!(
        hex::encode(parsed.to_bytes().unwrap()),
        hex::encode(&body),
        "parse -> serialise must reproduce the packet"
    );
}

#[test]
fn usage_255_unlock_with_correct_password() {
    let (body, plain, _) = usage_255_key();

    let header = PacketHeader::new_fixed(Tag::SecretKey, body.len() as u32);
    let mut parsed = SecretKey::try_from_reader(header, &body[..]).expect("parses");

    parsed
        .remove_password(&Password::from(PASSWORD))
        .expect("unlocking a usage-255 key with its own password");
    assert_eq!(parsed.secret_params(), &plain);
}
