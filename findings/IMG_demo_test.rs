//! IMG: `ImageHeader::Unknown` (image header version != 1) is serialised with a wrong length field.
//!
//! The little-endian length field of an image header counts the whole header
//! (2 length octets + 1 version octet + data), which is how `ImageHeader::try_from_reader`
//! reads it (`take_bytes(length - 3)`). `to_writer` writes `1 + data.len()` and `write_len`
//! returns `1 + data.len()`, although `3 + data.len()` octets are emitted.

use pgp::{
    packet::{ImageHeader, Packet, PacketHeader, PacketParser, PacketTrait, UserAttribute},
    ser::Serialize,
    types::Tag,
};

/// user attribute body: subpacket len 7, type 1 (image), header len 0x0005 (LE), header version 2,
/// header data AA BB, image data CC
const BODY: [u8; 8] = [0x07, 0x01, 0x05, 0x00, 0x02, 0xAA, 0xBB, 0xCC];

#[test]
fn img_image_header_unknown_roundtrip() {
    let wire = [0x05u8, 0x00, 0x02, 0xAA, 0xBB];
    let hdr = ImageHeader::try_from_reader(&wire[..]).expect("parses");
    match &hdr {
        ImageHeader::Unknown { version, data } => {
            assert_eq!(*version, 2);
            assert_eq!(&data[..], &[0xAA, 0xBB]);
        }
        other => panic!("unexpected {other:?}"),
    }

    let mut out = Vec::new();
    hdr.to_writer(&mut out).expect("writes");
    assert_eq!(
        out.len(),
        hdr.write_len(),
        "write_len() must be the number of octets to_writer emits"
    );
    assert_eq!(
        hex::encode(&out),
        hex::encode(wire),
        "image header must re-serialise to the octets it was parsed from"
    );
}

#[test]
fn img_user_attribute_body_roundtrip() {
    let header = PacketHeader::new_fixed(Tag::UserAttribute, BODY.len() as u32);
    let attr = UserAttribute::try_from_reader(header, &BODY[..]).expect("parses");

    let mut out = Vec::new();
    attr.to_writer(&mut out).expect("writes");

    assert_eq!(
        out.len(),
        attr.write_len(),
        "UserAttribute::write_len() must be the number of octets to_writer emits"
    );
    assert_eq!(
        hex::encode(&out),
        hex::encode(BODY),
        "user attribute must re-serialise to the octets it was parsed from"
    );

    // what the library wrote, the library must read
    let again = UserAttribute::try_from_reader(header, &out[..]).expect("own output must parse");
    assert_eq!(attr, again);
}

#[test]
fn img_user_attribute_packet_roundtrip() {
    let mut packet = vec![0xD1u8, 0x08];
    packet.extend_from_slice(&BODY);

    let parsed: Vec<_> = PacketParser::new(&packet[..]).collect();
    assert_eq!(parsed.len(), 1);
    let p = parsed.into_iter().next().unwrap().expect("packet parses");
    let Packet::UserAttribute(ref attr) = p else {
        panic!("unexpected packet {p:?}");
    };
    assert_eq!(attr.packet_header().tag(), Tag::UserAttribute);

    let mut out = Vec::new();
    p.to_writer(&mut out).expect("writes");
    assert_eq!(
        hex::encode(&out),
        hex::encode(&packet),
        "packet must re-serialise to the octets it was parsed from (header announces write_len())"
    );

    // the re-serialised packet must be readable by the library
    let reparsed: Vec<_> = PacketParser::new(&out[..]).collect();
    assert_eq!(reparsed.len(), 1, "one packet expected, got {reparsed:?}");
    let q = reparsed
        .into_iter()
        .next()
        .unwrap()
        .expect("own output must parse");
    assert_eq!(p, q);
}
