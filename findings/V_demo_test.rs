//! V: CFB `StreamEncryptor`: a transient `ErrorKind::Interrupted` from the
//! plaintext source (which `std::io::copy`, `read_exact` and the default
//! `read_to_end` retry transparently) is turned into
//!   * a panic ("encryption panicked") when it hits while the first 8 KiB are
//!     pulled (Prefix -> Data), or
//!   * an `Ok` result with WRONG ciphertext when it hits in state Data: the
//!     partially filled 8 KiB buffer (plaintext + zero octets) is emitted
//!     unencrypted, and those plaintext octets never reach the MDC hash.
//!
//! Expected (C09): the result does not depend on how the source delivers data.
//!
//! Public API only. Fails on the unchanged code.

use std::{
    io::{self, Read},
    panic::{catch_unwind, AssertUnwindSafe},
};

use pgp::{crypto::sym::SymmetricKeyAlgorithm, types::Seipdv1ReadMode};
use rand::SeedableRng;
use rand_chacha::ChaCha8Rng;

const KEY: [u8; 16] = [7u8; 16];
const ALG: SymmetricKeyAlgorithm = SymmetricKeyAlgorithm::AES128;

fn rng() -> ChaCha8Rng {
    ChaCha8Rng::seed_from_u64(42)
}

/// Delivers `data` in reads of at most `max_read` octets. When the read position is
/// at `fault_at`, fails `times` times with `kind` (without consuming anything), then goes on.
struct FaultyReader {
    data: Vec<u8>,
    pos: usize,
    max_read: usize,
    fault_at: usize,
    kind: io::ErrorKind,
    times: usize,
}

impl Read for FaultyReader {
    fn read(&mut self, buf: &mut [u8]) -> io::Result<usize> {
        if self.pos == self.fault_at && self.times > 0 {
            self.times -= 1;
            return Err(io::Error::new(self.kind, "injected source fault"));
        }
        let mut n = buf.len().min(self.max_read).min(self.data.len() - self.pos);
        if self.pos < self.fault_at {
            n = n.min(self.fault_at - self.pos);
        }
        buf[..n].copy_from_slice(&self.data[self.pos..self.pos + n]);
        self.pos += n;
        Ok(n)
    }
}

fn interrupted_once(data: &[u8], at: usize) -> FaultyReader {
    FaultyReader {
        data: data.to_vec(),
        pos: 0,
        max_read: 1000,
        fault_at: at,
        kind: io::ErrorKind::Interrupted,
        times: 1,
    }
}

fn plaintext(len: usize) -> Vec<u8> {
    (0..len).map(|i| b'a' + (i % 26) as u8).collect()
}

fn reference(pt: &[u8]) -> Vec<u8> {
    let mut enc = ALG.stream_encryptor(rng(), &KEY, pt).unwrap();
    let mut ct = Vec::new();
    enc.read_to_end(&mut ct).unwrap();
    ct
}

fn decrypt(ct: &[u8]) -> io::Result<Vec<u8>> {
    let mut dec = ALG
        .stream_decryptor_protected(Seipdv1ReadMode::default(), &KEY, ct)
        .expect("decryptor");
    let mut out = Vec::new();
    dec.read_to_end(&mut out)?;
    Ok(out)
}

fn panic_msg(p: Box<dyn std::any::Any + Send>) -> String {
    p.downcast_ref::<String>()
        .cloned()
        .or_else(|| p.downcast_ref::<&str>().map(|s| s.to_string()))
        .unwrap_or_default()
}

fn contains(hay: &[u8], needle: &[u8]) -> bool {
    hay.windows(needle.len()).any(|w| w == needle)
}

/// A plain `Write` sink. (`std::io::copy` into a bare `Vec<u8>` is specialised by std to call
/// `read_to_end`, which this encryptor overrides; every other writer gets the `read` loop.)
struct Sink(Vec<u8>);

impl io::Write for Sink {
    fn write(&mut self, buf: &[u8]) -> io::Result<usize> {
        self.0.extend_from_slice(buf);
        Ok(buf.len())
    }
    fn flush(&mut self) -> io::Result<()> {
        Ok(())
    }
}

fn check_io_copy(pt_len: usize, fault_at: usize) {
    let pt = plaintext(pt_len);
    let expected = reference(&pt);
    assert_eq!(decrypt(&expected).unwrap(), pt);

    let mut enc = ALG
        .stream_encryptor(rng(), &KEY, interrupted_once(&pt, fault_at))
        .unwrap();
    let mut sink = Sink(Vec::new());
    let res = catch_unwind(AssertUnwindSafe(|| std::io::copy(&mut enc, &mut sink)));
    let ct = sink.0;
    let res = match res {
        Ok(r) => r,
        Err(p) => panic!(
            "io::copy over the encryptor panicked after one Interrupted: {:?}",
            panic_msg(p)
        ),
    };
    // Interrupted is transient, io::copy retries it: must succeed
    let n = res.expect("transient interruption must not fail the encryption");
    assert_eq!(n as usize, ct.len());

    let leaked_plaintext = contains(&ct, &pt[fault_at - 10..fault_at]);
    let leaked_zeros = contains(&ct, &[0u8; 64]);
    let dec = decrypt(&ct);
    assert!(
        ct == expected,
        "io::copy returned Ok({n}) but the ciphertext is wrong: len {} (expected {}), \
         plaintext in the clear: {leaked_plaintext}, run of 64 zero octets in the clear: \
         {leaked_zeros}, decrypting it yields: {:?}",
        ct.len(),
        expected.len(),
        dec.as_ref().map(|d| d == &pt).map_err(|e| e.to_string()),
    );
    assert_eq!(dec.unwrap(), pt);
}

/// 100 octets: 10 delivered, Interrupted once, then the rest.
/// The interruption hits the Prefix -> Data transition.
#[test]
fn v_interrupted_while_pulling_first_buffer() {
    check_io_copy(100, 10);
}

/// 8192 + 100 octets, Interrupted once after 8192 + 10: hits state Data.
#[test]
fn v_interrupted_in_data_state() {
    check_io_copy(8192 + 100, 8192 + 10);
}

/// The default `Read::read_exact` retries Interrupted too.
#[test]
fn v_interrupted_in_data_state_read_exact() {
    let pt = plaintext(8192 + 100);
    let expected = reference(&pt);
    let mut enc = ALG
        .stream_encryptor(rng(), &KEY, interrupted_once(&pt, 8192 + 10))
        .unwrap();
    let mut ct = vec![0u8; expected.len()];
    let res = catch_unwind(AssertUnwindSafe(|| enc.read_exact(&mut ct)));
    res.unwrap_or_else(|p| panic!("panicked: {:?}", panic_msg(p)))
        .unwrap();
    assert!(ct == expected, "read_exact returned Ok with wrong ciphertext");
}

/// A permanent (non retryable) error must surface from io::copy as an error.
#[test]
fn v_permanent_error_surfaces() {
    let pt = plaintext(8192 + 100);
    let source = FaultyReader {
        data: pt.clone(),
        pos: 0,
        max_read: 1000,
        fault_at: 8192 + 10,
        kind: io::ErrorKind::Other,
        times: usize::MAX,
    };
    let mut enc = ALG.stream_encryptor(rng(), &KEY, source).unwrap();
    let mut sink = Sink(Vec::new());
    let res = std::io::copy(&mut enc, &mut sink);
    assert!(res.is_err(), "permanent source error was swallowed");
    assert!(reference(&pt).starts_with(&sink.0));
}

/// The overridden `read_to_end` (also reached through `io::copy` into a `Vec<u8>`): std documents
/// that `read_to_end` ignores `Interrupted` and continues.
#[test]
fn v_interrupted_in_data_state_read_to_end() {
    let pt = plaintext(8192 + 100);
    let expected = reference(&pt);
    let mut enc = ALG
        .stream_encryptor(rng(), &KEY, interrupted_once(&pt, 8192 + 10))
        .unwrap();
    let mut ct = Vec::new();
    // tolerate an implementation that reports Interrupted instead of retrying itself
    let mut tries = 0;
    loop {
        tries += 1;
        let res = catch_unwind(AssertUnwindSafe(|| enc.read_to_end(&mut ct)))
            .unwrap_or_else(|p| panic!("panicked: {:?}", panic_msg(p)));
        match res {
            Ok(_) => break,
            Err(e) if e.kind() == io::ErrorKind::Interrupted && tries < 3 => {}
            Err(e) => panic!("{e:?}"),
        }
    }
    assert!(
        ct == expected,
        "read_to_end returned Ok with wrong ciphertext: {} octets, expected {}",
        ct.len(),
        expected.len()
    );
}
