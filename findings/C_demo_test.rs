//! Defect C: `pgp::base64::Base64Reader::read` indexes `into[n]` before checking
//! `n == into.len()`, so a read into an empty buffer panics (index out of bounds)
//! as soon as the source holds at least one base64 character.
//!
//! `std::io::Read::read` must accept an empty buffer and return `Ok(0)`.

use std::io::Read;

use pgp::base64::Base64Reader;

#[test]
fn c1_empty_destination_buffer_returns_zero() {
    let mut r = Base64Reader::new(&b"QQ=="[..]);

    let n = r
        .read(&mut [])
        .expect("reading into an empty buffer is not an error");
    assert_eq!(n, 0);

    // ... and nothing has been consumed by the empty read
    let mut rest = Vec::new();
    r.read_to_end(&mut rest).unwrap();
    assert_eq!(rest, b"QQ==");
}

#[test]
fn c2_empty_destination_buffer_after_leading_newline() {
    let mut r = Base64Reader::new(&b"\nQQ==\n"[..]);

    assert_eq!(r.read(&mut []).unwrap(), 0);

    let mut rest = Vec::new();
    r.read_to_end(&mut rest).unwrap();
    assert_eq!(rest, b"QQ==");
}
