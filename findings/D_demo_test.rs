//! Defect D: `pgp::base64::Base64Decoder::read` refills its input buffer at most once per
//! call. If that single refill leaves fewer than 4 buffered base64 characters it returns
//! `Ok(0)` - which every `Read` consumer interprets as end of stream - although the
//! underlying reader has not reached EOF.
//!
//! Short reads are legal for any `Read` implementation (sockets, pipes, chunked sources).

use std::io::{self, Read};

use pgp::base64::Base64Decoder;

/// A reader that hands out its data in fixed chunks, one chunk per `read` call.
struct Chunked {
    chunks: Vec<&'static [u8]>,
    next: usize,
}

impl Chunked {
    fn new(chunks: &[&'static [u8]]) -> Self {
        Self {
            chunks: chunks.to_vec(),
            next: 0,
        }
    }
}

impl Read for Chunked {
    fn read(&mut self, into: &mut [u8]) -> io::Result<usize> {
        let Some(chunk) = self.chunks.get(self.next) else {
            return Ok(0);
        };
        assert!(into.len() >= chunk.len(), "test chunks are tiny");
        into[..chunk.len()].copy_from_slice(chunk);
        self.next += 1;
        Ok(chunk.len())
    }
}

#[test]
fn d1_single_read_must_not_signal_eof_while_data_remains() {
    // "QUJD" is base64 for "ABC", delivered as "QU" + "JD"
    let mut dec = Base64Decoder::new(Chunked::new(&[b"QU", b"JD"]));

    let mut buf = [0u8; 16];
    let n = dec.read(&mut buf).unwrap();
    assert_eq!(
        &buf[..n],
        b"ABC",
        "read() returned Ok({n}) although the source still holds data"
    );
}

#[test]
fn d2_read_to_end_returns_everything() {
    let mut dec = Base64Decoder::new(Chunked::new(&[b"QU", b"JD"]));

    let mut out = Vec::new();
    dec.read_to_end(&mut out).unwrap();
    assert_eq!(out, b"ABC");
}

#[test]
fn d3_short_read_in_the_middle_of_a_stream_truncates_silently() {
    // "SGVsbG8gV29ybGQh" is base64 for "Hello World!".
    // After the first 8 characters the source delivers a 1 byte chunk.
    let mut dec = Base64Decoder::new(Chunked::new(&[b"SGVsbG8g", b"V", b"29ybGQh"]));

    let mut out = Vec::new();
    dec.read_to_end(&mut out).unwrap();
    assert_eq!(
        String::from_utf8_lossy(&out),
        "Hello World!",
        "stream was truncated without any error"
    );
}

#[test]
fn d4_one_byte_at_a_time() {
    let encoded: &'static [u8] = b"SGVsbG8gV29ybGQh";
    let chunks: Vec<&'static [u8]> = encoded.chunks(1).collect();
    let mut dec = Base64Decoder::new(Chunked::new(&chunks));

    let mut out = Vec::new();
    dec.read_to_end(&mut out).unwrap();
    assert_eq!(String::from_utf8_lossy(&out), "Hello World!");
}
