//! SGN: `SignGenerator::read` (src/composed/message/builder.rs) parks `State::Error` in
//! `self.state` while it works and every `?` leaves it there; the next `read` then panics with
//! "inconsistent state, panicked before".
//!
//! `SignGenerator` is private. The only consumers reachable through the public API are
//! `std::io::copy` (`NoEncryption::encrypt`), `util::fill_buffer` (the encryptors, the compressed
//! data partial generator) and the flate2/bzip2 encoders. Of those, only the ones that retry
//! `ErrorKind::Interrupted` read again after an error.
//!
//! Until commit 2d88e17 ("fill_buffer and fill_buffer_bytes retry ErrorKind::Interrupted") an
//! `Interrupted` reported by the data source of `MessageBuilder::from_reader` travelled up to
//! `SignGenerator::read`, was returned by it, and `io::copy` read again: panic. Since that commit
//! `LiteralDataPartialGenerator` (which sits below `SignGenerator`) absorbs `Interrupted`, so with a
//! reader source the panic is not reachable any more. What remains reachable is the fixed length
//! path (`MessageBuilder::from_file`), where `LiteralDataFixedGenerator` hands the error of the
//! `File` straight through.

use std::{
    io::{self, Read},
    panic::{catch_unwind, AssertUnwindSafe},
    sync::mpsc,
    thread,
    time::Duration,
};

use pgp::composed::{Message, MessageBuilder};
use rand::SeedableRng;
use rand_chacha::ChaCha8Rng;

fn panic_message(e: Box<dyn std::any::Any + Send>) -> String {
    e.downcast_ref::<String>()
        .cloned()
        .or_else(|| e.downcast_ref::<&str>().map(|s| s.to_string()))
        .unwrap_or_else(|| "<non-string panic>".into())
}

fn guarded<T: Send + 'static>(
    f: impl FnOnce() -> T + Send + 'static,
) -> std::result::Result<T, String> {
    let (tx, rx) = mpsc::channel();
    thread::spawn(move || {
        let r = catch_unwind(AssertUnwindSafe(f)).map_err(panic_message);
        let _ = tx.send(r);
    });
    rx.recv_timeout(Duration::from_secs(30))
        .expect("call did not finish within 30s (hang)")
}

/// Yields `data`, failing once with `kind` when the read position is `fail_at`.
struct Flaky {
    data: Vec<u8>,
    pos: usize,
    fail_at: usize,
    kind: io::ErrorKind,
    fired: bool,
}

impl Read for Flaky {
    fn read(&mut self, buf: &mut [u8]) -> io::Result<usize> {
        if !self.fired && self.pos >= self.fail_at {
            self.fired = true;
            return Err(io::Error::new(self.kind, "flaky source: one transient failure"));
        }
        let mut n = buf.len().min(self.data.len() - self.pos);
        if !self.fired {
            n = n.min(self.fail_at - self.pos);
        }
        buf[..n].copy_from_slice(&self.data[self.pos..self.pos + n]);
        self.pos += n;
        Ok(n)
    }
}

fn payload() -> Vec<u8> {
    (0..3000u32).map(|i| (i * 31 + 7) as u8).collect()
}

fn run(fail_at: usize, kind: io::ErrorKind) -> std::result::Result<Result<Vec<u8>, String>, String> {
    guarded(move || {
        let src = Flaky {
            data: payload(),
            pos: 0,
            fail_at,
            kind,
            fired: false,
        };
        let mut out = Vec::new();
        MessageBuilder::from_reader("", src)
            .to_writer(ChaCha8Rng::seed_from_u64(7), &mut out)
            .map(|_| out)
            .map_err(|e| e.to_string())
    })
}

fn check(fail_at: usize, kind: io::ErrorKind) {
    match run(fail_at, kind) {
        Err(msg) => panic!(
            "MessageBuilder::to_writer panicked (source failed once with {kind:?} at offset {fail_at}): {msg}"
        ),
        Ok(Err(_)) => {} // reporting the failure is fine
        Ok(Ok(out)) => {
            // success must mean the complete payload
            let mut msg = Message::from_bytes(&out[..]).expect("parses");
            let data = msg.as_data_vec().expect("reads");
            assert_eq!(
                data,
                payload(),
                "to_writer returned Ok but the message does not carry the payload \
                 (source failed once with {kind:?} at offset {fail_at})"
            );
        }
    }
}

#[test]
fn sgn_interrupted_at_offset_0() {
    check(0, io::ErrorKind::Interrupted);
}

#[test]
fn sgn_interrupted_at_offset_4() {
    check(4, io::ErrorKind::Interrupted);
}

#[test]
fn sgn_interrupted_mid_stream() {
    check(1000, io::ErrorKind::Interrupted);
}

#[test]
fn sgn_other_error() {
    for at in [0, 4, 1000] {
        check(at, io::ErrorKind::Other);
    }
}

/// Still reachable after 2d88e17: `MessageBuilder::from_file` uses the fixed length literal
/// generator, which passes a read error of the `File` straight on to `SignGenerator::read`.
/// A blocking `read(2)` (FIFO, tty, `/dev/stdin`, network file system) that is interrupted by a
/// signal whose handler was installed without `SA_RESTART` fails with `EINTR`, which
/// `std::fs::File` reports as `ErrorKind::Interrupted`; `io::copy` in `NoEncryption::encrypt` reads
/// again and `SignGenerator::read` panics.
#[cfg(target_os = "linux")]
#[test]
fn sgn_from_file_eintr() {
    use std::{
        ffi::CString,
        io::Write,
        os::{raw::c_int, unix::ffi::OsStrExt, unix::thread::JoinHandleExt},
        sync::atomic::{AtomicBool, Ordering},
        sync::Arc,
    };

    extern "C" {
        fn mkfifo(path: *const std::os::raw::c_char, mode: u32) -> c_int;
        fn signal(signum: c_int, handler: usize) -> usize;
        fn siginterrupt(sig: c_int, flag: c_int) -> c_int;
        fn pthread_kill(thread: std::os::unix::thread::RawPthread, sig: c_int) -> c_int;
    }
    extern "C" fn on_signal(_: c_int) {}
    const SIGUSR1: c_int = 10;

    let dir = tempfile::tempdir().unwrap();
    let path = dir.path().join("input.fifo");
    let cpath = CString::new(path.as_os_str().as_bytes()).unwrap();
    unsafe {
        assert_eq!(mkfifo(cpath.as_ptr(), 0o600), 0, "mkfifo");
        // a handler that does nothing, installed without SA_RESTART
        signal(SIGUSR1, on_signal as *const () as usize);
        assert_eq!(siginterrupt(SIGUSR1, 1), 0, "siginterrupt");
    }

    let done = Arc::new(AtomicBool::new(false));

    // the library reads the FIFO
    let reader = {
        let path = path.clone();
        let done = done.clone();
        thread::spawn(move || {
            let r = catch_unwind(AssertUnwindSafe(|| {
                let mut out = Vec::new();
                MessageBuilder::from_file(&path)
                    .to_writer(ChaCha8Rng::seed_from_u64(7), &mut out)
                    .map(|_| out.len())
                    .map_err(|e| e.to_string())
            }))
            .map_err(panic_message);
            done.store(true, Ordering::SeqCst);
            r
        })
    };

    // the other end: open (returns once the reader has opened its end), keep the reader blocked
    // in read(2) for a while, then deliver the data and close
    let mut w = std::fs::OpenOptions::new().write(true).open(&path).unwrap();
    for _ in 0..10 {
        thread::sleep(Duration::from_millis(50));
        if done.load(Ordering::SeqCst) {
            break;
        }
        unsafe {
            pthread_kill(reader.as_pthread_t(), SIGUSR1);
        }
    }
    let _ = w.write_all(b"hello world");
    drop(w);

    let deadline = std::time::Instant::now() + Duration::from_secs(20);
    while !done.load(Ordering::SeqCst) {
        assert!(std::time::Instant::now() < deadline, "to_writer hangs");
        thread::sleep(Duration::from_millis(20));
    }
    match reader.join().unwrap() {
        Ok(res) => println!("to_writer returned {res:?}"), // Ok or Err: both fine
        Err(msg) => panic!(
            "MessageBuilder::from_file(fifo).to_writer panicked after read(2) failed with EINTR: {msg}"
        ),
    }
}
