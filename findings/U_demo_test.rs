//! U: CFB `StreamEncryptor`: an `Err` from the plaintext source leaves the state
//! machine in a state from which the next `read()` either panics
//! (Prefix -> Data: state `Unknown`, "encryption panicked") or hands out the
//! partially filled, UNENCRYPTED internal buffer as if it were ciphertext
//! (state Data).
//!
//! Oracle used below: a consumer that calls `read` again after an `Err` must
//! either keep getting `Err`, or end up with exactly the ciphertext a well
//! behaved source yields for the same rng seed.  Panics and any other `Ok`
//! output are defects.
//!
//! Public API only. Fails on the unchanged code.

use std::{
    io::{self, Read},
    panic::{catch_unwind, AssertUnwindSafe},
};

use pgp::crypto::sym::SymmetricKeyAlgorithm;
use rand::SeedableRng;
use rand_chacha::ChaCha8Rng;

const KEY: [u8; 16] = [7u8; 16];
const ALG: SymmetricKeyAlgorithm = SymmetricKeyAlgorithm::AES128;

fn rng() -> ChaCha8Rng {
    ChaCha8Rng::seed_from_u64(42)
}

/// Delivers `data` in reads of at most `max_read` octets. When the read position is
/// at `fault_at`, fails `times` times with `kind` (without consuming anything), then goes on.
struct FaultyReader {
    data: Vec<u8>,
    pos: usize,
    max_read: usize,
    fault_at: usize,
    kind: io::ErrorKind,
    times: usize,
}

impl Read for FaultyReader {
    fn read(&mut self, buf: &mut [u8]) -> io::Result<usize> {
        if self.pos == self.fault_at && self.times > 0 {
            self.times -= 1;
            return Err(io::Error::new(self.kind, "injected source fault"));
        }
        let mut n = buf.len().min(self.max_read).min(self.data.len() - self.pos);
        if self.pos < self.fault_at {
            n = n.min(self.fault_at - self.pos);
        }
        buf[..n].copy_from_slice(&self.data[self.pos..self.pos + n]);
        self.pos += n;
        Ok(n)
    }
}

fn plaintext(len: usize) -> Vec<u8> {
    (0..len).map(|i| b'a' + (i % 26) as u8).collect()
}

fn reference(pt: &[u8]) -> Vec<u8> {
    let mut enc = ALG.stream_encryptor(rng(), &KEY, pt).unwrap();
    let mut ct = Vec::new();
    enc.read_to_end(&mut ct).unwrap();
    ct
}

/// A consumer that retries `retries` times after an error (of any kind).
fn drain_retrying<R: Read>(mut r: R, mut retries: usize) -> (Vec<u8>, io::Result<()>) {
    let mut out = Vec::new();
    let mut buf = [0u8; 4096];
    loop {
        match r.read(&mut buf) {
            Ok(0) => return (out, Ok(())),
            Ok(n) => out.extend_from_slice(&buf[..n]),
            Err(e) => {
                if retries == 0 {
                    return (out, Err(e));
                }
                retries -= 1;
            }
        }
    }
}

fn check(pt_len: usize, fault_at: usize) {
    let pt = plaintext(pt_len);
    let expected = reference(&pt);
    let source = FaultyReader {
        data: pt.clone(),
        pos: 0,
        max_read: 1000,
        fault_at,
        kind: io::ErrorKind::Other,
        times: 1,
    };
    let enc = ALG.stream_encryptor(rng(), &KEY, source).unwrap();

    let res = catch_unwind(AssertUnwindSafe(|| drain_retrying(enc, 3)));
    let (out, status) = match res {
        Ok(r) => r,
        Err(p) => {
            let msg = p
                .downcast_ref::<String>()
                .cloned()
                .or_else(|| p.downcast_ref::<&str>().map(|s| s.to_string()))
                .unwrap_or_default();
            panic!("read() after a source error panicked: {msg:?}");
        }
    };
    match status {
        Err(_) => {
            // fine: the error keeps surfacing. What was handed out before must be a
            // prefix of the real ciphertext.
            assert!(
                expected.starts_with(&out),
                "octets released before the error are not ciphertext"
            );
        }
        Ok(()) => {
            // the encryptor claims to have recovered: then the result must be right
            let clear = out
                .windows(10)
                .any(|w| pt.windows(10).any(|p| p == w) || w == [0u8; 10]);
            assert_eq!(
                out.len(),
                expected.len(),
                "source error was turned into a clean result of the wrong length \
                 (plaintext or zero octets in the clear: {clear})"
            );
            assert!(
                out == expected,
                "source error was turned into a clean but wrong ciphertext \
                 (plaintext or zero octets in the clear: {clear})"
            );
        }
    }
}

/// Source fails on the very first read: this is the Prefix -> Data transition.
#[test]
fn u_source_error_in_prefix_to_data_transition() {
    check(100, 0);
}

/// Same transition, after the source delivered some data.
#[test]
fn u_source_error_in_prefix_to_data_transition_partial() {
    check(100, 10);
}

/// Source fails once in state Data (the first 8192 octets are consumed by the
/// Prefix -> Data transition).
#[test]
fn u_source_error_in_data_state() {
    check(8192 + 100, 8192 + 10);
}

/// Source fails once in state Data, before delivering anything for that buffer.
#[test]
fn u_source_error_in_data_state_at_buffer_start() {
    check(8192 + 100, 8192);
}
