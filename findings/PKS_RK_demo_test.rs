//! findings PKS / RK (C05): SubpacketData::write_len disagreed with the bytes written
use pgp::packet::{Subpacket, SubpacketData};
use pgp::types::{RevocationKey, RevocationKeyClass};
use pgp::crypto::public_key::PublicKeyAlgorithm;
use pgp::ser::Serialize;

#[test]
fn preferred_key_server_with_non_ascii_uri_announces_its_real_length() {
    let data = SubpacketData::PreferredKeyServer("hkps://schlüssel.example".to_string());
    assert_eq!(data.write_len(), data.to_bytes().unwrap().len(), "SubpacketData::write_len != bytes written");
    let sp = Subpacket::regular(data).unwrap();
    assert_eq!(sp.write_len(), sp.to_bytes().unwrap().len(), "Subpacket::write_len != bytes written");
}

#[test]
fn revocation_key_with_v6_fingerprint_announces_its_real_length() {
    let data = SubpacketData::RevocationKey(RevocationKey::new(
        RevocationKeyClass::Default,
        PublicKeyAlgorithm::RSA,
        &[7u8; 32],
    ));
    assert_eq!(data.write_len(), data.to_bytes().unwrap().len(), "SubpacketData::write_len != bytes written");
}
