//! Defect A: `Dearmor` with `DearmorOptions::enable_crc24_check()` never feeds the body
//! into its CRC-24 hasher (`if let Some(mut crc) = self.crc` updates a *copy*, the hasher
//! is `Copy`). The "calculated" CRC therefore always is the CRC-24 initial value 0xB704CE.
//!
//! Consequences demonstrated here (public API only):
//!  * every correctly armored block with a correct `=XXXX` checksum is rejected
//!  * the constant checksum `=twTO` (base64 of B7 04 CE) is accepted for any body

use std::io::{self, BufReader, Read};

use pgp::{
    armor::{self, ArmorCrc24Status, BlockType, Dearmor, DearmorOptions},
    composed::{ArmorOptions, Deserializable, SignedSecretKey},
    ser::Serialize,
};

struct Raw(Vec<u8>);

impl Serialize for Raw {
    fn to_writer<W: io::Write>(&self, w: &mut W) -> pgp::errors::Result<()> {
        w.write_all(&self.0)?;
        Ok(())
    }
    fn write_len(&self) -> usize {
        self.0.len()
    }
}

/// CRC-24 straight from RFC 4880, section 6.1 (independent of the `crc24` crate).
fn crc24_rfc4880(data: &[u8]) -> u32 {
    let mut crc: u32 = 0x00B7_04CE;
    for &b in data {
        crc ^= u32::from(b) << 16;
        for _ in 0..8 {
            crc <<= 1;
            if crc & 0x0100_0000 != 0 {
                crc ^= 0x0186_4CFB;
            }
        }
    }
    crc & 0x00FF_FFFF
}

fn payload() -> Vec<u8> {
    (0u8..200).collect()
}

/// Armor `payload()` using the library's own writer, including the CRC-24 footer line.
fn armored_with_checksum() -> String {
    let mut out = Vec::new();
    armor::write(&Raw(payload()), BlockType::File, &mut out, None, true).unwrap();
    String::from_utf8(out).unwrap()
}

/// Replace the `=XXXX` checksum line of an armored block.
fn replace_checksum(armored: &str, new: &str) -> String {
    let mut replaced = 0;
    let out: Vec<String> = armored
        .lines()
        .map(|l| {
            if l.len() == 5 && l.starts_with('=') {
                replaced += 1;
                new.to_string()
            } else {
                l.to_string()
            }
        })
        .collect();
    assert_eq!(replaced, 1, "expected exactly one checksum line");
    out.join("\n") + "\n"
}

fn dearmor_checked(armored: &str) -> (io::Result<Vec<u8>>, ArmorCrc24Status) {
    let mut dec = Dearmor::with_options(
        BufReader::new(armored.as_bytes()),
        DearmorOptions::new().enable_crc24_check(),
    );
    let mut out = Vec::new();
    let res = dec.read_to_end(&mut out).map(|_| out);
    (res, dec.crc24_status())
}

#[test]
fn a1_correct_checksum_is_accepted() {
    let armored = armored_with_checksum();
    let expected_crc = crc24_rfc4880(&payload());

    let (res, status) = dearmor_checked(&armored);
    assert_eq!(
        status,
        ArmorCrc24Status::CheckedOk { crc: expected_crc },
        "armor produced by armor::write:\n{armored}"
    );
    assert_eq!(res.expect("a correct CRC-24 must be accepted"), payload());
}

#[test]
fn a2_wrong_checksum_reports_the_real_crc() {
    let armored = replace_checksum(&armored_with_checksum(), "=aaaa");
    let expected_crc = crc24_rfc4880(&payload());

    let (res, status) = dearmor_checked(&armored);
    assert!(res.is_err(), "a wrong CRC-24 must be rejected");
    assert_eq!(
        status,
        ArmorCrc24Status::CheckedInvalid {
            footer_crc: 0x69a69a,
            calculated_crc: expected_crc,
        }
    );
}

#[test]
fn a3_crc_init_value_is_not_a_universal_checksum() {
    // "twTO" is base64 of B7 04 CE, the CRC-24 initial value (= CRC-24 of the empty string)
    let armored = replace_checksum(&armored_with_checksum(), "=twTO");
    assert_ne!(crc24_rfc4880(&payload()), 0xB704CE);

    let (res, status) = dearmor_checked(&armored);
    assert!(
        res.is_err(),
        "checksum =twTO accepted for a 200 byte body, status: {status:?}"
    );
}

#[test]
fn a4_high_level_key_roundtrip_with_crc_check() {
    let (key, _) = SignedSecretKey::from_armor_single(
        std::fs::File::open("./tests/draft-bre-openpgp-samples-00/bob.sec.asc").unwrap(),
    )
    .unwrap();
    // include_checksum defaults to true
    let armored = key.to_armored_bytes(ArmorOptions::default()).unwrap();

    let res = SignedSecretKey::from_armor_single_buf_with_options(
        &armored[..],
        DearmorOptions::new().enable_crc24_check(),
    );
    let (key2, _) = res.expect("key armored by this library must pass its own CRC-24 check");
    assert_eq!(key, key2);
}
