//! LSY: boolean signature subpackets are parsed lossily (`read_u8()? == 1` for
//! ExportableCertification / Revocable / PrimaryUserId, `== 0x80` for the notation flags) and the
//! digest of a parsed signature is computed over the *re-serialisation* of the parsed hashed
//! subpackets (`SignatureConfig::hash_signature_data`), not over the octets that were on the wire.
//! So an octet inside the *hashed* area can be changed without invalidating the signature.

use std::fs::File;

use pgp::{
    composed::{Deserializable, SignedSecretKey},
    crypto::hash::HashAlgorithm,
    packet::{
        PacketHeader, Signature, SignatureConfig, SignatureType, Subpacket, SubpacketData,
    },
    ser::Serialize,
    types::{KeyDetails, Password, Tag, Timestamp},
};
use sha2::{Digest, Sha256};

const DATA: &[u8] = b"the signed document";

/// Returns the signature body (no packet header) and the offset of the value octet of the
/// Revocable subpacket inside it.
fn make_signature(key: &SignedSecretKey, revocable: bool) -> (Vec<u8>, usize) {
    let signer = &key.primary_key;
    let mut config = SignatureConfig::v4(
        SignatureType::Binary,
        signer.algorithm(),
        HashAlgorithm::Sha256,
    );
    config.hashed_subpackets = vec![
        Subpacket::regular(SubpacketData::SignatureCreationTime(Timestamp::now())).unwrap(),
        Subpacket::regular(SubpacketData::IssuerFingerprint(signer.fingerprint())).unwrap(),
        Subpacket::regular(SubpacketData::Revocable(revocable)).unwrap(),
    ];
    let sig = config.sign(signer, &Password::empty(), DATA).expect("signs");
    sig.verify(&signer.public_key(), DATA)
        .expect("fresh signature verifies");

    let mut body = Vec::new();
    sig.to_writer(&mut body).unwrap();

    // walk the hashed area: version, type, pk alg, hash alg, u16 length, subpackets
    assert_eq!(body[0], 4);
    let hashed_len = u16::from_be_bytes([body[4], body[5]]) as usize;
    let mut i = 6;
    let end = 6 + hashed_len;
    let mut value_at = None;
    while i < end {
        let len = body[i] as usize;
        assert!(len < 192, "one octet subpacket lengths only");
        if body[i + 1] & 0x7F == 7 {
            // Revocable
            assert_eq!(len, 2);
            value_at = Some(i + 2);
        }
        i += 1 + len;
    }
    (body, value_at.expect("revocable subpacket present"))
}

fn parse(body: &[u8]) -> Signature {
    let header = PacketHeader::new_fixed(Tag::Signature, body.len() as u32);
    Signature::try_from_reader(header, body).expect("parses")
}

/// SHA-256 over what RFC 9580 5.2.4 says is hashed for a v4 signature:
/// data || (version .. end of hashed subpackets, as on the wire) || 04 FF u32(len)
fn wire_digest(body: &[u8]) -> Vec<u8> {
    let hashed_len = u16::from_be_bytes([body[4], body[5]]) as usize;
    let prefix = &body[..6 + hashed_len];
    let mut h = Sha256::new();
    h.update(DATA);
    h.update(prefix);
    h.update([0x04, 0xFF]);
    h.update((prefix.len() as u32).to_be_bytes());
    h.finalize().to_vec()
}

/// The digest the library computes for a parsed signature.
fn library_digest(sig: &Signature) -> Vec<u8> {
    let config = sig.config().expect("known signature");
    let mut hasher = HashAlgorithm::Sha256.new_hasher().unwrap();
    hasher.update(DATA);
    let len = config.hash_signature_data(&mut hasher).unwrap();
    hasher.update(&config.trailer(len).unwrap());
    hasher.finalize().to_vec()
}

fn key() -> SignedSecretKey {
    let (key, _) = SignedSecretKey::from_armor_single(
        File::open("./tests/autocrypt/alice@autocrypt.example.sec.asc").unwrap(),
    )
    .unwrap();
    key
}

/// (a) flip the value octet of the hashed Revocable subpacket from 0x00 to 0x02:
/// the signature must not verify any more.
#[test]
fn lsy_a_modified_hashed_octet_still_verifies() {
    let key = key();
    let (body, value_at) = make_signature(&key, false);
    assert_eq!(body[value_at], 0x00);

    let mut tampered = body.clone();
    tampered[value_at] = 0x02;
    assert_ne!(tampered, body);

    // sanity: the untouched octets verify
    parse(&body)
        .verify(&key.primary_key.public_key(), DATA)
        .expect("original verifies");

    let sig = parse(&tampered);
    let res = sig.verify(&key.primary_key.public_key(), DATA);
    assert!(
        res.is_err(),
        "an octet of the HASHED subpacket area was changed (Revocable 0x00 -> 0x02 at body offset \
         {value_at}) and Signature::verify still returns {res:?}"
    );
}

/// (a') the same in the other direction: 0x01 (true) -> 0x00 is detected, because the parsed
/// value changes; 0x00 -> 0xFF is not.
#[test]
fn lsy_a2_which_values_are_detected() {
    let key = key();
    let (body, value_at) = make_signature(&key, false);
    let mut undetected = Vec::new();
    for v in 1..=255u8 {
        let mut t = body.clone();
        t[value_at] = v;
        if parse(&t)
            .verify(&key.primary_key.public_key(), DATA)
            .is_ok()
        {
            undetected.push(v);
        }
    }
    assert!(
        undetected.is_empty(),
        "{} of 255 modifications of a hashed octet go undetected (0x{:02x}..=0x{:02x})",
        undetected.len(),
        undetected.first().unwrap(),
        undetected.last().unwrap()
    );
}

/// (b) the digest the library computes is not the digest of the octets on the wire.
#[test]
fn lsy_b_digest_is_not_over_the_wire_octets() {
    let key = key();
    let (body, value_at) = make_signature(&key, false);
    let mut tampered = body.clone();
    tampered[value_at] = 0x02;

    // for the untouched signature both agree, and match the two check octets in the packet
    let orig = parse(&body);
    assert_eq!(library_digest(&orig), wire_digest(&body));
    assert_eq!(
        &wire_digest(&body)[..2],
        &orig.signed_hash_value().unwrap()[..]
    );

    let sig = parse(&tampered);
    assert_ne!(wire_digest(&tampered), wire_digest(&body));
    assert_eq!(
        hex::encode(library_digest(&sig)),
        hex::encode(wire_digest(&tampered)),
        "the digest computed by the library for the parsed signature (left) is not SHA-256 over \
         the octets that were received (right); it equals the digest of the original: {}",
        library_digest(&sig) == wire_digest(&body)
    );
}
