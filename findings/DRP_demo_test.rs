//! DRP: `armor::write` flushes the last partial base64 quantum and the last partial line only in
//! `Drop` (of the base64 `EncoderWriter` and of `LineWriter`), where write errors are swallowed.
//! If the sink fails exactly there, `armor::write` returns `Ok(())` although the armor it produced
//! is missing the end of the body (or has the last body line glued to the checksum line).

use std::io::{self, Read, Write};

use pgp::{
    armor::{self, BlockType, Dearmor},
    errors::Result,
    ser::Serialize,
};

struct Raw(Vec<u8>);

impl Serialize for Raw {
    fn to_writer<W: io::Write>(&self, w: &mut W) -> Result<()> {
        w.write_all(&self.0)?;
        Ok(())
    }
    fn write_len(&self) -> usize {
        self.0.len()
    }
}

/// A sink whose `fail_on`-th call to `write` (1-based) fails, once. Everything else is stored.
struct FailNth {
    out: Vec<u8>,
    calls: usize,
    fail_on: usize,
    failed: bool,
}

impl Write for FailNth {
    fn write(&mut self, buf: &[u8]) -> io::Result<usize> {
        self.calls += 1;
        if self.calls == self.fail_on {
            self.failed = true;
            return Err(io::Error::other("sink: disk full"));
        }
        self.out.extend_from_slice(buf);
        Ok(buf.len())
    }
    fn flush(&mut self) -> io::Result<()> {
        Ok(())
    }
}

fn payload() -> Vec<u8> {
    (0..100u8).map(|i| i.wrapping_mul(13).wrapping_add(5)).collect()
}

fn reference() -> (Vec<u8>, usize) {
    let mut sink = FailNth {
        out: Vec::new(),
        calls: 0,
        fail_on: usize::MAX,
        failed: false,
    };
    armor::write(&Raw(payload()), BlockType::Message, &mut sink, None, true).unwrap();
    (sink.out, sink.calls)
}

#[test]
fn drp_write_error_must_not_be_swallowed() {
    let (good, total_calls) = reference();
    let mut silent_corruptions = Vec::new();

    for fail_on in 1..=total_calls {
        let mut sink = FailNth {
            out: Vec::new(),
            calls: 0,
            fail_on,
            failed: false,
        };
        let res = armor::write(&Raw(payload()), BlockType::Message, &mut sink, None, true);
        assert!(sink.failed, "write #{fail_on} was never issued");

        if res.is_ok() {
            // The sink refused a write and `armor::write` still claims success.
            let text = String::from_utf8_lossy(&sink.out).to_string();
            let mut decoded = Vec::new();
            let dec = Dearmor::new(io::Cursor::new(sink.out.clone()))
                .read_to_end(&mut decoded)
                .map_err(|e| e.to_string());
            silent_corruptions.push(format!(
                "write #{fail_on} of {total_calls} failed, armor::write returned Ok(()); \
                 output differs from the reference: {}; decodes to the payload: {} ({dec:?})\n{text}",
                sink.out != good,
                decoded == payload(),
            ));
        }
    }

    assert!(
        silent_corruptions.is_empty(),
        "armor::write swallowed a sink error:\n{}",
        silent_corruptions.join("\n")
    );
}

/// The same construct (base64 encoder over a line writer, finished only in `Drop`) is used by
/// `MessageBuilder::to_armored_writer`.
#[test]
fn drp_message_builder_to_armored_writer() {
    use pgp::composed::{ArmorOptions, Message, MessageBuilder};
    use rand::SeedableRng;

    let data = payload();
    let run = |fail_on: usize| {
        let mut sink = FailNth {
            out: Vec::new(),
            calls: 0,
            fail_on,
            failed: false,
        };
        let rng = rand_chacha::ChaCha8Rng::seed_from_u64(1);
        let res = MessageBuilder::from_bytes("", data.clone())
            .to_armored_writer(rng, ArmorOptions::default(), &mut sink)
            .map_err(|e| e.to_string());
        (res, sink)
    };

    let (res, reference) = run(usize::MAX);
    res.unwrap();
    let total_calls = reference.calls;

    let mut silent_corruptions = Vec::new();
    for fail_on in 1..=total_calls {
        let (res, sink) = run(fail_on);
        assert!(sink.failed);
        if res.is_ok() {
            let text = String::from_utf8_lossy(&sink.out).to_string();
            let roundtrip = Message::from_armor(io::Cursor::new(sink.out.clone()))
                .map_err(|e| e.to_string())
                .and_then(|(mut m, _)| m.as_data_vec().map_err(|e| e.to_string()));
            silent_corruptions.push(format!(
                "write #{fail_on} of {total_calls} failed, to_armored_writer returned Ok(()); \
                 reads back as the payload: {} ({:?})\n{text}",
                roundtrip.as_ref().ok() == Some(&data),
                roundtrip.map(|d| d.len()),
            ));
        }
    }
    assert!(
        silent_corruptions.is_empty(),
        "to_armored_writer swallowed a sink error:\n{}",
        silent_corruptions.join("\n")
    );
}
