use pgp::composed::{Message, MessageBuilder};
use std::io::Read;
#[test]
fn empty_read_on_a_message_is_not_the_end_of_the_data() {
    let payload: Vec<u8> = (0..16385u32).map(|i| (i % 251) as u8).collect();
    let mut rng = rand::thread_rng();
    let bytes = MessageBuilder::from_bytes("", payload.clone()).to_vec(&mut rng).unwrap();
    let mut msg = Message::from_bytes(&bytes[..]).unwrap();
    // std::io::Read: a read into an empty buffer returns Ok(0) and has no other effect
    let r = msg.read(&mut []);
    assert!(matches!(r, Ok(0)), "read(&mut []) on a fresh message: {}", r.err().map(|e| e.to_string().chars().take(120).collect::<String>()).unwrap_or_default());
    let mut out = Vec::new();
    let mut block = [0u8; 16];
    loop {
        let n = msg.read(&mut block).unwrap();
        if n == 0 { break; }
        out.extend_from_slice(&block[..n]);
        assert!(matches!(msg.read(&mut []), Ok(0)), "empty read mid-stream after {} octets", out.len());
    }
    assert_eq!(out, payload);
}
