//! Defect Q: composite `Serialize::write_len` impls forget the tag octet of component packets.
//!
//! `SignedPublicKey::write_len`, `SignedPublicSubKey::write_len` and
//! `SignedKeyDetails::write_len` add `PacketLength::fixed_encoding_len(body) + body` per
//! component packet, i.e. the length octets and the body, but not the leading tag octet
//! (and they assume the OpenPGP format length encoding even for legacy format headers).
//!
//! So the announced length is short by one octet for the primary key packet, for every subkey
//! packet, for every subkey binding signature and for every direct / revocation signature.

use pgp::{
    composed::{Deserializable, SignedPublicKey, SignedSecretKey},
    packet::PacketParser,
    ser::Serialize,
};

fn count_packets(bytes: &[u8]) -> usize {
    PacketParser::new(bytes).map(|p| p.unwrap()).count()
}

#[test]
fn q_signed_public_key_write_len() {
    let (key, _) =
        SignedPublicKey::from_armor_file("tests/autocrypt/alice@autocrypt.example.pub.asc")
            .unwrap();

    let bytes = key.to_bytes().unwrap();
    // sanity: what is written parses back to an equal certificate
    let back = SignedPublicKey::from_bytes(&bytes[..]).unwrap();
    assert_eq!(back, key);
    println!(
        "{} packets, {} subkeys",
        count_packets(&bytes),
        key.public_subkeys.len()
    );

    assert_eq!(
        key.write_len(),
        bytes.len(),
        "SignedPublicKey::write_len() != to_bytes().len()"
    );
}

#[test]
fn q_signed_public_subkey_write_len() {
    let (key, _) =
        SignedPublicKey::from_armor_file("tests/autocrypt/alice@autocrypt.example.pub.asc")
            .unwrap();
    assert!(!key.public_subkeys.is_empty());
    for sub in &key.public_subkeys {
        assert_eq!(
            sub.write_len(),
            sub.to_bytes().unwrap().len(),
            "SignedPublicSubKey::write_len() != to_bytes().len()"
        );
    }
}

/// `SignedKeyDetails::write_len` is shared with `SignedSecretKey`: a key with a direct key
/// signature (every v6 key) announces a wrong length, too.
#[test]
fn q_signed_key_details_write_len() {
    // RFC 9580 A.4, sample v6 secret key: has a direct key signature
    let (key, _) =
        SignedSecretKey::from_armor_file("tests/rfc9580/v6-25519-annex-a-4/tsk.asc").unwrap();
    assert!(!key.details.direct_signatures.is_empty());

    assert_eq!(
        key.details.write_len(),
        key.details.to_bytes().unwrap().len(),
        "SignedKeyDetails::write_len() != to_bytes().len()"
    );
    assert_eq!(
        key.write_len(),
        key.to_bytes().unwrap().len(),
        "SignedSecretKey::write_len() != to_bytes().len()"
    );
}
