//! Defect SM: `SignatureManyReader` pairs digests and signature packets of DIFFERENT packets.
//!
//! When the body of a signed message ends, `SignatureManyReader::fill_inner` pairs the leading
//! signature packets (one-pass headers / prefixed signatures) with the trailing signature
//! packets and fills two vectors, `hashes` and `signatures`.
//! `Message::verify_nested_explicit(index, ..)` (and `verify` / `verify_nested`) read BOTH with
//! the same index.
//!
//! For a leading packet that has no hasher (a one-pass header with an unknown hash algorithm
//! octet, or a prefixed signature of an unknown version) the loop pushes `None` to `hashes`, but
//! nothing to `signatures`, and it does not consume a trailing signature packet either. After
//! such a "dead" header `hashes[j]` and `signatures[j]` belong to different packets.
//!
//! Layout used by the forgery (D = signed data, S = genuine signature by key K, S' = S with
//! modified hashed subpackets, same MPIs and same 2 octet hash prefix, F = any signature packet):
//!
//! ```text
//!   OPS(hash 99)  OPS(S)  OPS(S)  LIT(D)  F  S'  S
//!   leading 0     1       2               T0 T1  T2
//! ```
//!
//! unchanged code: trailing packets are popped from the back, for live headers only:
//!   leading 1 <-> T2 = S,  leading 2 <-> T1 = S'   (T0 is never used)
//!   hashes     = [None,   h(D,S),   h(D,S')]
//!   signatures = [(1,S),  (2,S')]
//! so index 1 compares the digest made over S with the packet S' and reports S' as valid.

use pgp::{
    composed::{KeyType, Message, MessageBuilder, SecretKeyParamsBuilder, VerificationResult},
    crypto::hash::HashAlgorithm,
    packet::{
        LiteralData, Notation, OnePassSignature, OpsVersionSpecific, Packet, PacketHeader,
        PacketParser, PacketTrait, Signature, SignatureVersion, Subpacket, SubpacketData,
    },
    types::{Password, Tag, Timestamp},
};
use rand::SeedableRng;
use rand_chacha::ChaCha8Rng;

const PLAIN: &str = "pay 10 EUR to bob";

struct Genuine {
    key: pgp::composed::SignedSecretKey,
    ops: OnePassSignature,
    lit: LiteralData,
    sig: Signature,
}

/// Sign `PLAIN` with a fresh key through the regular API and take the message apart.
fn genuine() -> Genuine {
    let mut rng = ChaCha8Rng::seed_from_u64(1);

    let key = SecretKeyParamsBuilder::default()
        .key_type(KeyType::Ed25519Legacy)
        .can_sign(true)
        .primary_user_id("alice".to_string())
        .build()
        .expect("params")
        .generate(&mut rng)
        .expect("generate");

    let mut builder = MessageBuilder::from_bytes("", PLAIN.as_bytes());
    builder.sign(&key.primary_key, Password::empty(), HashAlgorithm::Sha256);
    let signed = builder.to_vec(&mut rng).expect("sign");

    // sanity: the genuine message verifies
    let mut msg = Message::from_bytes(&signed[..]).expect("parse");
    assert_eq!(msg.as_data_string().expect("read"), PLAIN);
    msg.verify(key.primary_key.public_key()).expect("genuine");

    let mut pp = PacketParser::new(&signed[..]);
    let Packet::OnePassSignature(ops) = pp.next().expect("ops").expect("ops") else {
        panic!("expected OPS");
    };
    let Packet::LiteralData(lit) = pp.next().expect("lit").expect("lit") else {
        panic!("expected LiteralData");
    };
    let Packet::Signature(sig) = pp.next().expect("sig").expect("sig") else {
        panic!("expected Signature");
    };
    assert!(pp.next().is_none());

    Genuine { key, ops, lit, sig }
}

/// A one-pass header with the same fields as `ops`, but hash algorithm octet 99 (unknown).
fn dead_header(ops: &OnePassSignature) -> OnePassSignature {
    let OpsVersionSpecific::V3 { key_id } = ops.version_specific() else {
        panic!("expected a v3 OPS");
    };
    let mut dead = OnePassSignature::v3(
        ops.typ(),
        HashAlgorithm::Other(99),
        ops.public_key_algorithm(),
        *key_id,
    );
    dead.set_is_nested();
    dead
}

/// `sig` with different hashed subpackets: same MPIs, same signed hash prefix.
/// Nobody ever signed this metadata.
fn modified(sig: &Signature) -> Signature {
    let mut config = sig.config().expect("known").clone();
    for sp in config.hashed_subpackets.iter_mut() {
        if let SubpacketData::SignatureCreationTime(_) = sp.data {
            *sp = Subpacket::regular(SubpacketData::SignatureCreationTime(Timestamp::from_secs(
                86400,
            )))
            .expect("subpacket");
        }
    }
    config.hashed_subpackets.push(
        Subpacket::regular(SubpacketData::Notation(Notation {
            readable: true,
            name: "approved-by@example.org".into(),
            value: "the board".into(),
        }))
        .expect("subpacket"),
    );
    let forged = Signature::from_config(
        config,
        sig.signed_hash_value().expect("known"),
        sig.signature().expect("known").clone(),
    )
    .expect("from_config");

    assert_ne!(
        forged.config().unwrap().hashed_subpackets,
        sig.config().unwrap().hashed_subpackets
    );
    forged
}

fn serialize(packets: &[&dyn DynPacket]) -> Vec<u8> {
    let mut out = Vec::new();
    for p in packets {
        p.write(&mut out);
    }
    out
}

trait DynPacket {
    fn write(&self, out: &mut Vec<u8>);
}
impl<T: PacketTrait> DynPacket for T {
    fn write(&self, out: &mut Vec<u8>) {
        self.to_writer_with_header(out).expect("serialize");
    }
}

fn nested(ops: &OnePassSignature) -> OnePassSignature {
    let mut ops = ops.clone();
    ops.set_is_nested();
    ops
}

/// Property: a signature verifies only for the exact signature metadata that was hashed.
#[test]
fn sm_signature_with_modified_hashed_area_must_not_verify() {
    let g = genuine();
    let public = g.key.primary_key.public_key();

    let forged_sig = modified(&g.sig);
    let dead = dead_header(&g.ops);

    //   OPS(hash 99)  OPS  OPS  LIT  F  S'  S
    let bytes = serialize(&[
        &dead,
        &nested(&g.ops),
        &g.ops,
        &g.lit,
        &g.sig, // F: only has to be a signature packet
        &forged_sig,
        &g.sig,
    ]);

    let mut msg = Message::from_bytes(&bytes[..]).expect("parse forged");
    assert_eq!(msg.as_data_string().expect("read forged"), PLAIN);

    let Message::Signed { reader, .. } = &msg else {
        panic!("expected a signed message");
    };
    let num = reader.num_signatures();
    assert_eq!(num, 3);

    let genuine_hashed = &g.sig.config().unwrap().hashed_subpackets;

    for index in 0..=num {
        match msg.verify_nested_explicit(index, public) {
            Ok(sig) => {
                let hashed = &sig.config().unwrap().hashed_subpackets;
                println!("index {index}: VALID, hashed area: {hashed:?}");
                assert_eq!(
                    hashed, genuine_hashed,
                    "verify_nested_explicit({index}) reports a signature as valid whose hashed \
                     subpackets were never signed"
                );
            }
            Err(err) => println!("index {index}: {err}"),
        }
    }

    for res in msg.verify_nested(&[public]).expect("verify_nested") {
        if let VerificationResult::Valid(sig) = res {
            assert_eq!(
                &sig.config().unwrap().hashed_subpackets,
                genuine_hashed,
                "verify_nested reports a signature as valid whose hashed subpackets were never \
                 signed"
            );
        }
    }
}

/// Same forgery, the dead leading packet is a prefixed signature packet of an unknown version
/// (no filler packet is needed, a prefixed signature has no trailing counterpart):
///
/// ```text
///   SIG(v23)  OPS(S)  OPS(S)  LIT(D)  S'  S
///   hashes     = [None,  h(D,S), h(D,S')]
///   signatures = [(1,S), (2,S')]
/// ```
#[test]
fn sm_signature_with_modified_hashed_area_must_not_verify_prefixed_unknown_version() {
    let g = genuine();
    let public = g.key.primary_key.public_key();

    let forged_sig = modified(&g.sig);
    let body = bytes::Bytes::from_static(&[1, 2, 3, 4]);
    let dead = Signature::unknown(
        PacketHeader::new_fixed(Tag::Signature, 1 + body.len() as u32),
        SignatureVersion::Other(23),
        body,
    );

    let bytes = serialize(&[&dead, &nested(&g.ops), &g.ops, &g.lit, &forged_sig, &g.sig]);

    let mut msg = Message::from_bytes(&bytes[..]).expect("parse forged");
    assert_eq!(msg.as_data_string().expect("read forged"), PLAIN);

    let Message::Signed { reader, .. } = &msg else {
        panic!("expected a signed message");
    };
    let num = reader.num_signatures();
    assert_eq!(num, 3);

    let genuine_hashed = &g.sig.config().unwrap().hashed_subpackets;

    for index in 0..=num {
        match msg.verify_nested_explicit(index, public) {
            Ok(sig) => {
                let hashed = &sig.config().unwrap().hashed_subpackets;
                println!("index {index}: VALID, hashed area: {hashed:?}");
                assert_eq!(
                    hashed, genuine_hashed,
                    "verify_nested_explicit({index}) reports a signature as valid whose hashed \
                     subpackets were never signed"
                );
            }
            Err(err) => println!("index {index}: {err}"),
        }
    }
}

/// Availability side of the same defect: a message signed by two signers, one of them using a
/// hash algorithm this implementation does not know. The known signature must still verify.
///
/// ```text
///   OPS(hash 99)  OPS(S)  LIT(D)  S  SIG(hash 99)
/// ```
///
/// unchanged code: the dead header consumes no trailing packet, so OPS(S) is paired with
/// SIG(hash 99), does not match it, and nothing verifies.
#[test]
fn sm_valid_signature_behind_dead_header_must_verify() {
    let g = genuine();
    let public = g.key.primary_key.public_key();

    let dead = dead_header(&g.ops);
    let mut config = g.sig.config().unwrap().clone();
    config.hash_alg = HashAlgorithm::Other(99);
    let dead_sig = Signature::from_config(config, [0xAB, 0xCD], g.sig.signature().unwrap().clone())
        .expect("from_config");

    let bytes = serialize(&[&dead, &g.ops, &g.lit, &g.sig, &dead_sig]);

    let mut msg = Message::from_bytes(&bytes[..]).expect("parse");
    assert_eq!(msg.as_data_string().expect("read"), PLAIN);

    let Message::Signed { reader, .. } = &msg else {
        panic!("expected a signed message");
    };
    assert_eq!(reader.num_signatures(), 2);

    // every index denotes one packet: digest and signature packet must come in pairs
    for index in 0..reader.num_signatures() {
        println!(
            "index {index}: hash {:?}, signature present: {}",
            reader.hash(index).map(hex::encode),
            reader.signature(index).is_some()
        );
    }
    assert_eq!(
        reader.signatures().expect("done").len(),
        reader.num_signatures(),
        "`signatures` and `hashes` have different lengths: an index does not denote one packet"
    );

    // the genuine signature (second one-pass header, first trailing signature) must verify
    let res = msg.verify_nested(&[public]).expect("verify_nested");
    assert!(
        matches!(res[0], VerificationResult::Valid(_)),
        "the valid signature behind a one-pass header with an unknown hash algorithm does not \
         verify: {:?}",
        msg.verify_nested_explicit(1, public).map(|_| ())
    );
    let sig = msg.verify_nested_explicit(1, public).expect("index 1");
    assert_eq!(sig, &g.sig);
}
