//! RSA: a secret key packet whose primes are not coprime panics the parser.
//!
//! `crypto::rsa::SecretKey::to_mpi` computes `u = p^-1 mod q` with
//! `.mod_inverse(q).expect("invalid prime")`. `rsa::RsaPrivateKey::from_components` does not
//! require gcd(p, q) = 1, so a packet with p = q is accepted by `try_from_mpi`, and then
//! `PlainSecretParams::try_from_reader` -> `compare_checksum_simple` -> `to_writer_raw` ->
//! `SecretKey::to_writer` -> `to_mpi` panics while *parsing* untrusted input.

use std::panic::{catch_unwind, AssertUnwindSafe};

use pgp::{
    composed::{Deserializable, SignedSecretKey},
    packet::PacketParser,
};

/// Tag 5 (secret key), new format, 27 octets:
/// v4, created 0, RSA(1), n = 25 (5 bits), e = 3 (2 bits), s2k usage 0,
/// d = 3, p = 5, q = 5, u = 1, checksum 0x0017
const PACKET: [u8; 29] = [
    0xC5, 0x1B, // header
    0x04, 0x00, 0x00, 0x00, 0x00, 0x01, // version, created, algorithm
    0x00, 0x05, 0x19, // n = 25
    0x00, 0x02, 0x03, // e = 3
    0x00, // s2k usage: plain
    0x00, 0x02, 0x03, // d = 3
    0x00, 0x03, 0x05, // p = 5
    0x00, 0x03, 0x05, // q = 5
    0x00, 0x01, 0x01, // u = 1
    0x00, 0x17, // checksum
];

fn panic_message(e: Box<dyn std::any::Any + Send>) -> String {
    e.downcast_ref::<String>()
        .cloned()
        .or_else(|| e.downcast_ref::<&str>().map(|s| s.to_string()))
        .unwrap_or_else(|| "<non-string panic>".into())
}

#[test]
fn rsa_packet_parser_must_not_panic() {
    let res = catch_unwind(AssertUnwindSafe(|| {
        PacketParser::new(&PACKET[..])
            .map(|p| p.map(|_| ()).map_err(|e| e.to_string()))
            .collect::<Vec<_>>()
    }));
    match res {
        Ok(items) => {
            // any outcome without a panic is acceptable; a key with p == q is not a usable key,
            // an error is the expected result
            assert_eq!(items.len(), 1, "{items:?}");
            assert!(
                items[0].is_err(),
                "expected the degenerate key to be rejected, got {items:?}"
            );
        }
        Err(e) => panic!(
            "PacketParser panicked on untrusted input: {}",
            panic_message(e)
        ),
    }
}

#[test]
fn rsa_signed_secret_key_from_bytes_must_not_panic() {
    let res = catch_unwind(AssertUnwindSafe(|| {
        SignedSecretKey::from_bytes(&PACKET[..])
            .map(|_| ())
            .map_err(|e| e.to_string())
    }));
    match res {
        Ok(r) => assert!(r.is_err(), "expected an error, got {r:?}"),
        Err(e) => panic!(
            "SignedSecretKey::from_bytes panicked on untrusted input: {}",
            panic_message(e)
        ),
    }
}
