use pgp::composed::{KeyType, SecretKeyParamsBuilder};
use pgp::packet::{PacketParser, Packet};
use pgp::ser::Serialize;

fn mpi(v: &[u8]) -> Vec<u8> {
    // strip leading zeros, big endian bit count
    let mut i = 0;
    while i < v.len() && v[i] == 0 { i += 1; }
    let v = &v[i..];
    let bits = if v.is_empty() { 0 } else { v.len() * 8 - v[0].leading_zeros() as usize };
    let mut out = vec![(bits >> 8) as u8, bits as u8];
    out.extend_from_slice(v);
    out
}
fn secret_key_packet(tag: u8, algo: u8, oid: &[u8], extra_pub: &[u8], public: &[u8], secret: &[u8]) -> Vec<u8> {
    let mut body = vec![4u8, 0x5f, 0, 0, 0, algo, oid.len() as u8];
    body.extend_from_slice(oid);
    body.extend_from_slice(&mpi(public));
    body.extend_from_slice(extra_pub);
    body.push(0); // s2k usage: unprotected
    let sec = mpi(secret);
    body.extend_from_slice(&sec);
    let sum: u32 = sec.iter().map(|b| *b as u32).sum();
    body.extend_from_slice(&[(sum >> 8) as u8, sum as u8]);
    let mut out = vec![0xC0 | tag, body.len() as u8];
    assert!(body.len() < 192);
    out.extend_from_slice(&body);
    out
}

#[test]
fn v4_by_default_needs_a_primary_user_id() {
    // documented: "Primary User ID, required for v4 keys"; the version defaults to v4
    let r = SecretKeyParamsBuilder::default()
        .key_type(KeyType::Ed25519Legacy)
        .can_sign(true)
        .can_certify(true)
        .build();
    assert!(r.is_err(), "a v4 key (version left at its default) without a primary User ID was accepted");
}

#[test]
fn ecdsa_p256_secret_scalar_with_many_leading_zeros_is_accepted() {
    // d = 1, public key = the generator of P-256
    let gx = hex::decode("6B17D1F2E12C4247F8BCE6E563A440F277037D812DEB33A0F4A13945D898C296").unwrap();
    let gy = hex::decode("4FE342E2FE1A7F9B8EE7EB4A7C0F9E162BCE33576B315ECECBB6406837BF51F5").unwrap();
    let mut point = vec![4u8]; point.extend(gx); point.extend(gy);
    let oid = [0x2A, 0x86, 0x48, 0xCE, 0x3D, 0x03, 0x01, 0x07];
    let pkt = secret_key_packet(5, 19, &oid, &[], &point, &[1]);
    let parsed: Vec<_> = PacketParser::new(&pkt[..]).collect();
    assert_eq!(parsed.len(), 1);
    match &parsed[0] {
        Ok(Packet::SecretKey(k)) => { assert_eq!(k.to_bytes().unwrap(), pkt[2..].to_vec(), "round trip"); }
        Err(e) => panic!("ECDSA P-256 secret key with scalar 1 (MPI 00 01 01) was not accepted: {}", e.to_string().chars().take(200).collect::<String>()), _ => panic!("other packet"),
    }
}

