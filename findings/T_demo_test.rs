//! T: CFB `StreamEncryptor::read` returns `Ok(0)` in the middle of the stream
//! (state Prefix -> Data with an empty plaintext source), although the
//! encrypted MDC packet is still to come.  Any `Read` consumer that follows the
//! `Read` contract ("Ok(0) == end of stream") gets a ciphertext without MDC and
//! no error.
//!
//! Public API only. Fails on the unchanged code.

use std::io::Read;

use pgp::{crypto::sym::SymmetricKeyAlgorithm, types::Seipdv1ReadMode};
use rand::SeedableRng;
use rand_chacha::ChaCha8Rng;

const KEY: [u8; 16] = [7u8; 16];
const ALG: SymmetricKeyAlgorithm = SymmetricKeyAlgorithm::AES128;

fn rng() -> ChaCha8Rng {
    ChaCha8Rng::seed_from_u64(42)
}

fn decrypt(ct: &[u8]) -> std::io::Result<Vec<u8>> {
    let mut dec = ALG
        .stream_decryptor_protected(Seipdv1ReadMode::default(), &KEY, ct)
        .expect("decryptor");
    let mut out = Vec::new();
    dec.read_to_end(&mut out)?;
    Ok(out)
}

/// reference: the (overridden) read_to_end
fn reference() -> Vec<u8> {
    let mut enc = ALG.stream_encryptor(rng(), &KEY, &[][..]).unwrap();
    let mut ct = Vec::new();
    enc.read_to_end(&mut ct).unwrap();
    ct
}

#[test]
fn t_reference_is_complete() {
    let ct = reference();
    // prefix (16 + 2) + mdc (22)
    assert_eq!(ct.len(), ALG.encrypted_protected_len(0));
    assert_eq!(decrypt(&ct).unwrap(), b"");
}

#[test]
fn t_read_sequence_has_no_zero_before_the_end() {
    let mut enc = ALG.stream_encryptor(rng(), &KEY, &[][..]).unwrap();
    let mut seq = Vec::new();
    let mut buf = [0u8; 32];
    for _ in 0..6 {
        seq.push(enc.read(&mut buf).unwrap());
    }
    // Once read() reported Ok(0) for a non empty buffer, the stream must be over.
    let first_zero = seq.iter().position(|n| *n == 0).unwrap();
    assert!(
        seq[first_zero..].iter().all(|n| *n == 0),
        "read() returned Ok(0) and later produced more data: {seq:?}"
    );
}

#[test]
fn t_manual_read_loop_empty_plaintext() {
    let mut enc = ALG.stream_encryptor(rng(), &KEY, &[][..]).unwrap();
    let mut ct = Vec::new();
    let mut buf = [0u8; 32];
    loop {
        let n = enc.read(&mut buf).unwrap();
        if n == 0 {
            break;
        }
        ct.extend_from_slice(&buf[..n]);
    }
    assert_eq!(
        ct.len(),
        reference().len(),
        "manual read loop got a truncated ciphertext (MDC missing)"
    );
    assert_eq!(ct, reference());
    assert_eq!(decrypt(&ct).unwrap(), b"");
}

/// A plain `Write` sink. (`std::io::copy` into a bare `Vec<u8>` is specialised by std to call
/// `read_to_end`, which this encryptor overrides; every other writer gets the `read` loop.)
struct Sink(Vec<u8>);

impl std::io::Write for Sink {
    fn write(&mut self, buf: &[u8]) -> std::io::Result<usize> {
        self.0.extend_from_slice(buf);
        Ok(buf.len())
    }
    fn flush(&mut self) -> std::io::Result<()> {
        Ok(())
    }
}

#[test]
fn t_io_copy_empty_plaintext() {
    let mut enc = ALG.stream_encryptor(rng(), &KEY, &[][..]).unwrap();
    let mut sink = Sink(Vec::new());
    let n = std::io::copy(&mut enc, &mut sink).unwrap();
    let ct = sink.0;
    assert_eq!(
        n as usize,
        reference().len(),
        "io::copy returned Ok with a truncated ciphertext (MDC missing); decrypting it: {:?}",
        decrypt(&ct).map_err(|e| e.to_string())
    );
    assert_eq!(ct, reference());
    let pt = decrypt(&ct);
    assert!(
        matches!(pt.as_deref(), Ok(b"")),
        "library can not decrypt what it produced: {pt:?}"
    );
}

#[test]
fn t_zero_sized_buffer_does_not_hang_or_end_the_stream() {
    // guards the repair: read(&mut []) must return Ok(0) and not disturb the stream
    let mut enc = ALG.stream_encryptor(rng(), &KEY, &[][..]).unwrap();
    assert_eq!(enc.read(&mut []).unwrap(), 0);
    let mut ct = Vec::new();
    let mut buf = [0u8; 7];
    loop {
        assert_eq!(enc.read(&mut []).unwrap(), 0);
        let n = enc.read(&mut buf).unwrap();
        if n == 0 {
            break;
        }
        ct.extend_from_slice(&buf[..n]);
    }
    assert_eq!(ct, reference());
}
