//! Defect P: `PacketTrait::write_len_with_header()` announces a length that differs from the
//! number of octets `PacketTrait::to_writer_with_header()` writes.
//!
//! `to_writer_with_header` re-derives a `Fixed(body length)` header from the stored header's
//! version and tag. `write_len_with_header` adds the *stored* header's `write_len()`.
//! They disagree whenever the stored header does not describe the current body:
//!
//! (a) the packet was parsed from partial-body framing and keeps its `Partial` header,
//! (b) the body was changed through the public API (e.g. `SecretKey::set_password`) so that
//!     its length moved across a length-encoding class boundary (192 / 8384 for the OpenPGP
//!     format, 256 / 65536 for the legacy format).

use pgp::{
    composed::{KeyType, SecretKeyParamsBuilder, SignedSecretKey},
    crypto::ecc_curve::ECCCurve,
    packet::{Packet, PacketParser, PacketTrait},
    ser::Serialize,
    types::{KeyVersion, PacketHeaderVersion, PacketLength, Password},
};
use rand::SeedableRng;
use rand_chacha::ChaCha8Rng;

fn written_with_header<P: PacketTrait>(p: &P) -> Vec<u8> {
    let mut out = Vec::new();
    p.to_writer_with_header(&mut out).expect("write");
    out
}

/// (a) A literal data packet in partial-body framing: `CB E9 <512 octets> 00`
#[test]
fn p_a_partial_framed_literal_write_len_with_header() {
    // CB   = OpenPGP format header, tag 11 (Literal Data)
    // E9   = partial body length 2^9 = 512
    // body = 'b', file name len 0, date 0, 506 data octets  (= 512 octets)
    // 00   = final chunk, fixed length 0
    let mut bytes = vec![0xCB, 0xE9];
    bytes.extend_from_slice(&[b'b', 0x00, 0x00, 0x00, 0x00, 0x00]);
    bytes.extend(std::iter::repeat(0x41).take(506));
    bytes.push(0x00);
    assert_eq!(bytes.len(), 2 + 512 + 1);

    let packet = PacketParser::new(&bytes[..])
        .next()
        .expect("one packet")
        .expect("parses");
    let Packet::LiteralData(ref lit) = packet else {
        panic!("expected literal data, got {packet:?}");
    };
    assert_eq!(lit.data().len(), 506);
    assert_eq!(
        lit.packet_header().packet_length(),
        PacketLength::Partial(512),
        "the parsed packet keeps its Partial header"
    );

    let out = written_with_header(lit);
    // What is written is a normalized fixed length header: CB C1 40 <512 octets>
    assert_eq!(&out[..3], &[0xCB, 0xC1, 0x40]);
    assert_eq!(out.len(), 515);

    // it parses back to an equal body
    let back = PacketParser::new(&out[..]).next().unwrap().unwrap();
    let Packet::LiteralData(ref back_lit) = back else {
        panic!("expected literal data");
    };
    assert_eq!(back_lit.data(), lit.data());

    // C05: the announced length equals the number of octets written
    assert_eq!(
        lit.write_len_with_header(),
        out.len(),
        "LiteralData::write_len_with_header() != octets written by to_writer_with_header()"
    );
    // same via the `Packet` enum (`Serialize::write_len` / `to_bytes`)
    assert_eq!(
        packet.write_len(),
        packet.to_bytes().unwrap().len(),
        "Packet::write_len() != Packet::to_bytes().len()"
    );
}

fn gen_ecdsa(curve: ECCCurve, packet_version: PacketHeaderVersion) -> SignedSecretKey {
    let rng = ChaCha8Rng::seed_from_u64(0);
    SecretKeyParamsBuilder::default()
        .version(KeyVersion::V4)
        .key_type(KeyType::ECDSA(curve))
        .can_sign(true)
        .can_certify(true)
        .packet_version(packet_version)
        .primary_user_id("P demo <p@example.org>".into())
        .build()
        .unwrap()
        .generate(rng)
        .unwrap()
}

/// (b) OpenPGP format header, body crosses the 192 boundary when the key is locked.
///
/// v4 ECDSA P-384 secret key packet: 164 octets unlocked, 210 octets locked with the default S2K.
#[test]
fn p_b_set_password_crosses_192_new_format() {
    let mut key = gen_ecdsa(ECCCurve::P384, PacketHeaderVersion::New);
    let unlocked_body = key.primary_key.write_len();
    assert!(unlocked_body < 192, "unlocked body: {unlocked_body}");
    assert_eq!(
        key.primary_key.write_len_with_header(),
        written_with_header(&key.primary_key).len(),
        "consistent before the mutation"
    );
    assert_eq!(key.write_len(), key.to_bytes().unwrap().len());

    // public API mutation
    key.primary_key
        .set_password(ChaCha8Rng::seed_from_u64(1), &Password::from("pw"))
        .unwrap();

    let locked_body = key.primary_key.write_len();
    assert!(locked_body >= 192, "locked body: {locked_body}");

    let out = written_with_header(&key.primary_key);
    assert_eq!(out.len(), 1 + 2 + locked_body, "tag + two length octets");

    // what is written parses back to an equal (locked) secret key packet body
    let back = PacketParser::new(&out[..]).next().unwrap().unwrap();
    let Packet::SecretKey(ref back_key) = back else {
        panic!("expected secret key");
    };
    assert_eq!(
        back_key.to_bytes().unwrap(),
        key.primary_key.to_bytes().unwrap()
    );

    assert_eq!(
        key.primary_key.write_len_with_header(),
        out.len(),
        "SecretKey::write_len_with_header() != octets written, after set_password()"
    );
    // The composite object inherits the wrong length
    assert_eq!(
        key.write_len(),
        key.to_bytes().unwrap().len(),
        "SignedSecretKey::write_len() != to_bytes().len(), after set_password()"
    );

    // and the other direction: remove_password moves the body back below 192
    let mut parsed = {
        use pgp::composed::Deserializable;
        let bytes = key.to_bytes().unwrap();
        SignedSecretKey::from_bytes(&bytes[..]).unwrap()
    };
    assert_eq!(parsed.write_len(), parsed.to_bytes().unwrap().len());
    parsed
        .primary_key
        .remove_password(&Password::from("pw"))
        .unwrap();
    assert_eq!(parsed.primary_key.write_len(), unlocked_body);
    assert_eq!(
        parsed.primary_key.write_len_with_header(),
        written_with_header(&parsed.primary_key).len(),
        "SecretKey::write_len_with_header() != octets written, after remove_password()"
    );
}

/// (b) Legacy format header, body crosses the 256 boundary when the key is locked.
///
/// v4 ECDSA P-521 secret key packet: 218 octets unlocked, 264 octets locked with the default S2K.
#[test]
fn p_b_set_password_crosses_256_legacy_format() {
    // (the key builder's `packet_version` parameter is not honoured by `generate`, so the
    // legacy framed packet is obtained by parsing: 94 = legacy format, tag 5, one octet length)
    let generated = gen_ecdsa(ECCCurve::P521, PacketHeaderVersion::New);
    let body = generated.primary_key.to_bytes().unwrap();
    assert!(body.len() < 256, "unlocked body: {}", body.len());
    let mut framed = vec![0x94, body.len() as u8];
    framed.extend_from_slice(&body);
    let Packet::SecretKey(mut key) = PacketParser::new(&framed[..]).next().unwrap().unwrap() else {
        panic!("expected secret key");
    };

    assert_eq!(key.packet_header().version(), PacketHeaderVersion::Old);
    assert_eq!(written_with_header(&key), framed, "round trips unlocked");
    assert_eq!(
        key.write_len_with_header(),
        framed.len(),
        "consistent before the mutation"
    );

    key.set_password(ChaCha8Rng::seed_from_u64(1), &Password::from("pw"))
        .unwrap();

    let locked_body = key.write_len();
    assert!(
        (256..65536).contains(&locked_body),
        "locked body: {locked_body}"
    );

    let out = written_with_header(&key);
    // legacy format, tag 5, length type 1 (two octets): 0x95
    assert_eq!(out[0], 0x95);
    assert_eq!(out.len(), 1 + 2 + locked_body);

    assert_eq!(
        key.write_len_with_header(),
        out.len(),
        "legacy SecretKey::write_len_with_header() != octets written, after set_password()"
    );
}
