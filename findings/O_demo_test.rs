//! Defect O: a v3 PKESK for an RSA recipient whose PKCS#1 v1.5 plaintext is EMPTY
//! (EM = 00 02 <nonzero padding> 00, nothing after the separator) makes
//! `PlainSecretParams::decrypt` index `decrypted_key[0]` on an empty buffer.

use std::panic::{catch_unwind, AssertUnwindSafe};

use pgp::{
    composed::{Deserializable, Message, SignedSecretKey},
    types::{KeyDetails, Password, PkeskBytes, PublicParams},
};
use rand::SeedableRng;
use rand_chacha::ChaCha8Rng;

fn describe(p: Box<dyn std::any::Any + Send>) -> String {
    if let Some(s) = p.downcast_ref::<String>() {
        s.clone()
    } else if let Some(s) = p.downcast_ref::<&str>() {
        s.to_string()
    } else {
        "<non-string panic>".into()
    }
}

fn new_format_packet(tag: u8, body: &[u8]) -> Vec<u8> {
    let mut out = vec![0xC0 | tag];
    // five-octet length
    out.push(0xFF);
    out.extend_from_slice(&(body.len() as u32).to_be_bytes());
    out.extend_from_slice(body);
    out
}

#[test]
fn pkesk_v3_rsa_with_empty_plaintext_returns_error() {
    let (key, _) = SignedSecretKey::from_armor_file(
        "./tests/openpgp-interop/testcases/messages/gnupg-v1-001-decrypt.asc",
    )
    .expect("test key");

    // Find an RSA subkey (the encryption subkey of this test key).
    let subkey = key
        .secret_subkeys
        .iter()
        .find(|k| matches!(k.public_key().public_params(), PublicParams::RSA(_)))
        .expect("RSA subkey");
    let PublicParams::RSA(rsa_params) = subkey.public_key().public_params() else {
        unreachable!()
    };

    // RSA-encrypt an EMPTY payload (PKCS#1 v1.5): EM = 00 02 PS 00
    let rng = ChaCha8Rng::seed_from_u64(1);
    let PkeskBytes::Rsa { mpi } = pgp::crypto::rsa::encrypt(rng, &rsa_params.key, &[]).unwrap()
    else {
        unreachable!()
    };

    // PKESK v3: version, key id, algorithm (1 = RSA), MPI
    let mut pkesk = vec![0x03];
    pkesk.extend_from_slice(subkey.legacy_key_id().as_ref());
    pkesk.push(0x01);
    let mpi_bytes = mpi.as_ref();
    let bits = (mpi_bytes.len() * 8) as u32 - mpi_bytes[0].leading_zeros();
    pkesk.extend_from_slice(&(bits as u16).to_be_bytes());
    pkesk.extend_from_slice(mpi_bytes);

    // SEIPD v1 with arbitrary content (never reached)
    let mut seipd = vec![0x01];
    seipd.extend_from_slice(&[0x5A; 64]);

    let mut msg_bytes = new_format_packet(1, &pkesk);
    msg_bytes.extend_from_slice(&new_format_packet(18, &seipd));
    println!("message: {}", hex::encode(&msg_bytes));

    let res = catch_unwind(AssertUnwindSafe(|| {
        let msg = Message::from_bytes(&msg_bytes[..])?;
        let msg = msg.decrypt(&Password::from("test"), &key)?;
        Ok::<_, pgp::errors::Error>(msg.is_literal())
    }));

    match res {
        Ok(r) => {
            println!("result: {r:?}");
            assert!(r.is_err(), "decryption must fail")
        }
        Err(p) => panic!(
            "Message::decrypt panicked on a PKESK v3 with empty RSA plaintext: {}",
            describe(p)
        ),
    }
}
