//! Defect B: SEIPD v2 with an unknown/unsupported AEAD algorithm octet panics
//! (`aead.nonce_size() - 8` with nonce_size() == 0) instead of returning an error.

use std::panic::{catch_unwind, AssertUnwindSafe};

use pgp::{
    composed::{Message, PlainSessionKey},
    crypto::{
        aead::{AeadAlgorithm, ChunkSize},
        sym::SymmetricKeyAlgorithm,
    },
    packet::{PacketHeader, SymEncryptedProtectedData},
    types::{Seipdv1ReadMode, Tag},
};

/// SEIPD body: version 2, AES128 (7), AEAD algorithm `aead`, chunk size octet 0,
/// 32 salt octets, 40 octets of "ciphertext".
fn seipd_v2_body(aead: u8) -> Vec<u8> {
    let mut body = vec![0x02, 0x07, aead, 0x00];
    body.extend_from_slice(&[0x11; 32]); // salt
    body.extend_from_slice(&[0x22; 40]); // data
    body
}

fn describe(p: Box<dyn std::any::Any + Send>) -> String {
    if let Some(s) = p.downcast_ref::<String>() {
        s.clone()
    } else if let Some(s) = p.downcast_ref::<&str>() {
        s.to_string()
    } else {
        "<non-string panic>".into()
    }
}

/// Packet level API: `SymEncryptedProtectedData::decrypt`.
#[test]
fn seipd_v2_unknown_aead_decrypt_packet_returns_error() {
    for aead in [0xC8u8 /* Other(200) */, 100 /* Private100 */, 0 /* None */] {
        let body = seipd_v2_body(aead);
        let header = PacketHeader::new_fixed(Tag::SymEncryptedProtectedData, body.len() as u32);
        let packet = SymEncryptedProtectedData::try_from_reader(header, &body[..])
            .expect("packet with unknown AEAD algorithm parses");

        let session_key = [0x33u8; 16];
        let res = catch_unwind(AssertUnwindSafe(|| {
            packet.decrypt(&session_key, None, Seipdv1ReadMode::default())
        }));
        match res {
            Ok(r) => assert!(r.is_err(), "decryption with AEAD {aead} must fail"),
            Err(p) => panic!(
                "SymEncryptedProtectedData::decrypt panicked for AEAD algorithm octet {aead}: {}",
                describe(p)
            ),
        }
    }
}

/// Message level API: `Message::from_bytes(..).decrypt_with_session_key(..)`.
#[test]
fn seipd_v2_unknown_aead_decrypt_message_returns_error() {
    let body = seipd_v2_body(0xC8);
    // new format header, tag 18, one-octet length
    let mut bytes = vec![0xC0 | 18, body.len() as u8];
    bytes.extend_from_slice(&body);
    assert_eq!(body.len(), 76);

    let res = catch_unwind(AssertUnwindSafe(|| {
        let msg = Message::from_bytes(&bytes[..])?;
        let msg = msg.decrypt_with_session_key(PlainSessionKey::V6 {
            key: vec![0x33u8; 16].into(),
        })?;
        Ok::<_, pgp::errors::Error>(msg.is_literal())
    }));
    match res {
        Ok(r) => assert!(r.is_err(), "decryption must fail"),
        Err(p) => panic!(
            "Message::decrypt_with_session_key panicked on {}: {}",
            hex::encode(&bytes),
            describe(p)
        ),
    }
}

/// Encryption side: `SymEncryptedProtectedData::encrypt_seipdv2` with an unsupported algorithm.
#[test]
fn seipd_v2_unknown_aead_encrypt_returns_error() {
    use rand::SeedableRng;
    let rng = rand_chacha::ChaCha8Rng::seed_from_u64(0);
    let res = catch_unwind(AssertUnwindSafe(|| {
        SymEncryptedProtectedData::encrypt_seipdv2(
            rng,
            SymmetricKeyAlgorithm::AES128,
            AeadAlgorithm::Private100,
            ChunkSize::default(),
            &[0x33u8; 16],
            b"hello",
        )
    }));
    match res {
        Ok(r) => assert!(r.is_err(), "encryption with unsupported AEAD must fail"),
        Err(p) => panic!("encrypt_seipdv2 panicked: {}", describe(p)),
    }
}
