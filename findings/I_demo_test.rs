//! Defect I: the Issuer Fingerprint version check is only applied to the hashed area.
//!
//! RFC 9580, 5.2.3.35 (Issuer Fingerprint): "If the version octet does not match the signature
//! version, the receiving implementation MUST treat it as a malformed signature".
//!
//! rpgp enforces this for Issuer Fingerprint subpackets in the hashed area, but a subpacket with a
//! mismatching version octet in the *unhashed* area (which anybody can append to a signature
//! without invalidating it, and which `Signature::verify` consults when matching the signer via
//! `issuer_fingerprint()`) is accepted, both on in-memory signatures and after parsing.

use pgp::{
    composed::{Deserializable, DetachedSignature, SignedSecretKey},
    crypto::hash::HashAlgorithm,
    packet::{Packet, PacketParser, Signature, SignatureVersion, Subpacket, SubpacketData},
    ser::Serialize,
    types::{Fingerprint, KeyDetails, KeyVersion, Password},
};

const DATA: &[u8] = b"hello world";

fn alice() -> SignedSecretKey {
    SignedSecretKey::from_armor_file("./tests/autocrypt/alice@autocrypt.example.sec.asc")
        .unwrap()
        .0
}

fn valid_v4_signature(key: &SignedSecretKey) -> Signature {
    let sig = DetachedSignature::sign_binary_data(
        rand::thread_rng(),
        &key.primary_key,
        &Password::empty(),
        HashAlgorithm::Sha256,
        DATA,
    )
    .unwrap()
    .signature;
    assert_eq!(sig.version(), SignatureVersion::V4);
    sig
}

#[test]
fn control_matching_unhashed_issuer_fingerprint_is_fine() {
    let key = alice();
    let mut sig = valid_v4_signature(&key);
    sig.unhashed_subpacket_push(
        Subpacket::regular(SubpacketData::IssuerFingerprint(
            key.primary_key.fingerprint(),
        ))
        .unwrap(),
    )
    .unwrap();
    sig.verify(&key.primary_key.public_key(), DATA)
        .expect("v4 issuer fingerprint on a v4 signature is well-formed");
}

#[test]
fn control_mismatching_hashed_issuer_fingerprint_is_rejected() {
    // The same malformation in the hashed area is detected (at signing time already).
    use pgp::packet::{SignatureConfig, SignatureType};

    let key = alice();
    let mut config =
        SignatureConfig::from_key(rand::thread_rng(), &key.primary_key, SignatureType::Binary)
            .unwrap();
    config.hashed_subpackets = vec![Subpacket::regular(SubpacketData::IssuerFingerprint(
        Fingerprint::new(KeyVersion::V6, &[0xAA; 32]).unwrap(),
    ))
    .unwrap()];
    let res = config.sign(&key.primary_key, &Password::empty(), DATA);
    assert!(res.is_err());
}

#[test]
fn mismatching_unhashed_issuer_fingerprint_is_rejected() {
    let key = alice();
    let mut sig = valid_v4_signature(&key);
    sig.verify(&key.primary_key.public_key(), DATA).unwrap();

    // Anyone can do this to a signature in transit: append an Issuer Fingerprint subpacket that
    // carries a v6 (32 byte) fingerprint to the unhashed area of the v4 signature.
    sig.unhashed_subpacket_push(
        Subpacket::regular(SubpacketData::IssuerFingerprint(
            Fingerprint::new(KeyVersion::V6, &[0xAA; 32]).unwrap(),
        ))
        .unwrap(),
    )
    .unwrap();

    // the subpacket is visible through the issuer accessor that verification uses
    assert!(sig
        .issuer_fingerprint()
        .iter()
        .any(|fp| fp.version() == Some(KeyVersion::V6)));

    let res = sig.verify(&key.primary_key.public_key(), DATA);
    assert!(
        res.is_err(),
        "v4 signature carrying a v6 Issuer Fingerprint subpacket (unhashed area) must be treated \
         as malformed, but verify returned {res:?}"
    );
}

#[test]
fn mismatching_unhashed_issuer_fingerprint_is_rejected_after_parsing() {
    let key = alice();
    let mut sig = valid_v4_signature(&key);
    sig.unhashed_subpacket_push(
        Subpacket::regular(SubpacketData::IssuerFingerprint(
            Fingerprint::new(KeyVersion::V6, &[0xAA; 32]).unwrap(),
        ))
        .unwrap(),
    )
    .unwrap();

    let mut bytes = Vec::new();
    Packet::from(sig).to_writer(&mut bytes).unwrap();

    // Either the parser or the verification has to flag the signature.
    let parsed = PacketParser::new(&bytes[..]).next().unwrap();
    let res = parsed.and_then(|p| {
        let Packet::Signature(sig) = p else {
            panic!("not a signature")
        };
        sig.verify(&key.primary_key.public_key(), DATA)
    });
    assert!(
        res.is_err(),
        "parsed v4 signature carrying a v6 Issuer Fingerprint subpacket (unhashed area) must be \
         treated as malformed, but parse + verify returned {res:?}"
    );
}
