use pgp::composed::{Deserializable, DetachedSignature, SignedSecretKey};
use pgp::crypto::hash::HashAlgorithm;
use pgp::types::Password;
use rand::SeedableRng;
use rand_chacha::ChaCha20Rng;

#[test]
fn text_signature_over_trailing_lone_cr_verifies() {
    let (alice, _) =
        SignedSecretKey::from_armor_file("./tests/autocrypt/alice@autocrypt.example.sec.asc").unwrap();
    for text in ["abc\r\n", "abc\n", "a\rb", "abc\r"] {
        let rng = ChaCha20Rng::seed_from_u64(1);
        let sig = DetachedSignature::sign_text_data(
            rng,
            &alice.primary_key,
            &Password::empty(),
            HashAlgorithm::Sha256,
            text.as_bytes(),
        )
        .unwrap();
        sig.verify(alice.primary_key.public_key(), text.as_bytes())
            .unwrap_or_else(|e| panic!("text {:?}: own signature does not verify: {e}", text));
    }
}
