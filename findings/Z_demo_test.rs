//! Defect Z: `LiteralDataReader` panics ("LiteralDataReader errored") on any
//! `read` / `fill_buf` / `read_to_end` that follows a call which returned `Err`,
//! instead of returning an error again.
//!
//! `fill_inner` first calls `self.is_done()`, and the `Error` arm of `is_done` is
//! `panic!("LiteralDataReader errored")`.
//!
//! (a) truncated literal packet: the second read after the error panics
//! (b) a source that reports `ErrorKind::Interrupted` once: the std helpers
//!     (`io::copy`, `Read::read_to_string`, `Read::read_exact`, ..) retry on `Interrupted`
//!     automatically, and that retry hits the panic.

use std::{
    io::{self, BufRead, BufReader, Read},
    panic::{catch_unwind, AssertUnwindSafe},
    sync::{
        atomic::{AtomicBool, Ordering},
        Arc,
    },
};

use pgp::composed::Message;

fn describe(p: Box<dyn std::any::Any + Send>) -> String {
    if let Some(s) = p.downcast_ref::<String>() {
        s.clone()
    } else if let Some(s) = p.downcast_ref::<&str>() {
        s.to_string()
    } else {
        "<non-string panic>".into()
    }
}

/// Literal Data packet, new format header, tag 11 (0xCB), declared body length 100 (0x64),
/// but only 10 body octets are present:
/// mode 'b', file name length 0, 4 octets date, 4 octets of data.
const TRUNCATED: &[u8] = &[
    0xCB, 0x64, // header: literal data, 100 octets
    0x62, 0x00, 0x00, 0x00, 0x00, 0x00, // 'b', no file name, date 0
    b'd', b'a', b't', b'a', // only 4 of the promised 94 data octets
];

/// (a) `read`, then `read` again
#[test]
fn z_truncated_literal_second_read_returns_error() {
    let mut msg = Message::from_bytes(TRUNCATED).expect("headers parse fine");
    assert!(msg.is_literal());

    let mut buf = [0u8; 64];
    let first = msg.read(&mut buf);
    assert!(
        first.is_err(),
        "truncated packet must be reported: {first:?}"
    );

    let second = catch_unwind(AssertUnwindSafe(|| msg.read(&mut buf)));
    match second {
        Ok(res) => assert!(res.is_err(), "reader must stay in the error state: {res:?}"),
        Err(p) => panic!(
            "second Message::read after an error panicked: {} (first read returned {:?})",
            describe(p),
            first
        ),
    }
}

/// (a) `fill_buf` (BufRead) after a failed `read_to_end` (`as_data_vec`)
#[test]
fn z_truncated_literal_fill_buf_after_error_returns_error() {
    let mut msg = Message::from_bytes(TRUNCATED).expect("headers parse fine");

    let first = msg.as_data_vec();
    assert!(
        first.is_err(),
        "truncated packet must be reported: {first:?}"
    );

    let second = catch_unwind(AssertUnwindSafe(|| msg.fill_buf().map(|b| b.to_vec())));
    match second {
        Ok(res) => assert!(res.is_err(), "reader must stay in the error state: {res:?}"),
        Err(p) => panic!(
            "Message::fill_buf after a failed as_data_vec panicked: {} (first call returned {:?})",
            describe(p),
            first
        ),
    }

    let third = catch_unwind(AssertUnwindSafe(|| msg.as_data_vec()));
    match third {
        Ok(res) => assert!(res.is_err(), "reader must stay in the error state: {res:?}"),
        Err(p) => panic!(
            "second Message::as_data_vec (read_to_end) after an error panicked: {}",
            describe(p),
        ),
    }
}

/// A `Read` that hands out at most `chunk` octets per call, and - once `armed` - fails the
/// next call once with `ErrorKind::Interrupted`. All data is delivered intact otherwise.
#[derive(Debug)]
struct InterruptedOnce {
    data: Vec<u8>,
    pos: usize,
    chunk: usize,
    armed: Arc<AtomicBool>,
}

impl Read for InterruptedOnce {
    fn read(&mut self, buf: &mut [u8]) -> io::Result<usize> {
        if self.armed.swap(false, Ordering::SeqCst) {
            return Err(io::Error::new(io::ErrorKind::Interrupted, "EINTR"));
        }
        let n = buf.len().min(self.chunk).min(self.data.len() - self.pos);
        buf[..n].copy_from_slice(&self.data[self.pos..self.pos + n]);
        self.pos += n;
        Ok(n)
    }
}

/// 40000 octets of payload: more than any internal buffer holds
fn payload() -> Vec<u8> {
    (0..40_000u32).map(|i| b'a' + (i % 26) as u8).collect()
}

/// A complete and well formed literal data packet (five-octet length encoding).
fn good_literal() -> Vec<u8> {
    let mut body = vec![0x62, 0x00, 0x00, 0x00, 0x00, 0x00];
    body.extend_from_slice(&payload());
    let mut out = vec![0xCB, 0xFF];
    out.extend_from_slice(&(body.len() as u32).to_be_bytes());
    out.extend_from_slice(&body);
    out
}

/// Parses the message headers from a source that delivers 1024 octets per `read` call.
/// If `interrupt` is set, the first `read` call on the source *after* the headers were parsed
/// fails once with `ErrorKind::Interrupted`.
fn message_from_interrupted_source(interrupt: bool) -> Message<'static> {
    let armed = Arc::new(AtomicBool::new(false));
    let source = BufReader::with_capacity(
        1024,
        InterruptedOnce {
            data: good_literal(),
            pos: 0,
            chunk: 1024,
            armed: armed.clone(),
        },
    );
    let msg = Message::from_bytes(source).expect("headers parse fine");
    assert!(msg.is_literal());
    armed.store(interrupt, Ordering::SeqCst);
    msg
}

/// (b) sanity: without the interruption everything is read
#[test]
fn z_sanity_uninterrupted() {
    let mut msg = message_from_interrupted_source(false);
    assert_eq!(msg.as_data_vec().expect("read"), payload());
}

struct PlainWriter(Vec<u8>);

impl io::Write for PlainWriter {
    fn write(&mut self, buf: &[u8]) -> io::Result<usize> {
        self.0.extend_from_slice(buf);
        Ok(buf.len())
    }
    fn flush(&mut self) -> io::Result<()> {
        Ok(())
    }
}

/// (b) `std::io::copy` retries on `Interrupted`
#[test]
fn z_interrupted_source_io_copy_does_not_panic() {
    let mut msg = message_from_interrupted_source(true);

    // (a plain `Vec<u8>` writer would make `io::copy` delegate to `read_to_end`)
    let mut out = PlainWriter(Vec::new());
    let res = catch_unwind(AssertUnwindSafe(|| io::copy(&mut msg, &mut out)));
    let out = out.0;
    match res {
        // Either the retry succeeds (all data), or an error is reported. Not a panic.
        Ok(Ok(n)) => {
            assert_eq!(n as usize, payload().len());
            assert_eq!(out, payload());
        }
        Ok(Err(_)) => {}
        Err(p) => panic!(
            "io::copy from a Message whose source was interrupted once panicked: {}",
            describe(p)
        ),
    }
}

/// (b) `Message::as_data_string` uses `Read::read_to_string`, which retries on `Interrupted`
#[test]
fn z_interrupted_source_as_data_string_does_not_panic() {
    let mut msg = message_from_interrupted_source(true);

    let res = catch_unwind(AssertUnwindSafe(|| msg.as_data_string()));
    match res {
        Ok(Ok(s)) => assert_eq!(s.as_bytes(), payload()),
        Ok(Err(_)) => {}
        Err(p) => panic!(
            "Message::as_data_string with a source that was interrupted once panicked: {}",
            describe(p)
        ),
    }
}

/// (b) manual retry, as any caller handling `Interrupted` by the book would do
#[test]
fn z_interrupted_source_manual_retry_does_not_panic() {
    let mut msg = message_from_interrupted_source(true);

    let mut buf = [0u8; 256];
    let first = msg.read(&mut buf);
    let kind = first.as_ref().err().map(|e| e.kind());
    assert_eq!(
        kind,
        Some(io::ErrorKind::Interrupted),
        "the interruption is passed through: {first:?}"
    );

    let second = catch_unwind(AssertUnwindSafe(|| msg.read(&mut buf)));
    match second {
        Ok(Ok(n)) => assert_eq!(&buf[..n], &payload()[..n]),
        Ok(Err(_)) => {}
        Err(p) => panic!(
            "retrying Message::read after ErrorKind::Interrupted panicked: {}",
            describe(p)
        ),
    }
}

// ---------------------------------------------------------------------------------------------
// Same family, encrypted data readers: after `Edata::decrypt` failed while setting up the
// decryptor, the reader is in its `Error` state and `read` / `fill_buf` panic
// ("SymEncryptedProtectedDataReader errored" / "SymEncryptedDataReader errored").
// ---------------------------------------------------------------------------------------------

use pgp::{
    composed::{DecryptionOptions, Edata, PlainSessionKey},
    crypto::sym::SymmetricKeyAlgorithm,
};

/// A session key as it could come out of an (attacker supplied) v3 PKESK:
/// the symmetric algorithm octet is "Plaintext" (0), which no decryptor can be built for.
fn unusable_session_key() -> PlainSessionKey {
    PlainSessionKey::V3_4 {
        sym_alg: SymmetricKeyAlgorithm::Plaintext,
        key: vec![0x11u8; 16].into(),
    }
}

fn read_after_failed_decrypt(packet: &[u8], options: DecryptionOptions, what: &str) {
    let mut msg = Message::from_bytes(packet).expect("headers parse fine");
    let Message::Encrypted { edata, .. } = &mut msg else {
        panic!("expected an encrypted message");
    };
    let res = edata.decrypt_with_options(&unusable_session_key(), options);
    assert!(res.is_err(), "{what}: decrypt must fail: {res:?}");

    let mut buf = [0u8; 16];
    match catch_unwind(AssertUnwindSafe(|| msg.read(&mut buf))) {
        Ok(res) => assert!(
            res.is_err(),
            "{what}: read must fail after failed decrypt: {res:?}"
        ),
        Err(p) => panic!(
            "{what}: read after a failed decrypt panicked: {}",
            describe(p)
        ),
    }
    match catch_unwind(AssertUnwindSafe(|| msg.fill_buf().map(|b| b.len()))) {
        Ok(res) => assert!(
            res.is_err(),
            "{what}: fill_buf must fail after failed decrypt: {res:?}"
        ),
        Err(p) => panic!(
            "{what}: fill_buf after a failed decrypt panicked: {}",
            describe(p)
        ),
    }
    // decrypting again, directly on the packet reader
    // (`Edata::decrypt*` itself first asks the reader for its packet header, an accessor
    // without `Result`, which still panics in the error state)
    let Message::Encrypted { edata, .. } = &mut msg else {
        unreachable!()
    };
    let key = unusable_session_key();
    match catch_unwind(AssertUnwindSafe(|| match edata {
        Edata::SymEncryptedProtectedData { reader } | Edata::GnupgAeadData { reader } => {
            reader.decrypt(&key, Default::default())
        }
        Edata::SymEncryptedData { reader } => reader.decrypt(&key),
    })) {
        Ok(res) => assert!(res.is_err(), "{what}: second decrypt must fail: {res:?}"),
        Err(p) => panic!(
            "{what}: second decrypt after a failed decrypt panicked: {}",
            describe(p)
        ),
    }
}

/// SEIPD v1 packet (tag 18): version octet 1 + 40 octets of "ciphertext"
#[test]
fn z_family_seipd_read_after_failed_decrypt() {
    let mut packet = vec![0xD2, 41, 0x01];
    packet.extend_from_slice(&[0x22; 40]);
    read_after_failed_decrypt(&packet, DecryptionOptions::new(), "SEIPDv1");
}

/// SED packet (tag 9): 40 octets of "ciphertext"
#[test]
fn z_family_sed_read_after_failed_decrypt() {
    let mut packet = vec![0xC9, 40];
    packet.extend_from_slice(&[0x22; 40]);
    read_after_failed_decrypt(&packet, DecryptionOptions::new().enable_legacy(), "SED");
}
