//! Defect R: `impl Serialize for PacketHeader` does not round trip a legacy format header whose
//! length-type bits are not the minimal ones for the length value.
//!
//! `8A 00 00 00 05` is a legal legacy header: tag 2 (Signature), length type 2 (four octet
//! length), length 5. `PacketHeader::try_from_reader` accepts it and keeps the first octet
//! (`OldPacketHeader`, length_type = 2) verbatim. `to_writer` then writes the stored first octet
//! `8A`, which announces four length octets, but picks the number of length octets from the
//! VALUE (5 < 256 => one octet) and emits `8A 05`.

use pgp::{
    packet::{Packet, PacketHeader, PacketParser, PacketTrait},
    ser::Serialize,
    types::{PacketHeaderVersion, PacketLength, Tag},
};

fn roundtrip(input: &[u8]) {
    let header = PacketHeader::try_from_reader(input).expect("legal legacy header");
    let out = header.to_bytes().expect("serializes");

    assert_eq!(
        header.write_len(),
        out.len(),
        "PacketHeader::write_len() != octets written for {}",
        hex::encode(input)
    );

    let back = PacketHeader::try_from_reader(&out[..]);
    assert!(
        back.is_ok(),
        "header parsed from {} is written as {}, which does not parse: {:?}",
        hex::encode(input),
        hex::encode(&out),
        back
    );
    assert_eq!(
        back.unwrap(),
        header,
        "round trip of {}",
        hex::encode(input)
    );
}

#[test]
fn r_legacy_header_four_octet_length_type_small_value() {
    let input = [0x8A, 0x00, 0x00, 0x00, 0x05];
    let header = PacketHeader::try_from_reader(&input[..]).unwrap();
    assert_eq!(header.version(), PacketHeaderVersion::Old);
    assert_eq!(header.tag(), Tag::Signature);
    assert_eq!(header.packet_length(), PacketLength::Fixed(5));

    roundtrip(&input);
}

#[test]
fn r_legacy_header_two_octet_length_type_small_value() {
    // tag 2, length type 1 (two octets), length 5
    roundtrip(&[0x89, 0x00, 0x05]);
}

#[test]
fn r_legacy_header_four_octet_length_type_medium_value() {
    // tag 2, length type 2 (four octets), length 0x0100: written as `8A 01 00`
    roundtrip(&[0x8A, 0x00, 0x00, 0x01, 0x00]);
}

/// Guard for the interaction with `PacketTrait::write_len_with_header` (see defect P):
/// `to_writer_with_header` normalizes the header (minimal length type), so for a packet that was
/// parsed from a non-minimal legacy header the announced length must be that of the normalized
/// header. This passes on the unchanged code (by accident: the stored header's `write_len` is
/// computed from the value), and must keep passing once `PacketHeader::write_len` is repaired;
/// that requires the repair of P.
#[test]
fn r_packet_with_non_minimal_legacy_header_write_len_with_header() {
    // legacy header, tag 13 (User ID), length type 2 (four octets), length 5, "alice"
    let bytes = [0xB6, 0x00, 0x00, 0x00, 0x05, b'a', b'l', b'i', b'c', b'e'];
    let packet = PacketParser::new(&bytes[..]).next().unwrap().unwrap();
    let Packet::UserId(ref uid) = packet else {
        panic!("expected user id");
    };
    let mut out = Vec::new();
    uid.to_writer_with_header(&mut out).unwrap();
    assert_eq!(out, [0xB4, 0x05, b'a', b'l', b'i', b'c', b'e']);
    assert_eq!(uid.write_len_with_header(), out.len());
    assert_eq!(packet.write_len(), packet.to_bytes().unwrap().len());
}
