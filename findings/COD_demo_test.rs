//! COD: packet codec findings (labels from the verification units U61s / U63s / U64s).

use std::panic::{catch_unwind, AssertUnwindSafe};

use pgp::{
    crypto::{hash::HashAlgorithm, public_key::PublicKeyAlgorithm},
    packet::{
        LiteralData, OnePassSignature, Packet, PacketParser, PacketTrait,
        PublicKeyEncryptedSessionKey, SignatureType,
    },
    ser::Serialize,
};

fn parse_one(bytes: &[u8]) -> Packet {
    let mut packets: Vec<_> = PacketParser::new(bytes).collect();
    assert_eq!(packets.len(), 1, "{packets:?}");
    packets.remove(0).expect("parses")
}

/// `ops-v6-long-salt`: `OnePassSignature::v6` accepts a salt that does not fit the one octet salt
/// length of the wire format and returns a packet (with a packet header that announces
/// 5 + 1 + salt.len() + 32 octets) that can never be serialised.
#[test]
fn cod_ops_v6_long_salt() {
    let salt = vec![0x5A; 256];
    let made = catch_unwind(AssertUnwindSafe(|| {
        OnePassSignature::v6(
            SignatureType::Binary,
            HashAlgorithm::Sha256,
            PublicKeyAlgorithm::Ed25519,
            salt,
            [0x11; 32],
        )
    }));
    let Ok(ops) = made else {
        return; // refusing to construct it is fine
    };

    // the constructor handed out an object: then it must have a wire form
    let announced = ops.packet_header().packet_length().maybe_len();
    let mut out = Vec::new();
    let res = ops.to_writer_with_header(&mut out);
    assert!(
        res.is_ok(),
        "OnePassSignature::v6 returned a packet (write_len {}, header announces {announced:?}) \
         whose serialisation fails: {:?}; {} octets of a truncated packet were already written",
        ops.write_len(),
        res,
        out.len()
    );
}

/// `pkesk-other-version-twice`: a PKESK of an unknown version is kept opaque, but `to_writer`
/// writes the version octet twice (once for every variant, once more in the `Other` arm) and
/// `write_len` counts it twice.
#[test]
fn cod_pkesk_other_version_twice() {
    // tag 1, new format, 3 octets: version 5, then AA BB
    let wire = [0xC1u8, 0x03, 0x05, 0xAA, 0xBB];
    let p = parse_one(&wire);
    let Packet::PublicKeyEncryptedSessionKey(ref pkesk) = p else {
        panic!("unexpected {p:?}");
    };
    match pkesk {
        PublicKeyEncryptedSessionKey::Other { version, data, .. } => {
            assert_eq!(*version, 5);
            assert_eq!(&data[..], &[0xAA, 0xBB]);
        }
        other => panic!("unexpected {other:?}"),
    }

    let mut body = Vec::new();
    pkesk.to_writer(&mut body).unwrap();
    assert_eq!(body.len(), pkesk.write_len(), "write_len vs to_writer");

    let mut out = Vec::new();
    p.to_writer(&mut out).unwrap();
    assert_eq!(
        hex::encode(&out),
        hex::encode(wire),
        "an opaque PKESK must re-serialise to the octets it was parsed from"
    );
    assert_eq!(parse_one(&out), p, "own output parses back to the same packet");
}

/// `literal-long-file-name`: `LiteralData::from_bytes` / `from_str` accept a file name longer
/// than the one octet length of the wire format; the packet they return (with a packet header
/// computed for it) cannot be serialised.
#[test]
fn cod_literal_long_file_name() {
    let name = vec![b'n'; 256];

    for (what, made) in [
        (
            "from_bytes",
            LiteralData::from_bytes(name.clone(), b"data"[..].into()),
        ),
        ("from_str", LiteralData::from_str(name.clone(), "data")),
    ] {
        let Ok(lit) = made else {
            continue; // refusing the name is the expected behaviour
        };
        let mut out = Vec::new();
        let res = lit.to_writer_with_header(&mut out);
        assert!(
            res.is_ok(),
            "LiteralData::{what} returned Ok for a 256 octet file name (header announces {:?}), \
             but the packet can not be written: {:?}",
            lit.packet_header().packet_length(),
            res
        );
    }

    // 255 octets is the maximum and must keep working
    let lit = LiteralData::from_bytes(vec![b'n'; 255], b"data"[..].into()).unwrap();
    let mut out = Vec::new();
    lit.to_writer_with_header(&mut out).unwrap();
    assert_eq!(parse_one(&out), Packet::LiteralData(lit));
}

/// `trust-body-dropped`: the body of a Trust packet is discarded when parsing, so a non empty
/// trust packet re-serialises as an empty one.
#[test]
fn cod_trust_body_dropped() {
    // tag 12, new format, 2 octets
    let wire = [0xCCu8, 0x02, 0xAA, 0xBB];
    let p = parse_one(&wire);
    assert!(matches!(p, Packet::Trust(_)), "{p:?}");

    let mut out = Vec::new();
    p.to_writer(&mut out).unwrap();
    assert_eq!(
        hex::encode(&out),
        hex::encode(wire),
        "a parsed packet must re-serialise to the octets it was parsed from"
    );
}
