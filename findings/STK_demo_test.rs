//! STK: `LiteralDataPartialGenerator::read` / `CompressedDataPartialGenerator::read` only set
//! `is_done = true` when `fill_buffer` fails. The octets `fill_buffer` had already pulled from the
//! source are dropped, and if the consumer reads again (`io::copy` and `read_to_end` do that for
//! `ErrorKind::Interrupted`) the generator continues with the *rest* of the source and emits a
//! perfectly framed packet: silent data loss.
//!
//! Both generators are private, the consumers reachable through `MessageBuilder` only read again
//! after `Interrupted`. Up to 3f65e16 this test fails (payload with a hole, `to_writer` returns Ok);
//! since 2d88e17 `fill_buffer` itself retries `Interrupted`, which removes the only trigger that is
//! reachable through the public API.
//!
//! => On 429b628 this integration test PASSES: it documents that the defect is not reachable through
//! the public API. The failing demonstration is the pair of in-crate unit tests in
//! STK_demo_unit_test.patch (`cargo test --offline --lib stk_`), which drive the two private
//! generators directly with a source that fails once with `ErrorKind::Other` and a consumer that
//! reads again: both produce a well formed packet with 2900 of 3000 octets.

use std::io::{self, Read};

use pgp::{
    composed::{Message, MessageBuilder},
    types::CompressionAlgorithm,
};
use rand::SeedableRng;
use rand_chacha::ChaCha8Rng;

/// Yields `data`; fails once with `kind` when the read position reaches `fail_at`.
struct Flaky {
    data: Vec<u8>,
    pos: usize,
    fail_at: usize,
    kind: io::ErrorKind,
    fired: bool,
}

impl Read for Flaky {
    fn read(&mut self, buf: &mut [u8]) -> io::Result<usize> {
        if !self.fired && self.pos >= self.fail_at {
            self.fired = true;
            return Err(io::Error::new(self.kind, "flaky source: one transient failure"));
        }
        let mut n = buf.len().min(self.data.len() - self.pos);
        if !self.fired {
            n = n.min(self.fail_at - self.pos);
        }
        buf[..n].copy_from_slice(&self.data[self.pos..self.pos + n]);
        self.pos += n;
        Ok(n)
    }
}

fn payload() -> Vec<u8> {
    (0..3000u32).map(|i| (i * 31 + 7) as u8).collect()
}

fn build(
    fail_at: usize,
    kind: io::ErrorKind,
    compression: Option<CompressionAlgorithm>,
) -> Result<Vec<u8>, String> {
    let src = Flaky {
        data: payload(),
        pos: 0,
        fail_at,
        kind,
        fired: false,
    };
    let mut builder = MessageBuilder::from_reader("", src);
    builder.partial_chunk_size(512).unwrap();
    if let Some(c) = compression {
        builder.compression(c);
    }
    let mut out = Vec::new();
    builder
        .to_writer(ChaCha8Rng::seed_from_u64(7), &mut out)
        .map(|_| out)
        .map_err(|e| e.to_string())
}

fn decode(msg: &[u8]) -> Vec<u8> {
    let mut msg = Message::from_bytes(msg).expect("message parses");
    if msg.is_compressed() {
        msg = msg.decompress().expect("decompresses");
    }
    msg.as_data_vec().expect("message reads")
}

fn check(fail_at: usize, kind: io::ErrorKind, compression: Option<CompressionAlgorithm>) {
    // may panic on revisions before the SGN repair, that is a different defect
    let res = std::panic::catch_unwind(|| build(fail_at, kind, compression));
    let Ok(res) = res else {
        eprintln!("(to_writer panicked for {kind:?} at {fail_at}: SGN, not STK)");
        return;
    };
    match res {
        Err(e) => eprintln!("{kind:?} at {fail_at}: reported as error: {e}"), // fine
        Ok(out) => {
            let data = decode(&out);
            let expected = payload();
            assert!(
                data == expected,
                "to_writer returned Ok, the message is well formed, but carries {} of {} octets \
                 (source failed once with {kind:?} at offset {fail_at}, compression {compression:?}); \
                 first difference at offset {:?}",
                data.len(),
                expected.len(),
                data.iter().zip(&expected).position(|(a, b)| a != b),
            );
        }
    }
}

#[test]
fn stk_literal_partial_interrupted_after_100() {
    check(100, io::ErrorKind::Interrupted, None);
}

#[test]
fn stk_literal_partial_interrupted_after_1000() {
    check(1000, io::ErrorKind::Interrupted, None);
}

#[test]
fn stk_compressed_partial_interrupted() {
    check(
        1000,
        io::ErrorKind::Interrupted,
        Some(CompressionAlgorithm::Uncompressed),
    );
    check(1000, io::ErrorKind::Interrupted, Some(CompressionAlgorithm::ZLIB));
}

/// A non transient error: nobody reads again, `to_writer` must report it.
#[test]
fn stk_other_error_is_reported() {
    for c in [None, Some(CompressionAlgorithm::Uncompressed)] {
        let res = build(100, io::ErrorKind::Other, c);
        assert!(res.is_err(), "source error was swallowed: {res:?}");
    }
}
