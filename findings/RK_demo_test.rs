//! Demo for the two suspected C18 findings of units U94a / U94b (TheRing::find_session_key).
//! Each test asserts what property C18 / the doc comment of `Message::decrypt_the_ring` promise
//! ("If it is set to false, all provided keys, and passwords will be checked and compared.
//!   In this case, if there are different session keys found, it will error out.")
//! and FAILS on code that has the defect.
use pgp::{
    composed::{
        decrypt_session_key_with_password, Deserializable, Esk, Message, MessageBuilder,
        PlainSessionKey, SignedSecretKey, TheRing,
    },
    crypto::sym::SymmetricKeyAlgorithm,
    types::{Password, StringToKey},
};
use rand::SeedableRng;
use rand_chacha::ChaCha20Rng;

fn alice() -> SignedSecretKey {
    let (skey, _headers) = SignedSecretKey::from_armor_single(
        std::fs::File::open("./tests/autocrypt/alice@autocrypt.example.sec.asc").unwrap(),
    )
    .unwrap();
    skey
}

/// RK1: a PKESK-derived session key A and an explicitly given session key B != A are never compared.
#[test]
fn cross_kind_conflict_is_reported() {
    let mut rng = ChaCha20Rng::seed_from_u64(1);
    let skey = alice();
    let pkey = skey.secret_subkeys[0].public_key();

    let mut builder = MessageBuilder::from_bytes("plaintext.txt", b"hello world".to_vec())
        .seipd_v1(&mut rng, SymmetricKeyAlgorithm::AES128);
    builder.encrypt_to_key(&mut rng, &pkey).expect("encryption");
    let encrypted = builder.to_vec(&mut rng).expect("writing");

    let message = Message::from_bytes(&encrypted[..]).expect("reading");

    // the caller presents the recipient key AND a (wrong) explicit session key, and asks for the cross-check
    let key_pw = Password::empty();
    let wrong = PlainSessionKey::V3_4 {
        sym_alg: SymmetricKeyAlgorithm::AES128,
        key: vec![0x42u8; 16].into(),
    };
    let ring = TheRing {
        secret_keys: vec![&skey],
        key_passwords: vec![&key_pw],
        session_keys: vec![wrong],
        ..Default::default()
    };
    let res = message.decrypt_the_ring(ring, false);
    match &res {
        Ok((_, result)) => println!("RK1: Ok, no conflict reported; ring result = {result:?}"),
        Err(e) => println!("RK1: Err({e})"),
    }
    assert!(
        res.is_err(),
        "two presented secrets yield different session keys, but no conflict is reported: the PKESK-derived key is silently chosen"
    );
}

/// RK2: on an SKESK, the first presented password that yields *a* key ends the search; later passwords are never tried,
/// so their (different) session keys never enter the comparison.  A v4 SKESK has no integrity protection: a wrong
/// password passes its plausibility check with probability of a few 1/256.
#[test]
fn every_presented_password_is_cross_checked() {
    let mut rng = ChaCha20Rng::seed_from_u64(2);
    let s2k = StringToKey::new_iterated(&mut rng, Default::default(), 2);
    let mut builder = MessageBuilder::from_bytes("plaintext.txt", b"hello world".to_vec())
        .seipd_v1(&mut rng, SymmetricKeyAlgorithm::AES128);
    builder
        .encrypt_with_password(s2k, &"right password".into())
        .expect("encryption sym");
    let encrypted = builder.to_vec(&mut rng).expect("writing");

    // find a WRONG password that the v4 SKESK "accepts" (decrypts to a plausible algorithm octet / key length)
    let message = Message::from_bytes(&encrypted[..]).expect("reading");
    let Message::Encrypted { esk, .. } = &message else { panic!("not encrypted") };
    let Esk::SymKeyEncryptedSessionKey(skesk) = &esk[0] else { panic!("not an SKESK") };
    let right = Password::from("right password");
    let right_key = decrypt_session_key_with_password(skesk, &right).expect("right password");
    let mut wrong = None;
    for n in 0..100_000u32 {
        let pw = Password::from(format!("wrong password {n}"));
        if let Ok(k) = decrypt_session_key_with_password(skesk, &pw) {
            assert_ne!(k, right_key);
            println!("RK2: wrong password #{n} is accepted by the v4 SKESK and yields a different session key");
            wrong = Some(pw);
            break;
        }
    }
    let wrong = wrong.expect("no accepted wrong password found");

    // both passwords are presented, the wrong one first, and the caller asks for the cross-check
    let ring = TheRing {
        message_password: vec![&wrong, &right],
        ..Default::default()
    };
    let message = Message::from_bytes(&encrypted[..]).expect("reading");
    let res = message.decrypt_the_ring(ring, false);
    match res {
        Ok((mut m, result)) => {
            println!("RK2: find_session_key returned Ok without reporting a conflict; ring result = {result:?}");
            // the second password is reported as Unchecked: it was never tried
            assert_ne!(
                format!("{:?}", result.message_password[1]),
                "Unchecked",
                "the second presented password was never tried, its session key never compared"
            );
            let data = m.as_data_vec();
            println!("RK2: reading the message: {:?}", data.as_ref().map(|d| d.len()));
        }
        Err(e) => {
            println!("RK2: Err({e})");
            assert!(
                format!("{e}").contains("inconsistent"),
                "the two passwords yield different session keys; expected the conflict to be reported, got: {e}"
            );
        }
    }
}
