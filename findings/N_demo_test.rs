//! Defect N: `Mpi::to_writer` writes the bit count `as u16` without enforcing the
//! 16384-bit limit ("Number of bits we accept when reading or writing MPIs") that
//! `Mpi::try_from_reader` enforces.
//!  - a 16385-bit value serialises fine, but the library's own parser rejects the output;
//!  - a 65537-bit value gets its length header truncated to `00 01` and parses back as a
//!    different number (and leaves 8192 octets of garbage in the stream).
//!
//! Property checked: whatever `Mpi::to_bytes` returns `Ok` for must parse back to the same MPI.

use pgp::{ser::Serialize, types::Mpi};

fn check_roundtrip(mpi: &Mpi, what: &str) {
    match mpi.to_bytes() {
        Err(_) => {
            // refusing to serialise an unrepresentable / unsupported value is fine
        }
        Ok(bytes) => {
            assert_eq!(bytes.len(), mpi.write_len());
            let mut rest = &bytes[..];
            let back = Mpi::try_from_reader(&mut rest).unwrap_or_else(|e| {
                panic!(
                    "{what}: serialised to {} octets starting {}.., but the parser rejects it: {e:?}",
                    bytes.len(),
                    hex::encode(&bytes[..4])
                )
            });
            assert!(
                &back == mpi && rest.is_empty(),
                "{what}: header {} parses back as a {}-octet MPI (original {} octets), {} octets left over",
                hex::encode(&bytes[..2]),
                back.len(),
                mpi.len(),
                rest.len()
            );
        }
    }
}

#[test]
fn mpi_16384_bits_roundtrips() {
    // largest supported value: 2048 octets, top bit set
    let mut raw = vec![0xAAu8; 2048];
    raw[0] = 0x80;
    let mpi = Mpi::from_slice(&raw);
    let bytes = mpi.to_bytes().expect("16384 bits is within the limit");
    assert_eq!(&bytes[..2], &[0x40, 0x00]);
    assert_eq!(Mpi::try_from_reader(&bytes[..]).unwrap(), mpi);
}

#[test]
fn mpi_16385_bits_serialises_to_something_the_parser_rejects() {
    // 2049 octets, leading octet 0x01 => 16385 bits
    let mpi = Mpi::from_slice(&[1u8; 2049]);
    check_roundtrip(&mpi, "16385-bit MPI");
}

#[test]
fn mpi_65537_bits_length_header_is_truncated() {
    // 8193 octets, leading octet 0x01 => 65537 bits, `65537 as u16 == 1`
    let mpi = Mpi::from_slice(&[1u8; 8193]);
    check_roundtrip(&mpi, "65537-bit MPI");
}
