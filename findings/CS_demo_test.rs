//! Defect CS: `SimpleChecksum` (`Hasher::write`) sums one `write` call into a `u32`.
//!
//! `buf.iter().map(u32::from).sum::<u32>()` overflows for a single write of 16_843_010 octets
//! of 0xFF (255 * 16_843_009 == u32::MAX), and the following `u32::from(self.0) + new_sum`
//! overflows one octet earlier if the running sum is not zero.
//! With overflow checks (debug builds, the default for `cargo test`) this panics; without them
//! the result is still right (2^32 is a multiple of 65536).
//!
//! The checksum is defined as "sum of all octets, mod 65536", a total function.

use pgp::crypto::checksum;

fn expected(len: usize, octet: u8) -> u16 {
    ((len as u64 * u64::from(octet)) % 65536) as u16
}

#[test]
fn cs_simple_checksum_of_large_buffer_must_not_panic() {
    // smallest all-0xFF buffer whose octet sum exceeds u32::MAX
    let len = 16_843_010usize;
    let data = vec![0xFFu8; len];

    let res = std::panic::catch_unwind(|| checksum::calculate_simple(&data));
    match res {
        Ok(sum) => assert_eq!(sum, expected(len, 0xFF)),
        Err(payload) => {
            let msg = payload
                .downcast_ref::<String>()
                .cloned()
                .or_else(|| payload.downcast_ref::<&str>().map(|s| s.to_string()))
                .unwrap_or_default();
            panic!("checksum::calculate_simple panicked on {len} octets of 0xFF: {msg}");
        }
    }
}

#[test]
fn cs_simple_checksum_running_sum_must_not_panic() {
    use std::hash::Hasher;

    // u32::MAX exactly in one write is fine on its own, but not on top of a running sum
    let len = 16_843_009usize;
    let data = vec![0xFFu8; len];

    let res = std::panic::catch_unwind(|| {
        let mut hasher = checksum::SimpleChecksum::default();
        hasher.write(&[1]);
        hasher.write(&data);
        hasher.finish() as u16
    });
    match res {
        Ok(sum) => assert_eq!(sum, expected(len, 0xFF).wrapping_add(1)),
        Err(payload) => {
            let msg = payload
                .downcast_ref::<String>()
                .cloned()
                .or_else(|| payload.downcast_ref::<&str>().map(|s| s.to_string()))
                .unwrap_or_default();
            panic!("SimpleChecksum::write panicked on 1 + {len} octets: {msg}");
        }
    }
}

/// The repair must keep the values: compare against the definition on small inputs.
#[test]
fn cs_simple_checksum_values() {
    assert_eq!(checksum::calculate_simple(&[]), 0);
    assert_eq!(checksum::calculate_simple(&[1, 2, 3]), 6);
    let data = vec![0xFFu8; 70_000];
    assert_eq!(checksum::calculate_simple(&data), expected(70_000, 0xFF));
    let data: Vec<u8> = (0..200_000u32).map(|i| (i % 251) as u8).collect();
    let want = (data.iter().map(|v| u64::from(*v)).sum::<u64>() % 65536) as u16;
    assert_eq!(checksum::calculate_simple(&data), want);
}
