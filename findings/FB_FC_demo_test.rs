//! findings FB / FC (C04)
use pgp::packet::SymKeyEncryptedSessionKey;

#[test]
fn skesk_v4_with_empty_encrypted_key_decrypt_is_error_not_panic() {
    // SKESK v4 body: version 4, cipher 9 (AES256), S2K simple (type 0) hash 8 (SHA256), no encrypted session key
    let body = [0x04u8, 0x09, 0x00, 0x08];
    let header = pgp::packet::PacketHeader::new_fixed(pgp::types::Tag::SymKeyEncryptedSessionKey, body.len() as u32);
    let skesk = SymKeyEncryptedSessionKey::try_from_reader(header, &body[..]).unwrap();
    let r = std::panic::catch_unwind(|| skesk.decrypt([0u8; 32]).map(|_| ()));
    assert!(r.is_ok(), "SymKeyEncryptedSessionKey::decrypt panicked on an empty encrypted session key");
    assert!(r.unwrap().is_err());
}

#[test]
fn fixed_length_literal_of_almost_4gib_is_error_not_panic() {
    // a sparse file of 2^32 - 3 octets: source_len + literal header (6) does not fit the u32 packet length
    let dir = std::env::temp_dir().join(format!("fc_demo_{}", std::process::id()));
    std::fs::create_dir_all(&dir).unwrap();
    let path = dir.join("big.bin");
    let f = std::fs::File::create(&path).unwrap();
    f.set_len((1u64 << 32) - 3).unwrap();
    drop(f);
    let p2 = path.clone();
    let r = std::panic::catch_unwind(move || {
        let builder = pgp::composed::MessageBuilder::from_file(&p2);
        let mut sink = std::io::sink();
        builder.to_writer(rand::thread_rng(), &mut sink).map(|_| ())
    });
    let _ = std::fs::remove_dir_all(&dir);
    assert!(r.is_ok(), "writing a fixed-length literal packet for a 2^32-3 octet file panicked");
    assert!(r.unwrap().is_err(), "a literal body that does not fit a u32 length must be rejected");
}
