//! ARH: ASCII armor with armor header lines ("Comment: ..", "Version: ..", "Hash: ..") must be
//! read the same way no matter how the source hands out its data (`BufRead::fill_buf` pieces).
//!
//! On the unchanged code the header block is rejected ("failed reading: armor header ... CrLf")
//! whenever a `fill_buf` piece ends inside the key-value header block.

use std::io::{BufRead, BufReader, Read};

use pgp::{
    armor::{BlockType, Dearmor, DearmorOptions},
    composed::CleartextSignedMessage,
};

fn short(e: impl std::fmt::Display) -> String {
    e.to_string().chars().take(200).collect()
}

/// What `armor::write` produces for the payload "hello" with one `Comment` header, no checksum.
const ARMOR: &str = "-----BEGIN PGP MESSAGE-----\n\
    Comment: first comment\n\
    \n\
    aGVsbG8=\n\
    -----END PGP MESSAGE-----\n";

fn dearmor_with_cap(input: &[u8], cap: usize) -> Result<(Option<BlockType>, Vec<String>, Vec<u8>), String> {
    let mut d = Dearmor::new(BufReader::with_capacity(cap, input));
    let mut out = Vec::new();
    d.read_to_end(&mut out).map_err(short)?;
    let comments = d.headers.get("Comment").cloned().unwrap_or_default();
    Ok((d.typ, comments, out))
}

#[test]
fn armor_headers_do_not_depend_on_fill_buf_pieces() {
    assert_eq!(ARMOR.len(), 87);

    // reference: everything in one piece
    let reference = dearmor_with_cap(ARMOR.as_bytes(), 4096).expect("whole input");
    assert_eq!(reference.0, Some(BlockType::Message));
    assert_eq!(reference.1, vec!["first comment".to_string()]);
    assert_eq!(reference.2, b"hello");

    let mut failed = Vec::new();
    let mut first_err = String::new();
    for cap in 1..=100 {
        match dearmor_with_cap(ARMOR.as_bytes(), cap) {
            Ok(res) => assert_eq!(res, reference, "different result for cap {cap}"),
            Err(e) => {
                if failed.is_empty() {
                    first_err = e;
                }
                failed.push(cap);
            }
        }
    }
    assert!(
        failed.is_empty(),
        "rejected for BufReader capacities {failed:?}; first error: {first_err}"
    );
}

#[test]
fn armor_headers_crlf_and_several_lines() {
    // several header lines, CRLF line endings, whitespace-only separator line
    let armor = "-----BEGIN PGP MESSAGE-----\r\n\
        Version: 1\r\n\
        Comment: a\r\n\
        Comment: b: c\r\n\
        \x20\t\r\n\
        aGVsbG8=\r\n\
        -----END PGP MESSAGE-----\r\n";

    let mut d = Dearmor::new(BufReader::with_capacity(4096, armor.as_bytes()));
    let mut reference = Vec::new();
    d.read_to_end(&mut reference).expect("whole input");
    let ref_headers = d.headers.clone();
    assert_eq!(reference, b"hello");
    assert_eq!(ref_headers.len(), 2);
    assert_eq!(ref_headers["Comment"], vec!["a".to_string(), "b: c".to_string()]);

    let mut failed = Vec::new();
    for cap in 1..=armor.len() {
        let mut d = Dearmor::new(BufReader::with_capacity(cap, armor.as_bytes()));
        let mut out = Vec::new();
        match d.read_to_end(&mut out) {
            Ok(_) => {
                assert_eq!(out, reference, "cap {cap}");
                assert_eq!(d.headers, ref_headers, "cap {cap}");
            }
            Err(_) => failed.push(cap),
        }
    }
    assert!(failed.is_empty(), "rejected for capacities {failed:?}");
}

#[test]
fn malformed_header_block_is_still_rejected() {
    // a line that is neither a key-value pair nor blank, before the blank line
    let bad = "-----BEGIN PGP MESSAGE-----\n\
        Comment: ok\n\
        not a header line\n\
        \n\
        aGVsbG8=\n\
        -----END PGP MESSAGE-----\n";
    // header block that never ends
    let truncated = "-----BEGIN PGP MESSAGE-----\nComment: ok\nComm";

    for input in [bad, truncated] {
        for cap in (1..=input.len()).chain([4096]) {
            let mut d = Dearmor::new(BufReader::with_capacity(cap, input.as_bytes()));
            let mut out = Vec::new();
            assert!(d.read_to_end(&mut out).is_err(), "accepted with cap {cap}");
        }
    }

    // the size limit still bounds how much is taken from the source while looking for the end
    // of the header block
    let mut long = b"-----BEGIN PGP MESSAGE-----\nComment: ".to_vec();
    long.extend(std::iter::repeat(b'x').take(100_000));
    let opt = DearmorOptions::new().set_limit(1000);
    let mut src = Counting(BufReader::with_capacity(64, &long[..]), 0);
    let mut d = Dearmor::with_options(&mut src, opt);
    let mut out = Vec::new();
    assert!(d.read_to_end(&mut out).is_err(), "unterminated header accepted");
    drop(d);
    assert!(src.1 <= 1000 + 64, "{} octets taken with a limit of 1000", src.1);
}

/// Counts the octets consumed from the wrapped source.
struct Counting<R>(R, usize);

impl<R: Read> Read for Counting<R> {
    fn read(&mut self, buf: &mut [u8]) -> std::io::Result<usize> {
        let n = self.0.read(buf)?;
        self.1 += n;
        Ok(n)
    }
}

impl<R: BufRead> BufRead for Counting<R> {
    fn fill_buf(&mut self) -> std::io::Result<&[u8]> {
        self.0.fill_buf()
    }
    fn consume(&mut self, amt: usize) {
        self.1 += amt;
        self.0.consume(amt)
    }
}

#[test]
fn cleartext_hash_headers_do_not_depend_on_fill_buf_pieces() {
    let data = std::fs::read("tests/openpgp/samplemsgs/clearsig-1-key-1.asc").unwrap();

    let (reference, ref_headers) =
        CleartextSignedMessage::from_armor_buf(&data[..], DearmorOptions::default())
            .map_err(short)
            .expect("whole input");
    assert_eq!(reference.signatures().len(), 1);
    assert_eq!(ref_headers.get("Version").unwrap(), &vec!["GnuPG v2".to_string()]);

    let mut failed = Vec::new();
    let mut first_err = String::new();
    for cap in 1..=300 {
        let b = BufReader::with_capacity(cap, &data[..]);
        match CleartextSignedMessage::from_armor_buf(b, DearmorOptions::default()) {
            Ok((msg, headers)) => {
                assert_eq!(msg, reference, "cap {cap}");
                assert_eq!(headers, ref_headers, "cap {cap}");
            }
            Err(e) => {
                if failed.is_empty() {
                    first_err = short(e);
                }
                failed.push(cap);
            }
        }
    }
    assert!(
        failed.is_empty(),
        "cleartext message rejected for {} of 300 capacities, e.g. {:?}; first error: {first_err}",
        failed.len(),
        &failed[..failed.len().min(12)]
    );
}
