use pgp::packet::KeyFlags;
use pgp::ser::Serialize;
#[test]
fn keyflags_reserved_bits_roundtrip() {
    for body in [&[0x00u8, 0x80][..], &[0x00, 0x01], &[0x00, 0x10], &[0x00, 0x04], &[0x00, 0x08], &[0xFF, 0x0C], &[0x00,0xF3,0x55]] {
        let kf = KeyFlags::try_from_reader(body).unwrap();
        let out = kf.to_bytes().unwrap();
        println!("{:02x?} -> {:02x?} write_len {}", body, out, kf.write_len());
        assert_eq!(&out[..], body, "key flags body does not re-serialise identically");
    }
}
