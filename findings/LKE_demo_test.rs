//! LKE: locking / unlocking a secret key packet (`set_password*`, `remove_password`) replaces the
//! secret parameters but leaves the stored packet header with the length of the old body.
//! The derived `PartialEq` compares the header, so such a key is not equal to what is read back
//! from its own serialization, although the serialized octets are identical.

use pgp::{
    composed::{
        Deserializable, EncryptionCaps, KeyType, SecretKeyParamsBuilder, SignedSecretKey,
        SubkeyParamsBuilder,
    },
    crypto::ecc_curve::ECCCurve,
    packet::PacketTrait,
    ser::Serialize,
    types::{KeyVersion, PacketLength, Password},
};
use rand::SeedableRng;
use rand_chacha::ChaCha8Rng;

fn generate(version: KeyVersion, pw: Option<&str>) -> SignedSecretKey {
    let mut rng = ChaCha8Rng::seed_from_u64(7);
    let (primary, sub) = match version {
        KeyVersion::V6 => (KeyType::Ed25519, KeyType::X25519),
        _ => (
            KeyType::Ed25519Legacy,
            KeyType::ECDH(ECCCurve::Curve25519Legacy),
        ),
    };
    SecretKeyParamsBuilder::default()
        .version(version)
        .key_type(primary)
        .can_sign(true)
        .primary_user_id("lke <lke@example.org>".into())
        .passphrase(pw.map(Into::into))
        .subkey(
            SubkeyParamsBuilder::default()
                .version(version)
                .key_type(sub)
                .can_encrypt(EncryptionCaps::All)
                .passphrase(pw.map(Into::into))
                .build()
                .unwrap(),
        )
        .build()
        .unwrap()
        .generate(&mut rng)
        .unwrap()
}

/// The stored header must describe the packet body as it is now.
fn check_headers(key: &SignedSecretKey, what: &str) {
    assert_eq!(
        key.primary_key.packet_header().packet_length(),
        PacketLength::Fixed(key.primary_key.write_len() as u32),
        "{what}: primary key header vs. body length {}",
        key.primary_key.write_len()
    );
    for sub in &key.secret_subkeys {
        assert_eq!(
            sub.key.packet_header().packet_length(),
            PacketLength::Fixed(sub.key.write_len() as u32),
            "{what}: subkey header vs. body length {}",
            sub.key.write_len()
        );
    }
}

/// Serialize, read back, compare: octets and values must both agree.
fn check_roundtrip(key: &SignedSecretKey, what: &str) {
    let bytes = key.to_bytes().unwrap();
    let back = SignedSecretKey::from_bytes(&bytes[..])
        .map_err(|e| e.to_string().chars().take(200).collect::<String>())
        .unwrap();
    assert_eq!(back.to_bytes().unwrap(), bytes, "{what}: octets differ");
    assert!(
        key.primary_key == back.primary_key,
        "{what}: primary key != re-imported primary key (header {:?} vs {:?})",
        key.primary_key.packet_header().packet_length(),
        back.primary_key.packet_header().packet_length()
    );
    for (a, b) in key.secret_subkeys.iter().zip(&back.secret_subkeys) {
        assert!(
            a.key == b.key,
            "{what}: subkey != re-imported subkey (header {:?} vs {:?})",
            a.key.packet_header().packet_length(),
            b.key.packet_header().packet_length()
        );
    }
    assert!(*key == back, "{what}: key != re-imported key");
}

#[test]
fn generated_locked_key_equals_its_reimport() {
    for version in [KeyVersion::V4, KeyVersion::V6] {
        // control: without a passphrase nothing is replaced after construction
        let plain = generate(version, None);
        check_headers(&plain, "unlocked");
        check_roundtrip(&plain, "unlocked");

        let locked = generate(version, Some("pw"));
        check_roundtrip(&locked, &format!("{version:?} generated with passphrase"));
        check_headers(&locked, &format!("{version:?} generated with passphrase"));
    }
}

#[test]
fn remove_and_set_password_keep_header_in_sync() {
    let mut rng = ChaCha8Rng::seed_from_u64(8);
    let pw = Password::from("pw");

    // take a parsed key, so that the starting point is consistent also on the unchanged code
    let locked = generate(KeyVersion::V4, Some("pw"));
    let mut key = SignedSecretKey::from_bytes(&locked.to_bytes().unwrap()[..]).unwrap();
    check_headers(&key, "parsed");

    key.primary_key.remove_password(&pw).unwrap();
    for sub in &mut key.secret_subkeys {
        sub.key.remove_password(&pw).unwrap();
    }
    check_roundtrip(&key, "after remove_password");
    check_headers(&key, "after remove_password");

    key.primary_key.set_password(&mut rng, &pw).unwrap();
    for sub in &mut key.secret_subkeys {
        sub.key.set_password(&mut rng, &pw).unwrap();
    }
    check_roundtrip(&key, "after set_password");
    check_headers(&key, "after set_password");

    // still usable
    key.verify_bindings().unwrap();
    key.primary_key.unlock(&pw, |_, _| Ok(())).unwrap().unwrap();
}
