//! Defect V2: version 2 secret keys are accepted, but the 16 bit checksum of the secret key
//! material is handled for version 3 and 4 only.
//!
//! A version 2 key is a version 3 key with another version octet ("V2 keys are identical to V3
//! keys except for the version number"), and the parser treats them alike
//! (`secret_key_parser`: `KeyVersion::V2 | KeyVersion::V3 => private_key_parser_v2_v3`).
//! `PlainSecretParams::{try_from_reader, to_writer, write_len}` however test
//! `version == V3 || version == V4`, so for a v2 key
//!  - the checksum is neither read nor verified, trailing octets are not rejected
//!    (unprotected keys, and keys unlocked from legacy CFB / usage 255 protection),
//!  - the checksum is not written: an unprotected v2 key does not round trip.

use pgp::{
    composed::{Deserializable, SignedSecretKey},
    crypto::sym::SymmetricKeyAlgorithm,
    packet::{PacketHeader, SecretKey},
    ser::Serialize,
    types::{KeyDetails, KeyVersion, Password, SecretParams, Tag},
};

/// Body of the (unprotected, RSA) v3 secret key packet from the test suite, and the length of
/// its public part.
fn v3_body() -> (Vec<u8>, usize) {
    let (key, _) = SignedSecretKey::from_armor_file("./tests/pgp6/alice.sec.asc").expect("alice");
    assert_eq!(key.primary_key.version(), KeyVersion::V3);
    assert!(matches!(
        key.primary_key.secret_params(),
        SecretParams::Plain(_)
    ));
    let body = key.primary_key.to_bytes().expect("body");
    let public_len = key.primary_key.public_key().to_bytes().expect("pub").len();
    assert_eq!(body[0], 3);
    assert_eq!(body[public_len], 0, "S2K usage: unprotected");
    (body, public_len)
}

fn with_version(body: &[u8], version: u8) -> Vec<u8> {
    let mut body = body.to_vec();
    body[0] = version;
    body
}

fn parse(body: &[u8]) -> pgp::errors::Result<SecretKey> {
    let header = PacketHeader::new_fixed(Tag::SecretKey, body.len() as u32);
    SecretKey::try_from_reader(header, body)
}

#[test]
fn v2_unprotected_key_round_trips() {
    let (body, _) = v3_body();

    for version in [3u8, 2] {
        let body = with_version(&body, version);
        let key = parse(&body).expect("parse");
        assert_eq!(u8::from(key.version()), version);

        let written = key.to_bytes().expect("write");
        assert_eq!(
            written.len(),
            body.len(),
            "v{version}: serialised length differs from the parsed packet"
        );
        assert_eq!(written, body, "v{version}: round trip");
    }
}

#[test]
fn v2_unprotected_key_checksum_is_verified() {
    let (body, _) = v3_body();

    for version in [3u8, 2] {
        // wrong checksum
        let mut bad = with_version(&body, version);
        let len = bad.len();
        bad[len - 1] ^= 0x01;
        let res = parse(&bad);
        assert!(
            res.is_err(),
            "v{version}: a secret key with a wrong checksum was accepted"
        );

        // trailing octets
        let mut bad = with_version(&body, version);
        bad.extend_from_slice(&[0xde, 0xad, 0xbe, 0xef]);
        let res = parse(&bad);
        assert!(
            res.is_err(),
            "v{version}: a secret key with trailing octets was accepted"
        );
    }
}

/// Legacy CFB protection (S2K usage octet = cipher, key = MD5(password)): the only integrity
/// check of the unlocked material is the 16 bit checksum.
#[test]
fn v2_legacy_cfb_checksum_is_verified_on_unlock() {
    use md5::{Digest, Md5};

    let (body, public_len) = v3_body();
    let password = "correct horse";

    // secret MPIs + checksum, as stored in the unprotected key
    let mut secret = body[public_len + 1..].to_vec();
    // damage the checksum: what is unlocked is not what was locked
    let len = secret.len();
    secret[len - 1] ^= 0x01;

    let iv = [0x42u8; 16];
    let sym = SymmetricKeyAlgorithm::AES128;
    let key = Md5::digest(password.as_bytes());
    sym.encrypt_with_iv_regular(&key, &iv, &mut secret)
        .expect("encrypt");

    for version in [3u8, 2] {
        let mut locked = with_version(&body[..public_len], version);
        locked.push(u8::from(sym));
        locked.extend_from_slice(&iv);
        locked.extend_from_slice(&secret);

        let key = parse(&locked).expect("parse locked");
        assert_eq!(key.secret_params().string_to_key_id(), 7);

        // for the record: wrong passwords (not an assertion of this demo, see TRIAGE_w2b.md)
        let accepted = (0..50)
            .filter(|i| {
                key.unlock(&Password::from(format!("wrong {i}")), |_, _| Ok(()))
                    .is_ok()
            })
            .count();
        println!("v{version}: {accepted} of 50 wrong passwords accepted");

        let res = key.unlock(&Password::from(password), |_, _| Ok(()));
        assert!(
            res.is_err(),
            "v{version}: unlock returned key material although the checksum does not match"
        );
    }
}
