//! Suspected defect F: `LiteralDataPartialGenerator` computes
//! `chunk_size as usize - header.write_len()`; with chunk size 512 and a literal file name of
//! >= 507 octets that would underflow.
//!
//! Result of the triage: the subtraction is NOT reachable through the public API.
//!  - `LiteralDataGenerator` / `LiteralDataPartialGenerator` are `pub(crate)`;
//!  - the only caller (`MessageBuilder`, src/composed/message/builder.rs `to_writer_inner`)
//!    builds the header with `LiteralDataHeader::new(mode)`, i.e. always an EMPTY file name
//!    (the name passed to `from_reader`/`from_bytes`/`from_file` is discarded: `_name`);
//!  - `LiteralDataHeader` has private fields; the only other way to get one is parsing, which
//!    bounds the name to 255 octets (header length <= 261 < 512 = minimum chunk size).
//!  - `LiteralData::from_bytes`/`from_str` accept over-long names, but serialising such a packet
//!    returns an error (`u8::try_from(name.len())?`), no truncated length octet is ever written.
//!
//! These tests therefore PASS on the unchanged code; they pin down the observed behaviour.

use std::panic::{catch_unwind, AssertUnwindSafe};

use pgp::{
    composed::{Message, MessageBuilder},
    packet::{LiteralData, Packet, PacketTrait},
    ser::Serialize,
};
use rand::SeedableRng;
use rand_chacha::ChaCha8Rng;

/// 600-octet file name + minimal partial chunk size through the streaming builder.
#[test]
fn builder_with_600_byte_name_and_chunk_512_does_not_panic() {
    let name = vec![b'n'; 600];
    let data = vec![b'd'; 5000];

    let res = catch_unwind(AssertUnwindSafe(|| {
        let mut builder = MessageBuilder::from_reader(name.clone(), &data[..]);
        builder.partial_chunk_size(512).unwrap();
        builder.to_vec(ChaCha8Rng::seed_from_u64(0))
    }));
    let out = res
        .expect("no panic in the partial generator")
        .expect("message is generated");

    // The produced message parses back; the file name was dropped by the builder.
    let mut msg = Message::from_bytes(&out[..]).unwrap();
    assert_eq!(msg.as_data_vec().unwrap(), data);
    assert_eq!(msg.literal_data_header().unwrap().file_name().len(), 0);
}

/// Same through the fixed-length path (`from_bytes`), 300-octet name.
#[test]
fn builder_from_bytes_with_300_byte_name_roundtrips() {
    let name = vec![b'n'; 300];
    let data = vec![b'd'; 100];
    let out = MessageBuilder::from_bytes(name, data.clone())
        .to_vec(ChaCha8Rng::seed_from_u64(0))
        .unwrap();
    let mut msg = Message::from_bytes(&out[..]).unwrap();
    assert_eq!(msg.as_data_vec().unwrap(), data);
    assert_eq!(msg.literal_data_header().unwrap().file_name().len(), 0);
}

/// The packet level type accepts a long name, but never emits a corrupt packet:
/// serialisation fails with an error instead of truncating the length octet.
#[test]
fn literal_data_packet_with_long_name_fails_to_serialise() {
    for len in [256usize, 300, 600] {
        let lit = LiteralData::from_bytes(vec![b'n'; len], vec![b'd'; 10].into())
            .expect("constructor does not validate the name length");
        let res = catch_unwind(AssertUnwindSafe(|| lit.to_bytes()));
        let res = res.expect("no panic");
        assert!(
            res.is_err(),
            "name of {len} octets cannot be encoded, got {:?}",
            res.map(hex::encode)
        );

        // ... also with the packet header, and through the `Packet` enum
        let mut out = Vec::new();
        assert!(lit.to_writer_with_header(&mut out).is_err());
        assert!(Packet::from(lit).to_bytes().is_err());
    }

    // 255 octets is fine and roundtrips
    let lit = LiteralData::from_bytes(vec![b'n'; 255], vec![b'd'; 10].into()).unwrap();
    let mut out = Vec::new();
    lit.to_writer_with_header(&mut out).unwrap();
    let mut msg = Message::from_bytes(&out[..]).unwrap();
    assert_eq!(msg.as_data_vec().unwrap(), lit.data());
    assert_eq!(msg.literal_data_header().unwrap().file_name().len(), 255);
}
