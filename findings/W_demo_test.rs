//! W: AEAD (SEIPDv2) `StreamEncryptor` / `StreamDecryptor`: a source that reports
//! `ErrorKind::Interrupted` once (transient; `read_to_end`, `io::copy`,
//! `read_exact` retry it transparently), or any other error followed by a
//! further `read`:
//!   * encryptor: `read_to_end` returns Ok with MORE octets than the correct
//!     stream, starting with plaintext and zero octets in the clear;
//!   * decryptor, fault before the first chunk is complete: raw ciphertext
//!     octets are released as "plaintext";
//!   * decryptor, fault mid-stream: panic `attempt to subtract with overflow`
//!     in `out_buffer_remaining` (src/crypto/aead/decryptor.rs:306).
//!
//! Public API only. Fails on the unchanged code.

use std::{
    io::{self, BufReader, Read},
    panic::{catch_unwind, AssertUnwindSafe},
};

use pgp::{
    crypto::{
        aead::{AeadAlgorithm, ChunkSize},
        sym::SymmetricKeyAlgorithm,
    },
    packet::{StreamDecryptor, SymEncryptedProtectedData},
};

const KEY: [u8; 16] = [7u8; 16];
const SALT: [u8; 32] = [9u8; 32];
const SYM: SymmetricKeyAlgorithm = SymmetricKeyAlgorithm::AES128;
const AEAD: AeadAlgorithm = AeadAlgorithm::Ocb;
const CHUNK: ChunkSize = ChunkSize::C64B;

/// Delivers `data` in reads of at most `max_read` octets. When the read position is
/// at `fault_at`, fails `times` times with `kind` (without consuming anything), then goes on.
struct FaultyReader {
    data: Vec<u8>,
    pos: usize,
    max_read: usize,
    fault_at: usize,
    kind: io::ErrorKind,
    times: usize,
}

impl Read for FaultyReader {
    fn read(&mut self, buf: &mut [u8]) -> io::Result<usize> {
        if self.pos == self.fault_at && self.times > 0 {
            self.times -= 1;
            return Err(io::Error::new(self.kind, "injected source fault"));
        }
        let mut n = buf.len().min(self.max_read).min(self.data.len() - self.pos);
        if self.pos < self.fault_at {
            n = n.min(self.fault_at - self.pos);
        }
        buf[..n].copy_from_slice(&self.data[self.pos..self.pos + n]);
        self.pos += n;
        Ok(n)
    }
}

fn faulty(data: &[u8], at: usize, kind: io::ErrorKind, times: usize) -> FaultyReader {
    FaultyReader {
        data: data.to_vec(),
        pos: 0,
        max_read: 16,
        fault_at: at,
        kind,
        times,
    }
}

fn plaintext(len: usize) -> Vec<u8> {
    (0..len).map(|i| b'a' + (i % 26) as u8).collect()
}

fn encryptor<R: Read>(source: R) -> impl Read {
    SymEncryptedProtectedData::encrypt_seipdv2_stream(SYM, AEAD, CHUNK, &KEY, SALT, source)
        .unwrap()
}

fn decryptor<R: io::BufRead>(source: R) -> StreamDecryptor<R> {
    StreamDecryptor::v2(SYM, AEAD, CHUNK, &SALT, &KEY, source).unwrap()
}

fn reference(pt: &[u8]) -> Vec<u8> {
    let mut ct = Vec::new();
    encryptor(pt).read_to_end(&mut ct).unwrap();
    ct
}

fn decrypt(ct: &[u8]) -> io::Result<Vec<u8>> {
    let mut out = Vec::new();
    decryptor(ct).read_to_end(&mut out)?;
    Ok(out)
}

fn panic_msg(p: Box<dyn std::any::Any + Send>) -> String {
    p.downcast_ref::<String>()
        .cloned()
        .or_else(|| p.downcast_ref::<&str>().map(|s| s.to_string()))
        .unwrap_or_default()
}

/// A consumer that retries `retries` times after an error (of any kind).
fn drain_retrying<R: Read>(mut r: R, mut retries: usize) -> (Vec<u8>, io::Result<()>) {
    let mut out = Vec::new();
    let mut buf = [0u8; 4096];
    loop {
        match r.read(&mut buf) {
            Ok(0) => return (out, Ok(())),
            Ok(n) => out.extend_from_slice(&buf[..n]),
            Err(e) => {
                if retries == 0 {
                    return (out, Err(e));
                }
                retries -= 1;
            }
        }
    }
}

/// Oracle: after a source error, a consumer that goes on reading must either keep getting
/// `Err` (having received only a prefix of the right answer), or get exactly the right answer.
fn check_outcome(what: &str, got: (Vec<u8>, io::Result<()>), expected: &[u8]) {
    let (out, status) = got;
    match status {
        Err(_) => assert!(
            expected.starts_with(&out),
            "{what}: octets released before the error are not part of the correct output \
             ({} octets released, first: {:02x?})",
            out.len(),
            &out[..out.len().min(16)]
        ),
        Ok(()) => assert!(
            out == expected,
            "{what}: source error was turned into a clean but wrong result: {} octets \
             (expected {}), first: {:02x?}",
            out.len(),
            expected.len(),
            &out[..out.len().min(16)]
        ),
    }
}

// ---------------------------------------------------------------- encryptor

#[test]
fn w_reference_roundtrip() {
    let pt = plaintext(200);
    let ct = reference(&pt);
    // 4 chunks + 4 tags + final tag
    assert_eq!(ct.len(), 200 + 5 * 16);
    assert_eq!(decrypt(&ct).unwrap(), pt);
}

/// 100 octets of plaintext: 10 delivered, Interrupted once, then the rest; `read_to_end`.
#[test]
fn w_encryptor_interrupted_once_read_to_end() {
    let pt = plaintext(100);
    let expected = reference(&pt);

    let mut enc = encryptor(faulty(&pt, 10, io::ErrorKind::Interrupted, 1));
    let mut ct = Vec::new();
    let n = enc
        .read_to_end(&mut ct)
        .expect("transient interruption must not fail the encryption");
    assert!(
        ct == expected,
        "read_to_end returned Ok({n}), expected {} octets; output starts with the plaintext \
         in the clear: {}, followed by zeros: {}; decrypting it: {:?}",
        expected.len(),
        ct.starts_with(&pt[..10]),
        ct[10..64].iter().all(|b| *b == 0),
        decrypt(&ct).map(|d| d == pt).map_err(|e| e.to_string()),
    );
}

#[test]
fn w_encryptor_interrupted_once_io_copy() {
    let pt = plaintext(100);
    let expected = reference(&pt);
    let mut enc = encryptor(faulty(&pt, 70, io::ErrorKind::Interrupted, 1));
    let mut ct = Vec::new();
    std::io::copy(&mut enc, &mut ct).expect("transient interruption");
    assert!(
        ct == expected,
        "io::copy returned Ok with {} octets, expected {}",
        ct.len(),
        expected.len()
    );
}

/// Non retryable error, but the consumer calls `read` again.
#[test]
fn w_encryptor_other_error_then_read_again() {
    let pt = plaintext(100);
    let expected = reference(&pt);
    let enc = encryptor(faulty(&pt, 10, io::ErrorKind::Other, 1));
    let got = catch_unwind(AssertUnwindSafe(|| drain_retrying(enc, 3)))
        .unwrap_or_else(|p| panic!("panicked: {:?}", panic_msg(p)));
    check_outcome("encryptor", got, &expected);
}

/// Same mechanism without any source fault: the chunk can not be encrypted (no such cipher
/// combination), `read` reports it, and the next `read` hands out the plaintext chunk.
#[test]
fn w_encryptor_encrypt_failure_then_read_again() {
    let pt = plaintext(100);
    let mut enc = SymEncryptedProtectedData::encrypt_seipdv2_stream(
        SymmetricKeyAlgorithm::Camellia128,
        AEAD,
        CHUNK,
        &KEY,
        SALT,
        &pt[..],
    )
    .unwrap();
    let mut buf = [0u8; 256];
    assert!(enc.read(&mut buf).is_err(), "Camellia + OCB is not defined");
    let second = enc.read(&mut buf);
    assert!(
        second.is_err(),
        "after the failure read() returned {second:?}; plaintext in the clear: {}",
        buf.starts_with(&pt[..64])
    );
}

/// Permanent error: must surface from `read_to_end`.
#[test]
fn w_encryptor_permanent_error_surfaces() {
    let pt = plaintext(100);
    let mut enc = encryptor(faulty(&pt, 70, io::ErrorKind::Other, usize::MAX));
    let mut ct = Vec::new();
    assert!(enc.read_to_end(&mut ct).is_err());
    assert!(reference(&pt).starts_with(&ct));
}

// ---------------------------------------------------------------- decryptor

/// Interrupted once after 10 octets of ciphertext (before the first chunk is complete).
#[test]
fn w_decryptor_interrupted_at_stream_start() {
    let pt = plaintext(200);
    let ct = reference(&pt);

    let source = BufReader::with_capacity(16, faulty(&ct, 10, io::ErrorKind::Interrupted, 1));
    let mut dec = decryptor(source);
    let mut out = Vec::new();
    let res = catch_unwind(AssertUnwindSafe(|| dec.read_to_end(&mut out)))
        .unwrap_or_else(|p| panic!("panicked: {:?}", panic_msg(p)));
    assert!(
        res.is_ok() && out == pt,
        "read_to_end: {:?}; {} octets released; they are raw ciphertext: {}",
        res.as_ref().map_err(|e| e.to_string()),
        out.len(),
        !out.is_empty() && ct.starts_with(&out),
    );
}

/// Interrupted once in the middle of the stream (after the first chunk was handed out).
#[test]
fn w_decryptor_interrupted_mid_stream() {
    let pt = plaintext(200);
    let ct = reference(&pt);

    // first fill pulls 2 * (64 + 16) = 160 octets
    let source = BufReader::with_capacity(16, faulty(&ct, 170, io::ErrorKind::Interrupted, 1));
    let mut dec = decryptor(source);
    let mut out = Vec::new();
    let res = catch_unwind(AssertUnwindSafe(|| dec.read_to_end(&mut out)))
        .unwrap_or_else(|p| panic!("decryptor panicked: {:?}", panic_msg(p)));
    assert!(
        res.is_ok() && out == pt,
        "read_to_end: {:?}; {} octets released",
        res.as_ref().map_err(|e| e.to_string()),
        out.len(),
    );
}

/// Same through the `BufRead` side (`fill_buf` / `consume`).
#[test]
fn w_decryptor_interrupted_mid_stream_bufread() {
    use std::io::BufRead;

    let pt = plaintext(200);
    let ct = reference(&pt);
    let source = BufReader::with_capacity(16, faulty(&ct, 170, io::ErrorKind::Interrupted, 1));
    let mut dec = decryptor(source);
    let res = catch_unwind(AssertUnwindSafe(|| {
        let mut out = Vec::new();
        loop {
            match dec.fill_buf() {
                Ok([]) => return Ok(out),
                Ok(b) => {
                    out.extend_from_slice(b);
                    let n = b.len();
                    dec.consume(n);
                }
                Err(e) if e.kind() == io::ErrorKind::Interrupted => {}
                Err(e) => return Err((out, e)),
            }
        }
    }))
    .unwrap_or_else(|p| panic!("decryptor panicked: {:?}", panic_msg(p)));
    assert!(matches!(&res, Ok(out) if out == &pt), "{res:?}");
}

/// Non retryable error at various positions, but the consumer calls `read` again.
#[test]
fn w_decryptor_other_error_then_read_again() {
    let pt = plaintext(200);
    let ct = reference(&pt);
    for at in [0, 10, 159, 160, 170, 230, 250, 279, 280] {
        let source = BufReader::with_capacity(16, faulty(&ct, at, io::ErrorKind::Other, 1));
        let dec = decryptor(source);
        let got = catch_unwind(AssertUnwindSafe(|| drain_retrying(dec, 3)))
            .unwrap_or_else(|p| panic!("fault at {at}: decryptor panicked: {:?}", panic_msg(p)));
        check_outcome(&format!("decryptor, fault at {at}"), got, &pt);
    }
}

/// Permanent error: must surface, only correct plaintext may have been released.
#[test]
fn w_decryptor_permanent_error_surfaces() {
    let pt = plaintext(200);
    let ct = reference(&pt);
    for at in [0, 10, 160, 170, 250, 280] {
        let source =
            BufReader::with_capacity(16, faulty(&ct, at, io::ErrorKind::Other, usize::MAX));
        let dec = decryptor(source);
        let (out, status) = catch_unwind(AssertUnwindSafe(|| drain_retrying(dec, 3)))
            .unwrap_or_else(|p| panic!("fault at {at}: decryptor panicked: {:?}", panic_msg(p)));
        assert!(status.is_err(), "fault at {at}: permanent error swallowed");
        assert!(
            pt.starts_with(&out),
            "fault at {at}: released octets are not plaintext"
        );
    }
}
