//! Defect E: `TeeWriter::write_all` (src/util.rs) treats `Ok(0)` from the sink as "try again"
//! and therefore spins forever once the sink cannot take any more bytes.
//! `std::io::Write::write_all` returns `Err(ErrorKind::WriteZero)` in this situation.
//!
//! Public entry point with a caller supplied writer: serializing an unlocked secret key.
//! `PlainSecretParams::to_writer` wraps the *caller's* writer directly in a `TeeWriter`
//! (to compute the 2 octet checksum), so `key.to_writer(&mut &mut small_buf[..])`
//! never returns when the buffer ends inside the secret key material
//! (`<&mut [u8] as Write>::write` returns `Ok(0)` once the slice is full).

use std::{
    io::{self, Write},
    sync::mpsc,
    time::Duration,
};

use pgp::{
    composed::{ArmorOptions, Deserializable, SignedSecretKey},
    ser::Serialize,
};

fn bob() -> SignedSecretKey {
    // unencrypted RSA 3072 secret key from draft-bre-openpgp-samples-00
    let (key, _) = SignedSecretKey::from_armor_single(
        std::fs::File::open("./tests/draft-bre-openpgp-samples-00/bob.sec.asc").unwrap(),
    )
    .unwrap();
    key
}

/// Accepts `capacity` bytes, afterwards every `write` returns `Ok(0)` (like a full `&mut [u8]`).
/// To keep the demo from hanging it starts to fail with a marker error after `GIVE_UP`
/// consecutive zero-writes.
struct FullSink {
    capacity: usize,
    written: usize,
    zero_writes: usize,
}

const GIVE_UP: usize = 100_000;

impl Write for FullSink {
    fn write(&mut self, buf: &[u8]) -> io::Result<usize> {
        let n = buf.len().min(self.capacity - self.written);
        self.written += n;
        if n == 0 && !buf.is_empty() {
            self.zero_writes += 1;
            if self.zero_writes >= GIVE_UP {
                return Err(io::Error::other("gave up: caller keeps retrying zero-writes"));
            }
        }
        Ok(n)
    }
    fn flush(&mut self) -> io::Result<()> {
        Ok(())
    }
}

#[test]
fn e1_full_sink_yields_write_zero_error() {
    let key = bob();
    let total = key.to_bytes().unwrap().len();

    // The secret key material of the primary key lives roughly between byte 420 and 1400
    // of the serialization; 800 is well inside.
    assert!(total > 1500);
    let mut sink = FullSink {
        capacity: 800,
        written: 0,
        zero_writes: 0,
    };

    let err = key
        .to_writer(&mut sink)
        .expect_err("writing into a too small sink cannot succeed");
    assert!(
        sink.zero_writes <= 1,
        "write_all retried a zero-length write {} times, final error: {err}",
        sink.zero_writes
    );
    assert!(
        err.to_string().to_lowercase().contains("write"),
        "expected a WriteZero error, got: {err}"
    );
}

#[test]
fn e2_too_small_slice_does_not_hang() {
    let (tx, rx) = mpsc::channel();
    std::thread::spawn(move || {
        let key = bob();
        let mut buf = [0u8; 800];
        let mut slice = &mut buf[..];
        let res = key.to_writer(&mut slice).map_err(|e| e.to_string());
        let _ = tx.send(res);
    });

    match rx.recv_timeout(Duration::from_secs(20)) {
        Ok(res) => {
            res.expect_err("an 800 byte buffer is too small for this key");
        }
        Err(_) => panic!(
            "SignedSecretKey::to_writer(&mut &mut [0u8; 800][..]) did not return within 20s"
        ),
    }
}

/// Control (passes on unchanged code): the armor path does *not* hang. There the `TeeWriter`
/// sits on top of Base64Encoder -> LineWriter, and LineWriter uses std's `write_all` on the
/// caller's writer, so a full sink surfaces as `WriteZero`.
#[test]
fn e3_control_armored_writer_reports_error() {
    let key = bob();
    let mut sink = FullSink {
        capacity: 800,
        written: 0,
        zero_writes: 0,
    };
    key.to_armored_writer(&mut sink, ArmorOptions::default())
        .expect_err("too small");
    // (drop handlers of LineWriter / base64 EncoderWriter retry a couple of times)
    assert!(sink.zero_writes < 10, "zero writes: {}", sink.zero_writes);
}
