//! Defect H: Standalone (0x02) and Timestamp (0x40) signatures hash one octet of "document".
//!
//! RFC 9580, 5.2.1.3 (Standalone Signature): "This signature is a signature of only its own
//! subpacket contents. It is calculated identically to a signature over a zero-length binary
//! document."
//!
//! `SignatureConfig::hash_data_to_sign` instead reads exactly one byte from the data passed to
//! `Signature::verify` and feeds it into the digest. Consequences:
//!  - a conformant standalone signature can not be verified: with empty data `verify` fails with
//!    an I/O error (UnexpectedEof), with any non-empty data the digest is wrong;
//!  - `verify` accepts a "standalone" signature whose digest covers a document octet.
//!
//! (`SignatureConfig::sign` refuses the types Standalone/Timestamp altogether, so the signatures
//! are assembled here from the public low-level pieces: `hash_signature_data`, `trailer`,
//! `SigningKey::sign`, `Signature::from_config`.)

use pgp::{
    composed::{Deserializable, SignedSecretKey},
    packet::{Signature, SignatureConfig, SignatureType, Subpacket, SubpacketData},
    ser::Serialize,
    types::{KeyDetails, Password, SigningKey, Timestamp},
};
use sha2::{Digest, Sha256};

fn alice() -> SignedSecretKey {
    SignedSecretKey::from_armor_file("./tests/autocrypt/alice@autocrypt.example.sec.asc")
        .unwrap()
        .0
}

/// Makes a v4 signature of type `typ` by alice whose digest is
/// `H(document ++ signature fields ++ trailer)`.
fn make_signature(key: &SignedSecretKey, typ: SignatureType, document: &[u8]) -> Signature {
    let mut config = SignatureConfig::from_key(rand::thread_rng(), &key.primary_key, typ).unwrap();
    config.hashed_subpackets = vec![
        Subpacket::regular(SubpacketData::SignatureCreationTime(Timestamp::now())).unwrap(),
        Subpacket::regular(SubpacketData::IssuerFingerprint(
            key.primary_key.fingerprint(),
        ))
        .unwrap(),
    ];

    let mut hasher = config.hash_alg.new_hasher().unwrap();
    hasher.update(document);
    let len = config.hash_signature_data(&mut hasher).unwrap();
    hasher.update(&config.trailer(len).unwrap());
    let digest = hasher.finalize();

    let raw = key
        .primary_key
        .sign(&Password::empty(), config.hash_alg, &digest)
        .unwrap();
    let sig = Signature::from_config(config, [digest[0], digest[1]], raw).unwrap();

    // Cross-check the digest prefix, independently of the library's hashing helpers, from the
    // serialized packet body: version, type, pk algo, hash algo, 2 octet hashed area length,
    // hashed area (RFC 9580, 5.2.4), followed by the trailer 0x04 0xFF be32(length).
    assert_eq!(sig.hash_alg(), Some(pgp::crypto::hash::HashAlgorithm::Sha256));
    let body = sig.to_bytes().unwrap();
    let hashed_len = u16::from_be_bytes([body[4], body[5]]) as usize;
    let fields = &body[..6 + hashed_len];
    let mut h = Sha256::new();
    h.update(document);
    h.update(fields);
    h.update([0x04, 0xFF]);
    h.update((fields.len() as u32).to_be_bytes());
    let expect = h.finalize();
    assert_eq!(sig.signed_hash_value().unwrap(), expect[..2]);

    sig
}

#[test]
fn conformant_standalone_signature_verifies() {
    let key = alice();
    // "calculated identically to a signature over a zero-length binary document"
    let sig = make_signature(&key, SignatureType::Standalone, b"");

    let res = sig.verify(&key.primary_key.public_key(), &b""[..]);
    assert!(
        res.is_ok(),
        "RFC-conformant standalone signature (digest over zero-length document) does not \
         verify: {res:?}"
    );
}

#[test]
fn conformant_timestamp_signature_verifies() {
    let key = alice();
    let sig = make_signature(&key, SignatureType::Timestamp, b"");

    let res = sig.verify(&key.primary_key.public_key(), &b""[..]);
    assert!(
        res.is_ok(),
        "timestamp signature (digest over its own fields only) does not verify: {res:?}"
    );
}

#[test]
fn standalone_signature_does_not_cover_a_document_octet() {
    let key = alice();
    // NOT a standalone signature in the sense of the RFC: the digest covers the octet 'x'
    let sig = make_signature(&key, SignatureType::Standalone, b"x");

    let res = sig.verify(&key.primary_key.public_key(), &b"x"[..]);
    assert!(
        res.is_err(),
        "a 'standalone' signature whose digest covers the document octet 'x' verifies: the \
         document is part of the digest, although a standalone signature covers only its own \
         subpackets: {res:?}"
    );
}
