//! Defect Y: `SignedSecretSubKey::verify_bindings` does not check the embedded
//! Primary Key Binding ("back") signature of signing-capable subkeys, while
//! `SignedPublicSubKey::verify_bindings` does.
//!
//! The same certificate is therefore accepted when handled as a
//! `SignedSecretKey` (transferable secret key) and rejected after
//! `to_public_key()` / `SignedPublicKey::from(..)` or when the public half is
//! imported as a transferable public key.
//!
//! RFC 9580 5.2.1.9 / 10.1.5: a Subkey Binding signature of a signing-capable
//! subkey MUST contain an Embedded Signature subpacket with a Primary Key
//! Binding signature (type 0x19) made by the subkey.

use pgp::{
    composed::{
        Deserializable, KeyType, SecretKeyParamsBuilder, SignedPublicKey, SignedSecretKey,
        SubkeyParamsBuilder,
    },
    packet::KeyFlags,
    ser::Serialize,
    types::{KeyVersion, Password},
};
use rand::SeedableRng;
use rand_chacha::ChaCha8Rng;

fn gen_key(rng: &mut ChaCha8Rng, version: KeyVersion) -> SignedSecretKey {
    let mut params = SecretKeyParamsBuilder::default();
    params
        .version(version)
        .key_type(KeyType::Ed25519)
        .can_certify(true)
        .subkey(
            SubkeyParamsBuilder::default()
                .version(version)
                .key_type(KeyType::Ed25519)
                .can_sign(true)
                .build()
                .unwrap(),
        );
    if version == KeyVersion::V4 {
        params.primary_user_id("Y <y@example.org>".into());
    }
    let key = params
        .build()
        .unwrap()
        .generate(rng)
        .expect("failed to generate secret key");

    // sanity: the freshly generated key is fine on both paths
    key.verify_bindings()
        .expect("generated secret key is valid");
    key.to_public_key()
        .verify_bindings()
        .expect("generated public key is valid");
    key
}

fn signing_flags() -> KeyFlags {
    let mut flags = KeyFlags::default();
    flags.set_sign(true);
    flags
}

/// Checks that both "views" of the same certificate give the same verdict,
/// and that the verdict is "reject".
fn assert_rejected_consistently(key: &SignedSecretKey, what: &str) {
    // in-memory paths
    let secret_verdict = key.verify_bindings();
    let public_verdict = key.to_public_key().verify_bindings();
    let public_from_verdict = SignedPublicKey::from(key.clone()).verify_bindings();

    // import paths: TSK bytes and TPK bytes of the very same certificate
    let tsk_bytes = key.to_bytes().expect("serialize tsk");
    let tpk_bytes = key.to_public_key().to_bytes().expect("serialize tpk");
    let imported_secret_verdict = SignedSecretKey::from_bytes(&tsk_bytes[..])
        .expect("parse tsk")
        .verify_bindings();
    let imported_public_verdict = SignedPublicKey::from_bytes(&tpk_bytes[..])
        .expect("parse tpk")
        .verify_bindings();

    // The public view is the reference: it rejects.
    assert!(public_verdict.is_err(), "{what}: public view must reject");
    assert!(
        public_from_verdict.is_err(),
        "{what}: public view (From) must reject"
    );
    assert!(
        imported_public_verdict.is_err(),
        "{what}: imported public view must reject"
    );

    assert!(
        secret_verdict.is_err(),
        "{what}: SignedSecretKey::verify_bindings() returned Ok, but the same key as \
         SignedPublicKey is rejected with: {}",
        public_verdict.unwrap_err()
    );
    assert!(
        imported_secret_verdict.is_err(),
        "{what}: imported SignedSecretKey::verify_bindings() returned Ok, but the same key \
         imported as SignedPublicKey is rejected with: {}",
        imported_public_verdict.unwrap_err()
    );
}

/// The subkey binding of a signing-capable subkey carries no back signature at all.
fn missing_back_signature(version: KeyVersion) {
    let mut rng = ChaCha8Rng::seed_from_u64(0);
    let mut key = gen_key(&mut rng, version);

    // Re-issue the subkey binding signature: signing-capable, but without an
    // embedded Primary Key Binding signature.
    let binding = key.secret_subkeys[0]
        .key
        .sign(
            &mut rng,
            &key.primary_key,
            key.primary_key.public_key(),
            &Password::empty(),
            signing_flags(),
            None,
        )
        .expect("sign subkey binding");
    assert!(binding.key_flags().sign());
    assert!(binding.embedded_signature().is_none());
    key.secret_subkeys[0].signatures = vec![binding];

    assert_rejected_consistently(&key, "missing back signature");
}

/// The subkey binding carries a back signature, but it was issued by an unrelated key
/// (i.e. the holder of the primary key "adopts" someone else's signing subkey).
fn foreign_back_signature(version: KeyVersion) {
    let mut rng = ChaCha8Rng::seed_from_u64(1);
    let mut key = gen_key(&mut rng, version);
    let other = gen_key(&mut rng, version);

    // back signature over `key`'s primary, but made by the subkey of `other`
    let foreign_backsig = other.secret_subkeys[0]
        .key
        .sign_primary_key_binding(&mut rng, key.primary_key.public_key(), &Password::empty())
        .expect("sign primary key binding");

    let binding = key.secret_subkeys[0]
        .key
        .sign(
            &mut rng,
            &key.primary_key,
            key.primary_key.public_key(),
            &Password::empty(),
            signing_flags(),
            Some(foreign_backsig),
        )
        .expect("sign subkey binding");
    assert!(binding.key_flags().sign());
    assert!(binding.embedded_signature().is_some());
    key.secret_subkeys[0].signatures = vec![binding];

    assert_rejected_consistently(&key, "back signature by a different key");
}

#[test]
fn y_missing_back_signature_v4() {
    missing_back_signature(KeyVersion::V4);
}

#[test]
fn y_foreign_back_signature_v4() {
    foreign_back_signature(KeyVersion::V4);
}

#[test]
fn y_missing_back_signature_v6() {
    missing_back_signature(KeyVersion::V6);
}

#[test]
fn y_foreign_back_signature_v6() {
    foreign_back_signature(KeyVersion::V6);
}
