//! EMP: `SignGenerator::read` (src/composed/message/builder.rs) takes the `0` it gets back for an
//! EMPTY `buf` in state `Body` for the end of the literal stream.
//!
//! NOT an integration test: `SignGenerator` is private (`struct SignGenerator`, no `pub`), and
//! none of its consumers inside the crate ever passes an empty buffer
//! (`std::io::copy`: 8 KiB stack buffer; `util::fill_buffer`: loops while `offset < chunk_size`;
//! flate2/bzip2 read encoders: read through a `BufReader` with a non empty buffer). The defect is
//! therefore NOT reachable through the public API; it is demonstrated as a unit test.
//!
//! Usage: append the function below to `mod tests` at the end of
//! src/composed/message/builder.rs (or `git apply EMP_demo_unit_test.patch`, which does exactly
//! that) and run `cargo test --offline --lib emp_sign_generator`.
//!
//! Unchanged code (429b628):
//!   assertion failed: `(left == right)`: output length differs after one read(&mut [])
//!   left 1148, right 5152
//! (the 1148 octets do not even parse: "Fixed chunk was shorter than expected")
//! With EMP_fix.patch: ok.
    /// EMP: an empty `buf` is a legal argument of `io::Read::read` and must be answered `Ok(0)`
    /// without side effects. `SignGenerator::read` in state `Body` forwards it to the literal
    /// data generator, gets `0` back and takes that for the end of the literal stream.
    ///
    /// `SignGenerator` is private and none of its consumers in this crate (`io::copy`,
    /// `fill_buffer`, the `BufReader` inside the flate2/bzip2 encoders) ever passes an empty
    /// buffer, so this is demonstrated as a unit test.
    #[test]
    fn emp_sign_generator_empty_read_mid_body() -> TestResult {
        use std::io::Read;

        let (skey, _headers) = SignedSecretKey::from_armor_single(std::fs::File::open(
            "./tests/autocrypt/alice@autocrypt.example.sec.asc",
        )?)?;
        let key = &skey.primary_key;
        let payload: Vec<u8> = (0..5000u32).map(|i| (i * 31 + 7) as u8).collect();

        let run = |empty_read: bool| -> Vec<u8> {
            let rng = ChaCha20Rng::seed_from_u64(1);
            let signers = vec![SigningConfig::new(
                key,
                Password::empty(),
                HashAlgorithm::Sha256,
            )];
            let mut generator = SignGenerator::new(
                rng,
                SignatureType::Binary,
                LiteralDataHeader::new(DataMode::Binary),
                512,
                &payload[..],
                signers,
                None,
            )
            .unwrap();

            let mut out = Vec::new();
            let mut buf = [0u8; 100];
            let mut done_empty_read = false;
            loop {
                if empty_read && !done_empty_read && out.len() > 1000 {
                    done_empty_read = true;
                    assert_eq!(generator.read(&mut []).unwrap(), 0);
                }
                let n = generator.read(&mut buf).unwrap();
                if n == 0 {
                    break;
                }
                out.extend_from_slice(&buf[..n]);
            }
            out
        };

        let reference = run(false);
        let with_empty_read = run(true);

        // the reference is fine
        let mut message = Message::from_bytes(&reference[..])?;
        let mut data = vec![];
        message.read_to_end(&mut data)?;
        assert_eq!(data, payload);
        message.verify(key.public_key())?;

        // an empty read in between must not change what is generated
        assert_eq!(
            with_empty_read.len(),
            reference.len(),
            "output length differs after one read(&mut [])"
        );
        let mut message = Message::from_bytes(&with_empty_read[..])?;
        let mut data = vec![];
        message.read_to_end(&mut data)?;
        assert_eq!(data, payload, "payload truncated after one read(&mut [])");
        message.verify(key.public_key())?;

        Ok(())
    }
