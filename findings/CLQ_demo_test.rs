use pgp::composed::CleartextSignedMessage;
use std::time::Instant;
#[test]
fn cleartext_with_many_short_lines_is_read_in_linear_time() {
    let mut t = String::from("-----BEGIN PGP SIGNED MESSAGE-----\nHash: SHA256\n\n");
    for _ in 0..(192 * 1024) { t.push('\n'); }
    let start = Instant::now();
    let r = CleartextSignedMessage::from_string(&t);
    let dt = start.elapsed();
    assert!(r.is_err(), "unterminated cleartext message must be refused");
    assert!(dt.as_secs_f64() < 2.0, "reading 192 KiB of empty lines took {:.1} s (quadratic scan of the accumulated text for every line)", dt.as_secs_f64());
}
