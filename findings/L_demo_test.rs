//! Defect L: the framing of a key inside a signature digest is selected by the version of the
//! *key* that is hashed, not by the version of the *signature*.
//!
//! RFC 9580, 5.2.4: "When a version 4 signature is made over a key, the hash data starts with the
//! octet 0x99, followed by a two-octet length of the key, and then the body of the key packet.
//! When a version 6 signature is made over a key, the hash data starts with the salt, then octet
//! 0x9B, followed by a four-octet length of the key, and then the body of the key packet."
//!
//! The two rules differ for cross-version signatures: a v6 key (which makes v6 signatures)
//! certifying a v4 key, or a v4 key (v4 signatures) certifying a v6 key. For those rpgp computes
//! (when signing) and expects (when verifying) a digest that no conformant implementation
//! computes.
//!
//! The tests recompute the RFC digest with plain SHA-256 from the serialized packets and check the
//! raw cryptographic signature against it.

use pgp::{
    composed::{Deserializable, SignedPublicKey, SignedSecretKey},
    crypto::hash::HashAlgorithm,
    packet::{
        Signature, SignatureConfig, SignatureType, SignatureVersion, SignatureVersionSpecific,
        Subpacket, SubpacketData,
    },
    ser::Serialize,
    types::{KeyDetails, KeyVersion, Password, Tag, Timestamp, VerifyingKey},
};
use sha2::{Digest, Sha256};

/// v4 key (EdDSA legacy)
fn alice() -> SignedSecretKey {
    SignedSecretKey::from_armor_file("./tests/autocrypt/alice@autocrypt.example.sec.asc")
        .unwrap()
        .0
}

/// v6 key (Ed25519), RFC 9580 appendix A.4
fn v6_key() -> SignedSecretKey {
    SignedSecretKey::from_armor_file("./tests/rfc9580/v6-25519-annex-a-4/tsk.asc")
        .unwrap()
        .0
}

fn config_for(signer: &SignedSecretKey, typ: SignatureType) -> SignatureConfig {
    let alg = signer.primary_key.algorithm();
    let mut config = match signer.primary_key.version() {
        KeyVersion::V4 => SignatureConfig::v4(typ, alg, HashAlgorithm::Sha256),
        KeyVersion::V6 => {
            SignatureConfig::v6(rand::thread_rng(), typ, alg, HashAlgorithm::Sha256).unwrap()
        }
        v => panic!("{v:?}"),
    };
    config.hashed_subpackets = vec![
        Subpacket::regular(SubpacketData::SignatureCreationTime(Timestamp::now())).unwrap(),
        Subpacket::regular(SubpacketData::IssuerFingerprint(
            signer.primary_key.fingerprint(),
        ))
        .unwrap(),
    ];
    config
}

#[derive(Clone, Copy, Debug, PartialEq)]
enum Framing {
    /// 0x99, two-octet length
    Old,
    /// 0x9B, four-octet length
    New,
}

/// The digest of a signature over `key_body` (and optionally a User ID) as laid out in
/// RFC 9580 5.2.4, computed from the serialized signature packet `sig`, with the given
/// framing for the key.
fn digest(sig: &Signature, framing: Framing, key_body: &[u8], uid: Option<&[u8]>) -> Vec<u8> {
    assert_eq!(sig.hash_alg(), Some(HashAlgorithm::Sha256));
    let body = sig.to_bytes().unwrap();

    let mut h = Sha256::new();

    // salt + signature fields + trailer depend on the signature version
    let (fields, trailer_version) = match sig.version() {
        SignatureVersion::V4 => {
            let hashed_len = u16::from_be_bytes([body[4], body[5]]) as usize;
            (&body[..6 + hashed_len], 4u8)
        }
        SignatureVersion::V6 => {
            let SignatureVersionSpecific::V6 { salt } = &sig.config().unwrap().version_specific
            else {
                panic!("v6 signature has a salt")
            };
            h.update(salt);
            let hashed_len = u32::from_be_bytes([body[4], body[5], body[6], body[7]]) as usize;
            (&body[..8 + hashed_len], 6u8)
        }
        v => panic!("{v:?}"),
    };
    assert_eq!(fields[0], trailer_version);

    match framing {
        Framing::Old => {
            h.update([0x99]);
            h.update(u16::try_from(key_body.len()).unwrap().to_be_bytes());
        }
        Framing::New => {
            h.update([0x9B]);
            h.update(u32::try_from(key_body.len()).unwrap().to_be_bytes());
        }
    }
    h.update(key_body);

    if let Some(uid) = uid {
        h.update([0xB4]);
        h.update(u32::try_from(uid.len()).unwrap().to_be_bytes());
        h.update(uid);
    }

    h.update(fields);
    h.update([trailer_version, 0xFF]);
    h.update(u32::try_from(fields.len()).unwrap().to_be_bytes());

    h.finalize().to_vec()
}

/// The framing RFC 9580 5.2.4 prescribes: selected by the signature version.
fn rfc_framing(sig: &Signature) -> Framing {
    match sig.version() {
        SignatureVersion::V4 => Framing::Old,
        SignatureVersion::V6 => Framing::New,
        v => panic!("{v:?}"),
    }
}

fn other(f: Framing) -> Framing {
    match f {
        Framing::Old => Framing::New,
        Framing::New => Framing::Old,
    }
}

fn check_certification(signer: &SignedSecretKey, signee: &SignedPublicKey) {
    let signer_pub = signer.to_public_key();
    let uid = &signee.details.users[0].id;

    let sig = config_for(signer, SignatureType::CertGeneric)
        .sign_certification_third_party(
            &signer.primary_key,
            &Password::empty(),
            &signee.primary_key,
            Tag::UserId,
            uid,
        )
        .unwrap();

    // rpgp is self-consistent
    sig.verify_third_party_certification(
        &signee.primary_key,
        &signer_pub.primary_key,
        Tag::UserId,
        uid,
    )
    .expect("own third party certification verifies");

    let key_body = signee.primary_key.to_bytes().unwrap();
    assert_eq!(key_body[0], u8::from(signee.primary_key.version()));

    let rfc = digest(&sig, rfc_framing(&sig), &key_body, Some(uid.id()));
    let not_rfc = digest(&sig, other(rfc_framing(&sig)), &key_body, Some(uid.id()));

    let raw = sig.signature().unwrap();
    let rfc_ok = signer_pub
        .primary_key
        .verify(HashAlgorithm::Sha256, &rfc, raw);
    let not_rfc_ok = signer_pub
        .primary_key
        .verify(HashAlgorithm::Sha256, &not_rfc, raw);

    assert!(
        rfc_ok.is_ok() && sig.signed_hash_value().unwrap() == rfc[..2],
        "{:?} certification by a {:?} key over a {:?} key is not a signature over the RFC 9580 \
         5.2.4 digest (key framed according to the SIGNATURE version: {:?}); signed hash prefix \
         {:02x?}, RFC digest prefix {:02x?}; verification against the RFC digest: {:?}; \
         verification against the digest with the key framed according to the KEY version: {:?}",
        sig.version(),
        signer.primary_key.version(),
        signee.primary_key.version(),
        rfc_framing(&sig),
        sig.signed_hash_value().unwrap(),
        &rfc[..2],
        rfc_ok,
        not_rfc_ok,
    );
}

fn check_direct_key_signature(signer: &SignedSecretKey, signee: &SignedPublicKey) {
    let signer_pub = signer.to_public_key();

    let sig = config_for(signer, SignatureType::Key)
        .sign_key(&signer.primary_key, &Password::empty(), &signee.primary_key)
        .unwrap();

    sig.verify_key_third_party(&signee.primary_key, &signer_pub.primary_key)
        .expect("own third party direct key signature verifies");

    let key_body = signee.primary_key.to_bytes().unwrap();
    let rfc = digest(&sig, rfc_framing(&sig), &key_body, None);
    let not_rfc = digest(&sig, other(rfc_framing(&sig)), &key_body, None);

    let raw = sig.signature().unwrap();
    let rfc_ok = signer_pub
        .primary_key
        .verify(HashAlgorithm::Sha256, &rfc, raw);
    let not_rfc_ok = signer_pub
        .primary_key
        .verify(HashAlgorithm::Sha256, &not_rfc, raw);

    assert!(
        rfc_ok.is_ok() && sig.signed_hash_value().unwrap() == rfc[..2],
        "{:?} direct key signature by a {:?} key over a {:?} key is not a signature over the RFC \
         9580 5.2.4 digest (key framed according to the SIGNATURE version: {:?}); signed hash \
         prefix {:02x?}, RFC digest prefix {:02x?}; verification against the RFC digest: {:?}; \
         verification against the digest with the key framed according to the KEY version: {:?}",
        sig.version(),
        signer.primary_key.version(),
        signee.primary_key.version(),
        rfc_framing(&sig),
        sig.signed_hash_value().unwrap(),
        &rfc[..2],
        rfc_ok,
        not_rfc_ok,
    );
}

// -- controls: same-version signatures, where both readings coincide

#[test]
fn control_v4_certifies_v4() {
    let alice = alice();
    check_certification(&alice, &alice.to_public_key());
    check_direct_key_signature(&alice, &alice.to_public_key());
}

#[test]
fn control_v6_certifies_v6() {
    let v6 = v6_key();
    assert_eq!(v6.primary_key.version(), KeyVersion::V6);
    // the A.4 key has no user id, direct key signature only
    check_direct_key_signature(&v6, &v6.to_public_key());
}

// -- cross-version signatures

#[test]
fn v6_key_certifies_user_id_of_v4_key() {
    check_certification(&v6_key(), &alice().to_public_key());
}

#[test]
fn v6_key_direct_signature_over_v4_key() {
    check_direct_key_signature(&v6_key(), &alice().to_public_key());
}

#[test]
fn v4_key_direct_signature_over_v6_key() {
    check_direct_key_signature(&alice(), &v6_key().to_public_key());
}
