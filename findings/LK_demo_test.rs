//! Defect LK: `PlainSecretParams::encrypt` (lock) produces locked keys that
//! `EncryptedSecretParams::unlock` refuses to unlock with the same password.
//!
//! `unlock` refuses
//!  - S2K usage 253 (AEAD) unless the S2K specifier is Argon2 or IteratedAndSalted,
//!  - for version 6 keys: every S2K specifier other than Argon2, IteratedAndSalted, Salted.
//!
//! `encrypt` has neither check. Property: locking secret key material with a password and
//! unlocking it with the same password returns exactly the original secret material, for every
//! S2K usage / S2K specifier combination the lock operation accepts.

use pgp::{
    composed::{KeyType, SecretKeyParamsBuilder, SignedSecretKey},
    crypto::{aead::AeadAlgorithm, hash::HashAlgorithm, sym::SymmetricKeyAlgorithm},
    types::{KeyDetails, KeyVersion, Password, S2kParams, SecretParams, StringToKey},
};
use rand::SeedableRng;
use rand_chacha::ChaCha8Rng;

fn key(version: KeyVersion) -> SignedSecretKey {
    let mut rng = ChaCha8Rng::seed_from_u64(7);
    let typ = match version {
        KeyVersion::V6 => KeyType::Ed25519,
        _ => KeyType::Ed25519Legacy,
    };
    SecretKeyParamsBuilder::default()
        .version(version)
        .key_type(typ)
        .can_sign(true)
        .primary_user_id("lk".to_string())
        .build()
        .expect("params")
        .generate(&mut rng)
        .expect("generate")
}

fn specifiers() -> Vec<(&'static str, StringToKey)> {
    vec![
        (
            "Simple{SHA256}",
            StringToKey::Simple {
                hash_alg: HashAlgorithm::Sha256,
            },
        ),
        (
            "Salted{SHA256}",
            StringToKey::Salted {
                hash_alg: HashAlgorithm::Sha256,
                salt: [0x11; 8],
            },
        ),
        (
            "IteratedAndSalted{SHA256}",
            StringToKey::IteratedAndSalted {
                hash_alg: HashAlgorithm::Sha256,
                salt: [0x11; 8],
                count: 0x60,
            },
        ),
        (
            "Argon2",
            StringToKey::Argon2 {
                salt: [0x11; 16],
                t: 1,
                p: 1,
                m_enc: 10,
            },
        ),
    ]
}

fn usages(s2k: &StringToKey) -> Vec<(u8, S2kParams)> {
    let sym_alg = SymmetricKeyAlgorithm::AES128;
    let aead_mode = AeadAlgorithm::Ocb;
    vec![
        (
            254,
            S2kParams::Cfb {
                sym_alg,
                s2k: s2k.clone(),
                iv: vec![0x22; sym_alg.block_size()].into(),
            },
        ),
        (
            253,
            S2kParams::Aead {
                sym_alg,
                aead_mode,
                s2k: s2k.clone(),
                nonce: vec![0x22; aead_mode.nonce_size()].into(),
            },
        ),
    ]
}

#[test]
fn lk_what_lock_accepts_unlock_returns() {
    let password = Password::from("hunter2");
    let mut failures = Vec::new();

    for version in [KeyVersion::V4, KeyVersion::V6] {
        let original = key(version);
        assert_eq!(original.primary_key.version(), version);
        let SecretParams::Plain(plain) = original.primary_key.secret_params() else {
            panic!("generated keys are unlocked");
        };

        for (name, s2k) in specifiers() {
            for (usage, params) in usages(&s2k) {
                let label = format!("{version:?} usage {usage} {name}");
                let mut sk = original.primary_key.clone();

                if let Err(err) = sk.set_password_with_s2k(&password, params) {
                    // refusing to lock is fine
                    let err = err.to_string();
                    println!("{label}: lock refused ({})", &err[..err.len().min(70)]);
                    continue;
                }
                assert!(matches!(sk.secret_params(), SecretParams::Encrypted(_)));

                match sk.remove_password(&password) {
                    Ok(()) => {
                        let SecretParams::Plain(unlocked) = sk.secret_params() else {
                            panic!("{label}: still locked");
                        };
                        assert_eq!(unlocked, plain, "{label}: different key material");
                        println!("{label}: ok");
                    }
                    Err(err) => {
                        let err = err.to_string();
                        let err = &err[..err.len().min(90)];
                        println!("{label}: LOCKED OUT: {err}");
                        failures.push(format!("{label}: {err}"));
                    }
                }
            }
        }
    }

    assert!(
        failures.is_empty(),
        "locking succeeded, unlocking with the same password fails:\n  {}",
        failures.join("\n  ")
    );
}
