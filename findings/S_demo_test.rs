//! Defect S: `Builder::partial_chunk_size` accepts 2^31.
//!
//! The partial body length encoding can express 2^0 ..= 2^30 only
//! (<https://www.rfc-editor.org/rfc/rfc9580.html#section-4.2.1.4>), and
//! `PacketHeader::from_parts` rejects `PacketLength::Partial(l)` for `l > 2^30`.
//! `partial_chunk_size` only checks `size >= 512` and `size.is_power_of_two()`, so `1 << 31`
//! (the only power of two above 2^30 that fits a `u32`) passes the validation. Once a first
//! chunk is full, the literal data partial generator hits
//! `PacketHeader::from_parts(..).expect("known construction")` and panics.

use std::io::Read;

use pgp::composed::MessageBuilder;

const TOO_LARGE: u32 = 1 << 31;

/// Cheap: the validation must reject a chunk size that can not be encoded.
#[test]
fn s_partial_chunk_size_rejects_2_pow_31() {
    let mut builder = MessageBuilder::from_reader("", &b"hello"[..]);
    assert!(
        builder.partial_chunk_size(1 << 30).is_ok(),
        "2^30 is the largest encodable partial length"
    );
    assert!(
        builder.partial_chunk_size(TOO_LARGE).is_err(),
        "partial_chunk_size(2^31) was accepted, but the partial length encoding ends at 2^30"
    );
}

/// Expensive on the unchanged code (allocates and fills a 2 GiB chunk buffer, a few seconds):
/// if the chunk size is accepted, producing the message must not panic.
#[test]
fn s_accepted_chunk_size_must_not_panic() {
    // a source that fills the first chunk completely
    let source = std::io::repeat(0x41).take(u64::from(TOO_LARGE));
    let mut builder = MessageBuilder::from_reader("", source);

    if builder.partial_chunk_size(TOO_LARGE).is_err() {
        // rejected by the validation: nothing else to check
        return;
    }

    let res = std::panic::catch_unwind(std::panic::AssertUnwindSafe(move || {
        builder.to_writer(rand::thread_rng(), std::io::sink())
    }));

    match res {
        Ok(res) => println!("no panic: {:?}", res.map_err(|e| e.to_string())),
        Err(payload) => {
            let msg = payload
                .downcast_ref::<String>()
                .cloned()
                .or_else(|| payload.downcast_ref::<&str>().map(|s| s.to_string()))
                .unwrap_or_default();
            // the error carries a long backtrace: keep the head
            let msg: String = msg.chars().take(160).collect();
            panic!("MessageBuilder::to_writer panicked with an accepted partial_chunk_size(2^31): {msg}");
        }
    }
}
