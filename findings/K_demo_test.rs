//! Defect K: fingerprints of version 3 (and 2) keys are computed over the wrong octets.
//!
//! RFC 9580, 5.5.4.1: "The fingerprint of a version 3 key is formed by hashing the body (but not
//! the 2-octet length) of the MPIs that form the key material (public modulus n, followed by
//! exponent e) with MD5."
//!
//! `PubKeyInner::imprint` hashes the serialized public params, i.e. each MPI *including* its
//! 2-octet bit count.

use md5::{Digest, Md5};
use pgp::{
    composed::{Deserializable, SignedPublicKey},
    types::{Fingerprint, KeyDetails, KeyVersion, PublicParams},
};

/// `MD5(n || e)`, bodies only, computed from the key's public parameters.
fn rfc_v3_fingerprint(key: &impl KeyDetails) -> [u8; 16] {
    let PublicParams::RSA(params) = key.public_params() else {
        panic!("v3 keys are RSA keys");
    };
    use rsa::traits::PublicKeyParts;
    let mut h = Md5::new();
    h.update(params.key.n().to_bytes_be());
    h.update(params.key.e().to_bytes_be());
    h.finalize().into()
}

/// `MD5(n || e)`, computed from the raw packet bytes without going through any rpgp type.
fn rfc_v3_fingerprint_from_packet(packet_body: &[u8]) -> [u8; 16] {
    // version (1) | created (4) | validity days (2) | algorithm (1) | MPI n | MPI e
    assert_eq!(packet_body[0], 3);
    let mut pos = 8;
    let mut h = Md5::new();
    for _ in 0..2 {
        let bits = u16::from_be_bytes([packet_body[pos], packet_body[pos + 1]]) as usize;
        let len = bits.div_ceil(8);
        h.update(&packet_body[pos + 2..pos + 2 + len]);
        pos += 2 + len;
    }
    assert_eq!(pos, packet_body.len());
    h.finalize().into()
}

fn check(path: &str, expected_hex: &str) {
    let (key, _) = SignedPublicKey::from_armor_single(std::fs::File::open(path).unwrap()).unwrap();
    let pk = &key.primary_key;
    assert_eq!(pk.version(), KeyVersion::V3);

    // three independent derivations of the RFC value agree:
    // - from the parsed parameters,
    // - from the raw packet octets,
    // - precomputed outside of Rust (python: hashlib.md5(n + e)).
    use pgp::ser::Serialize;
    let body = pk.to_bytes().unwrap();
    let expected = rfc_v3_fingerprint(pk);
    assert_eq!(expected, rfc_v3_fingerprint_from_packet(&body));
    assert_eq!(hex::encode(expected), expected_hex);

    // the v3 Key ID (low 64 bits of the modulus) is unaffected, just make sure we look at the
    // right key
    let fp = pk.fingerprint();
    assert!(matches!(fp, Fingerprint::V3(_)));
    assert_eq!(
        hex::encode(fp.as_bytes()),
        expected_hex,
        "{path}: v3 fingerprint is not MD5(n || e) (MPI bodies without the 2-octet bit counts)"
    );
}

#[test]
fn v3_fingerprint_pgp263_test_key() {
    // PGP 2.6.3 generated key from the GnuPG test suite, Key ID DC70C124A50283F1
    check(
        "./tests/openpgp/pgp263-test.pub.asc",
        "ccd99fd6a66e720fb8deeb1b0e970899",
    );
}

#[test]
fn v3_fingerprint_pgp6_expiring_key() {
    // PGP 6 generated v3 key, Key ID 1DCC402BB42428BB
    check(
        "./tests/pgp6/expiring.pgp",
        "390ded8988a0727a26fd0afa2563aeb2",
    );
}
