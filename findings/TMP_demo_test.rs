//! TMP: `armor::Dearmor` leaves the placeholder `Part::Temp` behind after any error, the next
//! `read` panics ("invalid state"); and `read_footer` marks the reader `Done` before it rejects
//! the footer, so an error is followed by a clean EOF.

use std::{
    io::{self, BufRead, Read},
    panic::{catch_unwind, AssertUnwindSafe},
    sync::mpsc,
    thread,
    time::Duration,
};

use pgp::{
    armor::{self, BlockType, Dearmor, DearmorOptions},
    errors::Result,
    ser::Serialize,
};

struct Raw(Vec<u8>);

impl Serialize for Raw {
    fn to_writer<W: io::Write>(&self, w: &mut W) -> Result<()> {
        w.write_all(&self.0)?;
        Ok(())
    }
    fn write_len(&self) -> usize {
        self.0.len()
    }
}

fn payload() -> Vec<u8> {
    (0..600u32).map(|i| (i * 7 + 3) as u8).collect()
}

fn armored(with_crc: bool) -> String {
    let mut out = Vec::new();
    armor::write(
        &Raw(payload()),
        BlockType::Message,
        &mut out,
        None,
        with_crc,
    )
    .unwrap();
    String::from_utf8(out).unwrap()
}

fn panic_message(e: Box<dyn std::any::Any + Send>) -> String {
    e.downcast_ref::<String>()
        .cloned()
        .or_else(|| e.downcast_ref::<&str>().map(|s| s.to_string()))
        .unwrap_or_else(|| "<non-string panic>".into())
}

/// Runs `f` on its own thread: Err(msg) if it panicked, panics itself if it did not finish.
fn guarded<T: Send + 'static>(
    f: impl FnOnce() -> T + Send + 'static,
) -> std::result::Result<T, String> {
    let (tx, rx) = mpsc::channel();
    thread::spawn(move || {
        let r = catch_unwind(AssertUnwindSafe(f)).map_err(panic_message);
        let _ = tx.send(r);
    });
    rx.recv_timeout(Duration::from_secs(20))
        .expect("call did not finish within 20s (hang)")
}

/// A `BufRead` over a byte string that hands out small chunks and fails once, with the given
/// error kind, when asked for data at or beyond `fail_at`.
struct FlakySource {
    data: Vec<u8>,
    pos: usize,
    chunk: usize,
    fail_at: usize,
    kind: io::ErrorKind,
    fired: bool,
}

impl Read for FlakySource {
    fn read(&mut self, buf: &mut [u8]) -> io::Result<usize> {
        let avail = self.fill_buf()?;
        let n = avail.len().min(buf.len());
        buf[..n].copy_from_slice(&avail[..n]);
        self.consume(n);
        Ok(n)
    }
}

impl BufRead for FlakySource {
    fn fill_buf(&mut self) -> io::Result<&[u8]> {
        if !self.fired && self.pos >= self.fail_at {
            self.fired = true;
            return Err(io::Error::new(self.kind, "flaky source: one transient failure"));
        }
        let end = (self.pos + self.chunk).min(self.data.len());
        Ok(&self.data[self.pos..end])
    }
    fn consume(&mut self, n: usize) {
        self.pos += n;
    }
}

/// (a) unparsable footer: the first read fails (fine), a second read must not panic.
#[test]
fn tmp_a_read_again_after_unparsable_footer() {
    let text = armored(false).replace("-----END PGP MESSAGE-----", "-----END OF STORY-----");

    let res = guarded(move || {
        let mut d = Dearmor::new(io::Cursor::new(text.into_bytes()));
        let mut buf = vec![0u8; 4096];
        let mut results = Vec::new();
        // drain the body, then run into the footer
        for _ in 0..4 {
            let r = d.read(&mut buf).map_err(|e| e.to_string());
            let stop = r.is_err();
            results.push(r);
            if stop {
                break;
            }
        }
        assert!(
            results.last().unwrap().is_err(),
            "the broken footer must be reported: {results:?}"
        );
        // the caller reads again
        d.read(&mut buf).map_err(|e| e.to_string())
    });

    match res {
        Ok(second) => assert!(
            second.is_err(),
            "after a failed read the reader must keep failing, got {second:?}"
        ),
        Err(msg) => panic!("Dearmor::read panicked when read again after an error: {msg}"),
    }
}

/// (b) a source that reports `Interrupted` once during the body; `read_to_end` retries
/// `Interrupted` automatically, i.e. the second `read` is issued by the standard library.
#[test]
fn tmp_b_interrupted_source_read_to_end() {
    let text = armored(false).into_bytes();
    let expected = payload();

    let res = guarded(move || {
        let src = FlakySource {
            data: text,
            pos: 0,
            chunk: 61,
            fail_at: 300,
            kind: io::ErrorKind::Interrupted,
            fired: false,
        };
        let mut d = Dearmor::new(src);
        let mut out = Vec::new();
        d.read_to_end(&mut out)
            .map(|_| out)
            .map_err(|e| e.to_string())
    });

    match res {
        // either the data is complete, or an error is reported: both are defensible
        Ok(Ok(out)) => assert_eq!(out, expected, "silently wrong data"),
        Ok(Err(_)) => {}
        Err(msg) => panic!("Dearmor panicked after a transient source error: {msg}"),
    }
}

/// (b') the same with a non-retryable error kind and a caller that reads again by itself.
#[test]
fn tmp_b2_other_error_then_read_again() {
    let text = armored(false).into_bytes();

    let res = guarded(move || {
        let src = FlakySource {
            data: text,
            pos: 0,
            chunk: 61,
            fail_at: 300,
            kind: io::ErrorKind::Other,
            fired: false,
        };
        let mut d = Dearmor::new(src);
        let mut buf = vec![0u8; 64];
        let mut first_err = None;
        for _ in 0..100 {
            match d.read(&mut buf) {
                Ok(0) => break,
                Ok(_) => {}
                Err(e) => {
                    first_err = Some(e.to_string());
                    break;
                }
            }
        }
        assert!(first_err.is_some(), "source error must be reported");
        d.read(&mut buf).map_err(|e| e.to_string())
    });

    match res {
        Ok(second) => assert!(
            second.is_err(),
            "after a failed read the reader must keep failing, got {second:?}"
        ),
        Err(msg) => panic!("Dearmor::read panicked when read again after an error: {msg}"),
    }
}

/// (a') `read_header` is public as well and uses the same placeholder.
#[test]
fn tmp_a2_read_after_failed_read_header() {
    let res = guarded(move || {
        let mut d = Dearmor::new(io::Cursor::new(b"this is not armor\n".to_vec()));
        assert!(d.read_header().is_err());
        let mut buf = [0u8; 16];
        d.read(&mut buf).map_err(|e| e.to_string())
    });
    match res {
        Ok(r) => assert!(r.is_err(), "expected an error, got {r:?}"),
        Err(msg) => panic!("Dearmor::read panicked after a failed read_header: {msg}"),
    }
}

fn err_then(text: String, opts: DearmorOptions) -> (String, std::result::Result<usize, String>) {
    let res = guarded(move || {
        let mut d = Dearmor::with_options(io::Cursor::new(text.into_bytes()), opts);
        let mut buf = vec![0u8; 4096];
        let mut first_err = None;
        for _ in 0..4 {
            match d.read(&mut buf) {
                Ok(0) => break,
                Ok(_) => {}
                Err(e) => {
                    first_err = Some(e.to_string());
                    break;
                }
            }
        }
        let first_err = first_err.expect("the bad footer must be reported as an error");
        (first_err, d.read(&mut buf).map_err(|e| e.to_string()))
    });
    res.unwrap_or_else(|msg| panic!("Dearmor::read panicked: {msg}"))
}

/// (c) footer block type differs from the header: Err, and then a clean end of file.
#[test]
fn tmp_c_footer_type_mismatch_then_eof() {
    let text = armored(false).replace("-----END PGP MESSAGE-----", "-----END PGP SIGNATURE-----");
    let (first, second) = err_then(text, DearmorOptions::new());
    assert!(first.contains("footer does not match"), "{first}");
    assert!(
        second.is_err(),
        "a reader that reported a bad footer must not report a clean EOF afterwards, got {second:?}"
    );
}

/// (c') wrong CRC24 with checking enabled: Err, and then a clean end of file.
#[test]
fn tmp_c2_bad_crc_then_eof() {
    let good = armored(true);
    // replace the checksum line "=XXXX" by a different, well formed one
    let crc_line = good
        .lines()
        .find(|l| l.starts_with('=') && l.len() == 5)
        .expect("crc line")
        .to_string();
    let bad_line = if crc_line == "=AAAA" { "=AAAB" } else { "=AAAA" };
    let text = good.replace(&crc_line, bad_line);

    let (first, second) = err_then(text, DearmorOptions::new().enable_crc24_check());
    assert!(first.contains("crc24"), "{first}");
    assert!(
        second.is_err(),
        "a reader that reported a bad checksum must not report a clean EOF afterwards, got {second:?}"
    );
}
