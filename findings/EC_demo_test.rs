//! Defect EC: `EncryptedSecretParams::checksum()` / `SecretParams::checksum()` panic on short
//! protected data.
//!
//! The accessor slices `self.data[len - 2..]` (usage 255 / legacy / 253) resp.
//! `self.data[len - 20..]` (usage 254) without a length check. The secret key parser accepts
//! locked secret key packets with protected data of any length (also 0 octets), so the public
//! accessor panics on a parsed (attacker supplied) key.

use pgp::{
    composed::{Deserializable, SignedSecretKey},
    packet::{Packet, PacketParser},
    ser::Serialize,
    types::{KeyDetails, KeyVersion, SecretParams},
};

fn panic_msg(payload: Box<dyn std::any::Any + Send>) -> String {
    payload
        .downcast_ref::<String>()
        .cloned()
        .or_else(|| payload.downcast_ref::<&str>().map(|s| s.to_string()))
        .unwrap_or_default()
}

fn alice() -> SignedSecretKey {
    let (key, _) =
        SignedSecretKey::from_armor_file("./tests/autocrypt/alice@autocrypt.example.sec.asc")
            .expect("alice");
    key
}

/// S2K part of a locked v4 secret key, followed by `data_len` octets of protected data.
fn secret_part(usage: u8, data_len: usize) -> Vec<u8> {
    let mut out = vec![usage];
    match usage {
        // usage 254 / 255: AES128, iterated and salted SHA-256, 16 octets IV
        254 | 255 => {
            out.extend_from_slice(&[0x07, 0x03, 0x08]);
            out.extend_from_slice(&[0x11; 8]);
            out.push(0x60);
            out.extend_from_slice(&[0x22; 16]);
        }
        // usage 253: AES128, OCB, iterated and salted SHA-256, 15 octets nonce
        253 => {
            out.extend_from_slice(&[0x07, 0x02, 0x03, 0x08]);
            out.extend_from_slice(&[0x11; 8]);
            out.push(0x60);
            out.extend_from_slice(&[0x22; 15]);
        }
        // legacy: usage octet is the cipher (AES128), 16 octets IV
        7 => out.extend_from_slice(&[0x22; 16]),
        _ => unreachable!(),
    }
    out.extend(std::iter::repeat(0x33).take(data_len));
    out
}

#[test]
fn ec_checksum_of_parsed_params_must_not_panic() {
    let key = alice();
    let public = key.primary_key.public_key();

    for (usage, data_len) in [
        (254u8, 1usize),
        (254, 19),
        (254, 0),
        (255, 1),
        (253, 1),
        (7, 0),
    ] {
        let raw = secret_part(usage, data_len);
        let params = SecretParams::from_slice(
            &raw,
            KeyVersion::V4,
            public.algorithm(),
            public.public_params(),
        )
        .expect("the parser accepts short protected data");
        assert!(matches!(params, SecretParams::Encrypted(_)));

        let res = std::panic::catch_unwind(std::panic::AssertUnwindSafe(|| params.checksum()));
        match res {
            Ok(sum) => println!("usage {usage}, {data_len} octets: checksum {sum:02x?}"),
            Err(payload) => panic!(
                "SecretParams::checksum() panicked for S2K usage {usage} with {data_len} octets \
                 of protected data: {}",
                panic_msg(payload)
            ),
        }
    }
}

/// The same through a whole secret key packet from the wire.
#[test]
fn ec_checksum_of_parsed_secret_key_packet_must_not_panic() {
    let key = alice();

    // packet body: public key fields + crafted secret part
    let mut body = key
        .primary_key
        .public_key()
        .to_bytes()
        .expect("public part");
    body.extend_from_slice(&secret_part(254, 1));
    assert!(body.len() < 192);
    let mut packet = vec![0xC5, body.len() as u8];
    packet.extend_from_slice(&body);
    println!("packet: {}", hex::encode(&packet));

    let parsed = PacketParser::new(&packet[..])
        .next()
        .expect("one packet")
        .expect("the parser accepts the packet");
    let Packet::SecretKey(sk) = parsed else {
        panic!("expected a secret key packet");
    };
    let SecretParams::Encrypted(enc) = sk.secret_params() else {
        panic!("expected locked secret params");
    };
    assert_eq!(enc.data().len(), 1);

    let res = std::panic::catch_unwind(std::panic::AssertUnwindSafe(|| enc.checksum()));
    match res {
        Ok(sum) => assert!(sum.len() <= 1, "there is only one octet: {sum:02x?}"),
        Err(payload) => panic!(
            "EncryptedSecretParams::checksum() panicked on a parsed secret key packet: {}",
            panic_msg(payload)
        ),
    }
}

/// Unchanged behaviour for regular keys: the last 20 octets for usage 254.
#[test]
fn ec_checksum_regular() {
    let mut key = alice();
    key.primary_key
        .set_password(rand::thread_rng(), &"pw".into())
        .expect("lock");
    let SecretParams::Encrypted(enc) = key.primary_key.secret_params() else {
        panic!("expected locked secret params");
    };
    assert_eq!(enc.string_to_key_id(), 254);
    let data = enc.data();
    assert_eq!(enc.checksum(), data[data.len() - 20..].to_vec());
}
