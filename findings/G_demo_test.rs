//! Defect G: a *critical* hashed subpacket of a private/experimental type (100..=110) is not
//! understood by the library, yet signatures carrying it are accepted.
//!
//! RFC 9580, 5.2.3.7: "If a subpacket is encountered that is marked critical but is unknown to
//! the evaluating software, the evaluator SHOULD consider the signature to be in error."

use pgp::{
    composed::{Deserializable, SignedSecretKey},
    packet::{Signature, SignatureConfig, SignatureType, Subpacket, SubpacketData},
    ser::Serialize,
    types::{KeyDetails, Password, Timestamp},
};

const DATA: &[u8] = b"hello world";

fn alice() -> SignedSecretKey {
    SignedSecretKey::from_armor_file("./tests/autocrypt/alice@autocrypt.example.sec.asc")
        .unwrap()
        .0
}

/// Data signature by alice whose hashed area holds `extra`.
///
/// The digest is computed by hand (RFC 9580, 5.2.4) and signed with the raw `SigningKey::sign`,
/// so that no library-side policy check is involved on the signer side; only verification is
/// under test.
fn signature_with(extra: Subpacket) -> Signature {
    use pgp::types::SigningKey;

    let key = alice();
    let mut config = SignatureConfig::from_key(
        rand::thread_rng(),
        &key.primary_key,
        SignatureType::Binary,
    )
    .unwrap();
    config.hashed_subpackets = vec![
        Subpacket::regular(SubpacketData::SignatureCreationTime(Timestamp::now())).unwrap(),
        Subpacket::regular(SubpacketData::IssuerFingerprint(
            key.primary_key.fingerprint(),
        ))
        .unwrap(),
        extra,
    ];

    // Hash by hand: document ++ v4 hashed fields ++ trailer (RFC 9580, 5.2.4), serialising the
    // hashed fields ourselves so that no library-side policy check is involved on the signer side.
    let mut fields: Vec<u8> = vec![
        4,
        config.typ.into(),
        config.pub_alg.into(),
        config.hash_alg.into(),
    ];
    let mut area = Vec::new();
    for sp in &config.hashed_subpackets {
        sp.to_writer(&mut area).unwrap();
    }
    fields.extend(u16::try_from(area.len()).unwrap().to_be_bytes());
    fields.extend(area);

    let mut hasher = config.hash_alg.new_hasher().unwrap();
    hasher.update(DATA);
    hasher.update(&fields);
    let mut trailer = vec![4, 0xFF];
    trailer.extend(u32::try_from(fields.len()).unwrap().to_be_bytes());
    hasher.update(&trailer);
    let digest = hasher.finalize();

    let raw = key
        .primary_key
        .sign(&Password::empty(), config.hash_alg, &digest)
        .unwrap();
    Signature::from_config(config, [digest[0], digest[1]], raw).unwrap()
}

#[test]
fn control_noncritical_experimental_subpacket_is_fine() {
    let sig = signature_with(
        Subpacket::regular(SubpacketData::Experimental(101, b"private".to_vec().into())).unwrap(),
    );
    sig.verify(&alice().primary_key.public_key(), DATA)
        .expect("a non-critical unknown subpacket must be ignored");
}

#[test]
fn control_critical_unassigned_subpacket_is_rejected() {
    // type 90 is unassigned -> SubpacketType::Other(90)
    let sig = signature_with(
        Subpacket::critical(SubpacketData::Other(90, b"private".to_vec().into())).unwrap(),
    );
    let res = sig.verify(&alice().primary_key.public_key(), DATA);
    assert!(
        res.is_err(),
        "critical subpacket of unassigned type 90 must make the signature invalid"
    );
}

#[test]
fn critical_private_use_subpacket_is_rejected() {
    // type 101 is in the private/experimental range 100..=110 -> SubpacketType::Experimental(101).
    // The library attaches no meaning to it, i.e. it is "unknown to the evaluating software".
    let sig = signature_with(
        Subpacket::critical(SubpacketData::Experimental(101, b"private".to_vec().into())).unwrap(),
    );

    // sanity: on the wire the subpacket really has the critical bit set (0x80 | 101 = 0xE5)
    let bytes = sig.to_bytes().unwrap();
    assert!(bytes.windows(2).any(|w| w == [0xE5, b'p']));

    let res = sig.verify(&alice().primary_key.public_key(), DATA);
    assert!(
        res.is_err(),
        "signature with a CRITICAL subpacket of private/experimental type 101 (which this \
         implementation does not understand) was accepted: {res:?}"
    );
}

#[test]
fn critical_private_use_subpacket_is_rejected_after_parsing() {
    // Same thing through the parser: serialize, re-read, verify.
    use pgp::packet::{Packet, PacketParser};

    let sig = signature_with(
        Subpacket::critical(SubpacketData::Experimental(110, b"private".to_vec().into())).unwrap(),
    );
    let mut bytes = Vec::new();
    Packet::from(sig).to_writer(&mut bytes).unwrap();
    let Packet::Signature(parsed) = PacketParser::new(&bytes[..]).next().unwrap().unwrap() else {
        panic!("not a signature");
    };
    let sp = parsed.config().unwrap().hashed_subpackets().last().unwrap();
    assert!(sp.is_critical);

    let res = parsed.verify(&alice().primary_key.public_key(), DATA);
    assert!(
        res.is_err(),
        "parsed signature with a CRITICAL subpacket of private/experimental type 110 was \
         accepted: {res:?}"
    );
}
