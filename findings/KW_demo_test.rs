//! finding KW (C04): aes_kw::unwrap computed `data.len() - 8` before any length check; a PKESK whose wrapped
//! session key field is shorter than 8 octets (admitted by the parser) panicked Message::decrypt.
use pgp::composed::{Deserializable, Message, SignedSecretKey};
use pgp::types::Password;

fn hex(s: &str) -> Vec<u8> {
    let s: String = s.chars().filter(|c| !c.is_whitespace()).collect();
    (0..s.len() / 2).map(|i| u8::from_str_radix(&s[2 * i..2 * i + 2], 16).unwrap()).collect()
}

#[test]
fn aes_kw_unwrap_short_input_is_an_error_not_a_panic() {
    for n in 0..8usize {
        let data = vec![0u8; n];
        let r = std::panic::catch_unwind(|| pgp::crypto::aes_kw::unwrap(&[0u8; 16], &data));
        assert!(r.is_ok(), "aes_kw::unwrap panicked on {n} octets of input");
        assert!(r.unwrap().is_err(), "aes_kw::unwrap accepted {n} octets of input");
    }
}

#[test]
fn pkesk_x25519_with_empty_wrapped_key_does_not_panic_decrypt() {
    // v3 PKESK, wildcard key id, alg 25 (X25519), ephemeral 0x55*32, length octet 01 (just the cipher octet 09), no wrapped key;
    // followed by a SEIPD v1 packet with 40 junk octets
    let mut msg = hex("c12c03 0000000000000000 19");
    msg.extend(std::iter::repeat(0x55u8).take(32));
    msg.extend(hex("01 09 d229 01"));
    msg.extend(std::iter::repeat(0xaau8).take(40));
    let (key, _) = SignedSecretKey::from_armor_file("./tests/rfc9580/v6-25519-annex-a-4/tsk.asc").unwrap();
    let r = std::panic::catch_unwind(|| {
        let m = Message::from_bytes(&msg[..]).unwrap();
        m.decrypt(&Password::empty(), &key).map(|_| ())
    });
    assert!(r.is_ok(), "Message::decrypt panicked on a PKESK with an empty wrapped session key");
    assert!(r.unwrap().is_err());
}
